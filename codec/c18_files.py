#!/usr/bin/env python3
"""c18_files.py <outdir> - independently encoded GDSII and OASIS files for the truncation check C18.
Deterministic; uses only the specification-derived codecs (no gdstk).  Writes <name>.gds / <name>.oas and
index.txt with one line per file: <file> <gds|oas> <signed 0|1>."""
import os, sys
from fractions import Fraction
sys.path.insert(0, os.path.dirname(os.path.abspath(__file__)))
import gds_codec as G
import oas_codec as O

out = sys.argv[1]
os.makedirs(out, exist_ok=True)
index = []
STAMP = [2001, 2, 3, 4, 5, 6, 2001, 2, 3, 4, 5, 6]


def gds_layout(variant):
    units = (Fraction(1, 1000), Fraction(1, 10**9))
    def el(kind, **kw):
        d = dict(kind=kind, elflags=None, plex=None, props=[])
        d.update(kw)
        return d
    leaf = dict(name='LEAF' if variant != 'short_names' else 'L', bgnstr=STAMP, elements=[
        el('boundary', layer=1, datatype=0, xy=[(0, 0), (1000, 0), (1000, 1000), (0, 1000)]),
    ])
    top_elems = [
        el('boundary', layer=5, datatype=6, xy=[(0, 0), (4000, 0), (4000, 1000), (3000, 1000), (3000, 2000), (0, 2000)], props=[(1, b'prop'), (2, b'odd')],
           elflags=1 if variant == 'all_optional' else None, plex=7 if variant == 'all_optional' else None,
           syn=dict(xy_split=(3, 4)) if variant in ('all_optional', 'split_xy') else {}),
        el('box', layer=9, boxtype=2, xy=[(0, 0), (10, 0), (10, 10), (0, 10)]),
        el('path', layer=2, datatype=1, pathtype=4, width=500, bgnextn=250, endextn=-100, xy=[(0, 0), (5000, 0), (5000, 3000)],
           syn=dict(xy_split=(1, 2)) if variant == 'split_xy' else {}),
        el('path', layer=2, datatype=1, xy=[(0, 0), (7, 7)]),
        # optional records of one element must not leak into the next, also when the first one is filtered out by its tag:
        # a wide path, then paths on OTHER tags without WIDTH / PATHTYPE / extensions, then a text without presentation fields
        el('path', layer=12, datatype=3, pathtype=2, width=800, xy=[(0, 0), (0, 4000)]),
        el('path', layer=13, datatype=0, xy=[(100, 100), (900, 100), (900, 700)]),
        el('path', layer=12, datatype=3, pathtype=4, width=-60, bgnextn=30, endextn=40, xy=[(0, 0), (300, 0)]),
        el('path', layer=14, datatype=1, xy=[(5, 5), (50, 5)]),
        el('boundary', layer=13, datatype=0, xy=[(0, 0), (30, 0), (30, 30)]),
        el('text', layer=3, texttype=2, font=1, vjust=2, hjust=1, pathtype=1, width=-40, reflect=True, mag=Fraction(5, 2), angle=Fraction(30), xy=(1000, 2000), string=b'hello'),
        el('sref', sname=leaf['name'], reflect=True, mag=Fraction(2), angle=Fraction(90), xy=(10000, 5000), props=[(7, b'rp')]),
        el('aref', sname=leaf['name'], cols=2, rows=3, xy=[(0, 0), (8000, 0), (0, 12000)]),
        el('sref', sname='ABSENT_CELL', xy=(1, 1)),
    ]
    top = dict(name='TOPCELL' if variant != 'short_names' else 'TOP', bgnstr=STAMP, elements=top_elems)
    lay = dict(version=600, bgnlib=STAMP, libname='INDEPENDENT' if variant != 'short_names' else 'LIB', reflibs=None, fonts=None, attrtable=None,
               generations=None, format=None, masks=[], units=units, cells=[top, leaf] if variant in ('all_optional', 'forward_refs') else [leaf, top])
    if variant == 'all_optional':
        lay.update(reflibs=b'REFLIB1'.ljust(88, b'\0'), fonts=b'FONT1'.ljust(176, b'\0'), attrtable=b'ATTRS', generations=3)
    if variant == 'minimal':
        lay['cells'] = []
    return lay


for v in ('plain', 'all_optional', 'split_xy', 'forward_refs', 'short_names', 'minimal'):
    data = G.encode(gds_layout(v))
    G.decode(data, strict=True)  # the encoder's own output must be a valid file
    name = 'indep.%s.gds' % v
    open(os.path.join(out, name), 'wb').write(data)
    index.append('%s gds 0' % name)


def oas_layout():
    P = lambda name, vals: dict(name=name, values=vals, std=False)
    leaf = dict(name=b'LEAF', props=[], name_props=[], elements=[
        dict(kind='rectangle', layer=1, datatype=0, x=0, y=0, w=10, h=10, square=False, rep=None, props=[]),
        dict(kind='polygon', layer=2, datatype=1, x=5, y=5, pts=[(0, 0), (10, 0), (10, 7), (3, 7)], ptype=4, rep=(1, 2, 3, 40, 50), props=[P(b'p', [('uint', 7), ('a', b'text value')])]),
    ])
    top = dict(name=b'TOP', props=[P(b'cellprop', [('real', (2, 5))])], name_props=[], elements=[
        dict(kind='path', layer=3, datatype=0, x=0, y=0, hw=5, ext=(5, 0), ext_repr=(2, 1), pts=[(0, 0), (100, 0), (100, 60)], ptype=0, rep=None, props=[]),
        dict(kind='text', text=b'label', textlayer=4, texttype=1, x=7, y=9, rep=(10, [(3, 4), (-8, 2)]), props=[]),
        dict(kind='placement', cell=b'LEAF', rec=18, flip=True, angle=(0, 30), mag=(4, 5, 2), x=200, y=100, rep=None, props=[]),
        dict(kind='circle', layer=5, datatype=5, x=-20, y=-20, r=12, rep=None, props=[]),
    ])
    return dict(unit=(0, 1000), props=[P(b'fileprop', [('sint', -3)])], cells=[leaf, top])


OAS_VARIANTS = {
    'plain': dict(),
    'crc': dict(validation=1),
    'checksum': dict(validation=2, tables='before', offsets_in='start', strict=1),
    'cblock_crc': dict(validation=1, cblock='one', plc_by='num', cell_by='num', text_by='num', pname_by='num'),
    'rel_pad_checksum': dict(validation=2, xymode='rel', pad=15, implicit='all'),
}
for v, ch in OAS_VARIANTS.items():
    data, _info = O.encode_layout(oas_layout(), ch)
    O.decode(data)
    name = 'indep.%s.oas' % v
    open(os.path.join(out, name), 'wb').write(data)
    index.append('%s oas %d' % (name, 1 if ch.get('validation') else 0))

open(os.path.join(out, 'index.txt'), 'w').write('\n'.join(index) + '\n')
