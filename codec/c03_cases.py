"""c03_cases.py - deterministic enumeration of the C03 case spaces (no random module anywhere).

Direction 1 (independent encoder -> gdstk): families of abstract layouts + serialisation choices.
  case id  = "d1:<family>:<index>:<ctx>"      ctx in 0..8 = units_i + 3*req_i
  make_d1(family, index, ctx) -> dict(layout, data(bytes), req(float), tol(float), info(dict))
Direction 2 (gdstk -> strict decoder): members of the driver's library family.
  case id  = "d2:<kind>:<p0,p1,..>:<libcfg>:<max_points>"

Every family is a mixed-radix product of small explicit domains (DIMS) so that an index decodes to
the choice-point values, which are also the violation tags.
"""
import itertools
import math
from fractions import Fraction

import gds_codec as G

UNITS = [(Fraction(1, 1000), Fraction(1, 10 ** 9)), (Fraction(1), Fraction(1, 10 ** 6)), (Fraction(1, 2000), Fraction(1, 2 * 10 ** 9)),
         (Fraction(1, 10 ** 6), Fraction(1, 10 ** 9)), (Fraction(1, 100), Fraction(254, 10 ** 7))]   # last: 0.01 inch grid, db unit 25.4 um
REQ = [0.0, 1e-6, 1e-9, 2e-6]
NU, NR = len(UNITS), len(REQ)
NCTX = NU * NR   # ctx = units_i + NU * req_i
TOLS = [0.0, 0.005]

TAGS = [(1, 2), (32767, 32767), (0, 0)]
PROPS = [[], [(1, b'a')], [(2, b'ab')], [(1, b'abc'), (127, b'abcd')], [(126, b'wxyz'), (5, b'q')]]
I32MIN, I32MAX = -2 ** 31, 2 ** 31 - 1
BND_PTS = {0: [(0, 0), (1000, 0), (1200, 900), (300, 1400), (-500, 700), (-900, 100), (-400, -350)],
           1: [(I32MIN, I32MIN), (I32MAX, I32MIN), (I32MAX, I32MAX), (0, I32MAX), (I32MIN, 5), (-7, -3), (I32MIN + 1, I32MIN + 1)]}
BOX_PTS = {0: [(-300, -200), (900, -200), (900, 400), (-300, 400)],
           1: [(I32MIN, I32MIN), (I32MAX, I32MIN), (I32MAX, I32MAX), (I32MIN, I32MAX)]}
TRANS = [None] + [(r, m, a) for r in (False, True) for m in (None, 1, Fraction(5, 2)) for a in (None, 0, 90, 180, 270, 30)]
# larger transformation alphabet of the reference families (appended, so indices < 37 keep their meaning)
TRANS_X = TRANS + [(r, m, a) for r in (False, True) for m in (None, 1, Fraction(5, 2), Fraction(1, 2), 100) for a in (None, 0, 90, 180, 270, 30, 45, 360, -90)
                   if (r, m, a) not in TRANS]
PRES = [None] + [(f, v, h) for f in range(4) for v in range(3) for h in range(3)]
PTW = [(None, None), (0, 0), (1, 40), (2, -25), (None, 40), (4, None)]
STRINGS = [b'a', b'ab', b'abc']
WIDTHS = [None, 0, 100, -60]
BGN = [None, 150, -40, 0]
END = [None, 80, -30, 0]
PATHTYPES = [None, 0, 1, 2, 4]
PATH_PTS = {2: [(0, 0), (2000, 0)], 3: [(0, 0), (2000, 0), (2000, -1500)], 4: [(0, 0), (2000, 0), (2000, -1500), (-700, -1500)]}
PTSPLIT1 = [(1, 1), (1, 2), (1, 1, 1)]
COLROW = [(1, 1), (2, 3), (3, 1), (4, 4), (1, 5)]


def masks_to_split(n, mask):
    """n points, bit i of mask set = a new XY record starts after point i (i in 0..n-2)"""
    split, run = [], 1
    for i in range(n - 1):
        if mask >> i & 1:
            split.append(run)
            run = 1
        else:
            run += 1
    split.append(run)
    return tuple(split)


BND_SPLITS = [(nv, masks_to_split(nv + 1, m)) for nv in (3, 4, 5, 6, 7) for m in range(1 << nv)]   # first 56: nv 3..5
BND_QUICK = 56
# every composition of 2, 3 and 4 path points into XY records (first 3 entries: the unsplit/simple ones)
PTSPLIT = [(2,), (3,), (2, 1)] + [sp for n in (2, 3, 4) for sp in (masks_to_split(n, m) for m in range(1 << (n - 1))) if sp not in ((2,), (3,), (2, 1))]
BOX_SPLITS = [masks_to_split(5, m) for m in range(16)]


def radix_decode(idx, dims):
    out = []
    for d in reversed(dims):
        out.append(idx % d)
        idx //= d
    return list(reversed(out))


def trans_fields(t):
    if t is None:
        return {'syn': {'strans': False}}
    r, m, a = t
    return {'reflect': r, 'mag': Fraction(1) if m is None else Fraction(m), 'angle': Fraction(0) if a is None else Fraction(a),
            'syn': {'strans': True, 'mag': m is not None, 'angle': a is not None}}


def trans_name(t):
    if t is None:
        return 'strans=absent'
    return 'reflect=%d,mag=%s,angle=%s' % (t[0], 'absent' if t[1] is None else t[1], 'absent' if t[2] is None else t[2])


def deco(el, which):
    """which: 0 nothing; 1 ELFLAGS+PLEX+one property"""
    if which:
        el['elflags'] = 1
        el['plex'] = 0x01000005
        el['props'] = [(3, b'pv')]
    return el


def kid_cell(name):
    return {'name': name, 'elements': [{'kind': 'boundary', 'layer': 9, 'datatype': 9, 'xy': [(0, 0), (200, 0), (0, 100)]}]}


def aref_points(origin, cols, rows, dx, dy, reflect, angle):
    """the three AREF points from the specification's definition: the array (columns along x, rows along
    y, inter-column spacing dx, inter-row spacing dy) is reflected about the x axis (if requested) and
    then rotated by `angle` about the origin; point 2 = origin + cols * column pitch, point 3 = origin +
    rows * row pitch.  Multiples of 90 degrees are exact; other angles are rounded to the db grid."""
    a = int(angle) % 360
    if a % 90 == 0:
        c, s = [(1, 0), (0, 1), (-1, 0), (0, -1)][a // 90]
    else:
        c, s = math.cos(math.radians(a)), math.sin(math.radians(a))
    ry = -dy if reflect else dy
    col = (int(round(c * dx)), int(round(s * dx)))
    row = (int(round(-s * ry)), int(round(c * ry)))
    return [origin, (origin[0] + cols * col[0], origin[1] + cols * col[1]), (origin[0] + rows * row[0], origin[1] + rows * row[1])]


# ------------------------------------------------------------------------------------------------
# families: name -> (dims, builder(values) -> (cells, tags))
def fam_boundary(v):
    (nv, split), cf, tg, fl, px, pr = BND_SPLITS[v[0]], v[1], TAGS[v[2]], v[3], v[4], PROPS[v[5]]
    el = {'kind': 'boundary', 'layer': tg[0], 'datatype': tg[1], 'xy': BND_PTS[cf][:nv], 'syn': {'xy_split': split},
          'elflags': 2 if fl else None, 'plex': 77 if px else None, 'props': pr}
    return [{'name': 'TOP', 'elements': [el]}], {'kind': 'boundary', 'nv': nv, 'xy_split': '+'.join(map(str, split)), 'coords': 'extreme' if cf else 'small',
                                                 'tag': '%d/%d' % tg, 'elflags': fl, 'plex': px, 'nprops': len(pr)}


def fam_box(v):
    split, cf, tg, fl, px, pr = BOX_SPLITS[v[0]], v[1], TAGS[v[2]], v[3], v[4], PROPS[v[5]]
    el = {'kind': 'box', 'layer': tg[0], 'boxtype': tg[1], 'xy': BOX_PTS[cf], 'syn': {'xy_split': split},
          'elflags': 1 if fl else None, 'plex': -3 if px else None, 'props': pr}
    return [{'name': 'TOP', 'elements': [el]}], {'kind': 'box', 'xy_split': '+'.join(map(str, split)), 'coords': 'extreme' if cf else 'small',
                                                 'tag': '%d/%d' % tg, 'elflags': fl, 'plex': px, 'nprops': len(pr)}


def path_el(pt, w, b, e, split):
    pts = PATH_PTS[sum(split)]
    return {'kind': 'path', 'layer': 4, 'datatype': 6, 'pathtype': pt or 0, 'width': w or 0, 'bgnextn': b or 0, 'endextn': e or 0, 'xy': pts,
            'syn': {'pathtype': pt is not None, 'width': w is not None, 'bgnextn': b is not None, 'endextn': e is not None, 'xy_split': split}}


def _nm(x):
    return 'absent' if x is None else str(x)


def fam_path(v):
    pt, w, b, e, split, dc = PATHTYPES[v[0]], WIDTHS[v[1]], BGN[v[2]], END[v[3]], PTSPLIT[v[4]], v[5]
    el = deco(path_el(pt, w, b, e, split), dc)
    return [{'name': 'TOP', 'elements': [el]}], {'kind': 'path', 'pathtype': _nm(pt), 'width': _nm(w), 'bgnextn': _nm(b), 'endextn': _nm(e),
                                                 'xy_split': '+'.join(map(str, split)), 'deco': dc}


def fam_path_xy1(v):
    split, w, pt = PTSPLIT1[v[0]], (None, 100)[v[1]], (None, 2)[v[2]]
    el = path_el(pt, w, None, None, split)
    return [{'name': 'TOP', 'elements': [el]}], {'kind': 'path', 'pathtype': _nm(pt), 'width': _nm(w), 'xy_split': '+'.join(map(str, split)),
                                                 'first_xy_record_points': 1}


def _place(cells_top, kid, target):
    """target: 0 referenced cell defined before, 1 after (forward reference), 2 missing"""
    if target == 0:
        return [kid, cells_top]
    if target == 1:
        return [cells_top, kid]
    return [cells_top]


def fam_sref(v):
    t, target, par, dc = TRANS_X[v[0]], v[1], v[2], v[3]
    name = 'KID' if par else 'KIDS'
    el = dict({'kind': 'sref', 'sname': name, 'xy': (-1500, 2500)}, **trans_fields(t))
    deco(el, dc)
    cells = _place({'name': 'TOP', 'elements': [el]}, kid_cell(name), target)
    return cells, {'kind': 'sref', 'trans': trans_name(t), 'target': ('before', 'after', 'missing')[target], 'name_parity': 'odd' if par else 'even', 'deco': dc}


def fam_aref(v):
    t, (cols, rows), sign, target, dc = TRANS_X[v[0]], COLROW[v[1]], v[2], v[3], v[4]
    r, m, a = t if t else (False, None, None)
    dx, dy = (100, 70) if sign == 0 else (-100, 70)
    pts = aref_points((500, -300), cols, rows, dx, dy, r, a or 0)
    el = dict({'kind': 'aref', 'sname': 'KID', 'cols': cols, 'rows': rows, 'xy': pts}, **trans_fields(t))
    deco(el, dc)
    cells = _place({'name': 'TOP', 'elements': [el]}, kid_cell('KID'), target)
    return cells, {'kind': 'aref', 'trans': trans_name(t), 'colrow': '%dx%d' % (cols, rows), 'pitch': 'neg_x' if sign else 'pos',
                   'target': ('before', 'after', 'missing')[target], 'deco': dc}


def text_el(pres, ptw, t, s):
    f, vj, hj = pres or (0, 0, 0)
    pt, w = ptw
    el = dict({'kind': 'text', 'layer': 7, 'texttype': 8, 'font': f, 'vjust': vj, 'hjust': hj, 'pathtype': pt or 0, 'width': w or 0,
               'xy': (-700, 1300), 'string': s}, **trans_fields(t))
    el['syn'].update(presentation=pres is not None, pathtype=pt is not None, width=w is not None)
    return el


def fam_text(v):
    pres, ptw, t, s, dc = PRES[v[0]], PTW[v[1]], TRANS[v[2]], STRINGS[v[3]], v[4]
    el = deco(text_el(pres, ptw, t, s), dc)
    return [{'name': 'TOP', 'elements': [el]}], {'kind': 'text', 'presentation': 'absent' if pres is None else 'font%d/v%d/h%d' % pres,
                                                 'pathtype': _nm(ptw[0]), 'width': _nm(ptw[1]), 'trans': trans_name(t), 'strlen': len(s), 'deco': dc}


def rep_elements():
    """one representative per kind (used by the header / order / units families)"""
    return [
        ('boundary', {'kind': 'boundary', 'layer': 1, 'datatype': 2, 'xy': BND_PTS[0][:4]}),
        ('box', {'kind': 'box', 'layer': 1, 'boxtype': 3, 'xy': BOX_PTS[0]}),
        ('path', path_el(2, 100, None, None, (3,))),
        ('sref', dict({'kind': 'sref', 'sname': 'KID', 'xy': (10, 20)}, **trans_fields((True, Fraction(5, 2), 30)))),
        ('aref', dict({'kind': 'aref', 'sname': 'KID', 'cols': 2, 'rows': 3, 'xy': aref_points((0, 0), 2, 3, 100, 70, False, 90)}, **trans_fields((False, None, 90)))),
        ('text', text_el((1, 1, 1), (None, None), None, b'abc')),
    ]


HDR_FORMAT = [None, 0, 1]


def header_fields(mask, fmt):
    return {'reflibs': (b'REFLIB1'.ljust(44, b'\0') + b'REFLIB2'.ljust(44, b'\0')) if mask & 1 else None,
            'fonts': b''.join(('FONT%d' % i).encode().ljust(44, b'\0') for i in range(4)) if mask & 2 else None,
            'attrtable': (b'ATTRS' if fmt != 1 else b'ATTR') if mask & 4 else None,
            'generations': 3 if mask & 8 else None,
            'format': HDR_FORMAT[fmt], 'masks': [b'1 5-7 10 ; 0-63'] if HDR_FORMAT[fmt] == 1 else []}


def fam_header(v):
    mask, fmt, rep = v
    name, el = rep_elements()[rep]
    cells = [kid_cell('KID'), {'name': 'TOP', 'elements': [el]}]
    return cells, {'kind': name, 'header_mask': mask, 'format': _nm(HDR_FORMAT[fmt])}, header_fields(mask, fmt)


ORDERS = list(itertools.permutations(range(4)))


def fam_order(v):
    """four structures TOP -> MID -> LEAF plus an empty one, in every file order"""
    order, variant = ORDERS[v[0]], v[1]
    t = (True, None, 90) if variant else None
    cells = [
        {'name': 'TOP', 'elements': [dict({'kind': 'sref', 'sname': 'MID', 'xy': (100, 200)}, **trans_fields(t)),
                                     dict({'kind': 'aref', 'sname': 'LEAF', 'cols': 2, 'rows': 2, 'xy': aref_points((0, 0), 2, 2, 50, 60, bool(variant), 90 if variant else 0)}, **trans_fields(t))]},
        {'name': 'MID', 'elements': [{'kind': 'sref', 'sname': 'LEAF', 'xy': (-5, 6)}, {'kind': 'sref', 'sname': 'EMPTY', 'xy': (0, 0)}]},
        kid_cell('LEAF'),
        {'name': 'EMPTY', 'elements': []},
    ]
    return [cells[i] for i in order], {'kind': 'order', 'order': ''.join(cells[i]['name'][0] for i in order), 'variant': variant}


# reduced alphabet for ordered pairs (state leaking between elements)
def pair_alphabet(thorough):
    A = [
        ('path_bare', path_el(None, None, None, None, (2,))),
        ('path_w100_pt2', path_el(2, 100, None, None, (3,))),
        ('path_wneg_pt4_ext', path_el(4, -60, 150, -30, (2,))),
        ('path_pt1', path_el(1, None, None, None, (2,))),
        ('path_prop', dict(path_el(None, None, None, None, (3,)), props=[(1, b'a')])),
        ('bnd_plain', {'kind': 'boundary', 'layer': 1, 'datatype': 2, 'xy': BND_PTS[0][:4]}),
        ('bnd_flags_props2', {'kind': 'boundary', 'layer': 3, 'datatype': 4, 'xy': BND_PTS[0][:3], 'elflags': 1, 'plex': 9, 'props': [(1, b'abc'), (127, b'abcd')]}),
        ('bnd_split', {'kind': 'boundary', 'layer': 5, 'datatype': 0, 'xy': BND_PTS[0][:5], 'syn': {'xy_split': (2, 3, 1)}}),
        ('box_plain', {'kind': 'box', 'layer': 6, 'boxtype': 1, 'xy': BOX_PTS[0]}),
        ('sref_plain', {'kind': 'sref', 'sname': 'KID', 'xy': (10, 20)}),
        ('sref_full', dict({'kind': 'sref', 'sname': 'KID', 'xy': (-10, 30), 'props': [(2, b'ab')]}, **trans_fields((True, Fraction(5, 2), 30)))),
        ('aref_plain', {'kind': 'aref', 'sname': 'KID', 'cols': 2, 'rows': 3, 'xy': aref_points((0, 0), 2, 3, 100, 70, False, 0)}),
        ('aref_full', dict({'kind': 'aref', 'sname': 'KID', 'cols': 3, 'rows': 1, 'xy': aref_points((40, 50), 3, 1, 100, 70, True, 90)}, **trans_fields((True, Fraction(5, 2), 90)))),
        ('text_plain', text_el(None, (None, None), None, b'ab')),
        ('text_full', dict(text_el((2, 1, 2), (2, 40), (True, Fraction(5, 2), 270), b'abc'), props=[(4, b'tp')])),
        ('text_wneg', text_el(None, (None, -25), None, b'a')),
        ('bnd_prop_even', {'kind': 'boundary', 'layer': 1, 'datatype': 1, 'xy': BND_PTS[0][:3], 'props': [(2, b'ab')]}),
    ]
    if thorough:
        A += [
            ('path_pt0', path_el(0, None, None, None, (2,))),
            ('path_pt2', path_el(2, None, None, None, (2,))),
            ('path_pt4_noext', path_el(4, None, None, None, (2,))),
            ('path_w0', path_el(None, 0, None, None, (2,))),
            ('path_bgn_only', path_el(4, None, 150, None, (2,))),
            ('path_end_only', path_el(4, None, None, 80, (2,))),
            ('path_w100', path_el(None, 100, None, None, (2,))),
            ('path_wneg', path_el(None, -60, None, None, (2,))),
            ('text_pt_only', text_el(None, (1, None), None, b'abc')),
            ('text_w_only', text_el(None, (None, 40), None, b'abc')),
            ('text_pres_only', text_el((3, 2, 1), (None, None), None, b'ab')),
            ('text_trans_only', text_el(None, (None, None), (True, None, 180), b'ab')),
            ('sref_mag', dict({'kind': 'sref', 'sname': 'KID', 'xy': (1, 2)}, **trans_fields((False, Fraction(5, 2), None)))),
            ('sref_angle', dict({'kind': 'sref', 'sname': 'KID', 'xy': (1, 2)}, **trans_fields((False, None, 270)))),
            ('sref_reflect', dict({'kind': 'sref', 'sname': 'KID', 'xy': (1, 2)}, **trans_fields((True, None, None)))),
            ('sref_missing', {'kind': 'sref', 'sname': 'NOPE', 'xy': (3, 4)}),
            ('aref_180', dict({'kind': 'aref', 'sname': 'KID', 'cols': 2, 'rows': 3, 'xy': aref_points((0, 0), 2, 3, 100, 70, False, 180)}, **trans_fields((False, None, 180)))),
            ('aref_1x1', {'kind': 'aref', 'sname': 'KID', 'cols': 1, 'rows': 1, 'xy': aref_points((7, 7), 1, 1, 100, 70, False, 0)}),
            ('box_props', {'kind': 'box', 'layer': 2, 'boxtype': 2, 'xy': BOX_PTS[0], 'props': [(126, b'wxyz'), (5, b'q')]}),
            ('bnd_extreme', {'kind': 'boundary', 'layer': 32767, 'datatype': 32767, 'xy': BND_PTS[1][:4]}),
            ('text_pt2_w40', text_el(None, (2, 40), None, b'abc')),
            ('text_w0', text_el(None, (None, 0), None, b'ab')),
            ('text_font_only', text_el((2, 0, 0), (None, None), None, b'a')),
            ('path_w100_pt1', path_el(1, 100, None, None, (2,))),
            ('path_w1', path_el(None, 1, None, None, (2,))),
            ('path_wneg1', path_el(None, -1, None, None, (3,))),
            ('path_4pts_split', path_el(None, None, None, None, (1, 3))),
            ('box_flags', {'kind': 'box', 'layer': 3, 'boxtype': 0, 'xy': BOX_PTS[0], 'elflags': 2, 'plex': 5}),
            ('sref_full_noprops', dict({'kind': 'sref', 'sname': 'KID', 'xy': (0, 0)}, **trans_fields((True, Fraction(1, 2), 45)))),
            ('sref_props2', {'kind': 'sref', 'sname': 'KID', 'xy': (8, 9), 'props': [(1, b'abc'), (2, b'abcd')]}),
            ('aref_reflect', dict({'kind': 'aref', 'sname': 'KID', 'cols': 2, 'rows': 2, 'xy': aref_points((0, 0), 2, 2, 100, 70, True, 0)}, **trans_fields((True, None, None)))),
            ('aref_prop', {'kind': 'aref', 'sname': 'KID', 'cols': 4, 'rows': 4, 'xy': aref_points((1, 1), 4, 4, 100, 70, False, 0), 'props': [(7, b'ap')]}),
            ('bnd_7pts_split', {'kind': 'boundary', 'layer': 8, 'datatype': 8, 'xy': BND_PTS[0][:7], 'syn': {'xy_split': (1, 6, 1)}}),
        ]
    return A


PAIR_Q = pair_alphabet(False)
PAIR_T = pair_alphabet(True)


def fam_pairs(v, alphabet):
    i, j, placement = v
    (n1, e1), (n2, e2) = alphabet[i], alphabet[j]
    if placement == 0:
        cells = [kid_cell('KID'), {'name': 'TOP', 'elements': [e1, e2]}]
    else:
        cells = [{'name': 'TOP', 'elements': [e1]}, kid_cell('KID'), {'name': 'TOP2', 'elements': [e2]}]
    return cells, {'kind': 'pair', 'first': n1, 'second': n2, 'placement': ('same_cell', 'separate_cells')[placement]}


def fam_triples(v, alphabet):
    i, j, k = v
    (n1, e1), (n2, e2), (n3, e3) = alphabet[i], alphabet[j], alphabet[k]
    cells = [kid_cell('KID'), {'name': 'TOP', 'elements': [e1, e2, e3]}]
    return cells, {'kind': 'triple', 'first': n1, 'second': n2, 'third': n3}


# streams that repeat an attribute number inside one element.  The specification requires the attribute
# numbers of one element to be distinct, so these are OUTSIDE the legal alphabet: they are enumerated and
# judged only for memory safety and coherence (see c03_compare.cmp_props).
DUP_VALUES = [b'a', b'ab', b'abcdefg', b'xy']
DUP_ARR = ['AA', 'ABA', 'AAB']


def fam_dupattr(v):
    kind, a, b, arr = v
    base = [{'kind': 'boundary', 'layer': 1, 'datatype': 2, 'xy': BND_PTS[0][:3]}, path_el(None, 100, None, None, (2,)),
            {'kind': 'sref', 'sname': 'KID', 'xy': (10, 20)}, text_el(None, (None, None), None, b'ab')][kind]
    first, second, other = (5, DUP_VALUES[a]), (5, DUP_VALUES[b]), (6, b'other')
    props = {'AA': [first, second], 'ABA': [first, other, second], 'AAB': [first, second, other]}[DUP_ARR[arr]]
    el = dict(base, props=props)
    return [kid_cell('KID'), {'name': 'TOP', 'elements': [el]}], {'kind': el['kind'], 'dup_first_len': len(DUP_VALUES[a]), 'dup_second_len': len(DUP_VALUES[b]),
                                                                 'arrangement': DUP_ARR[arr], 'duplicate_propattr': 1}


# boundary values of the 8-byte real format: exact powers of 16, normalised and (same value) unnormalised
R8_MAG = [None, 16, 256, 4096, Fraction(1, 16), Fraction(1, 256), 1, Fraction(1, 2)]
R8_ANG = [None, 1, 16, 256, Fraction(1, 16), -16]
R8_SHIFT = [0, 1, 2]
U16 = [(Fraction(1), Fraction(1)), (Fraction(1, 16), Fraction(1, 16)), (Fraction(1, 16), Fraction(1, 256)), (Fraction(1, 256), Fraction(1, 4096)),
       (Fraction(16), Fraction(1)), (Fraction(1, 4096), Fraction(1, 65536))]


def fam_real8(v):
    kind, m, a, sh = v[0], R8_MAG[v[1]], R8_ANG[v[2]], R8_SHIFT[v[3]]
    t = None if (m is None and a is None) else (bool(v[1] & 1), m, a)
    if kind == 0:
        el = dict({'kind': 'sref', 'sname': 'KID', 'xy': (10, 20)}, **trans_fields(t))
    else:
        el = text_el(None, (None, None), t, b'ab')
    el['syn'].update(mag_shift=sh, angle_shift=sh)
    return [kid_cell('KID'), {'name': 'TOP', 'elements': [el]}], {'kind': el['kind'], 'mag': _nm(m), 'angle': _nm(a), 'real8_leading_zero_digits': sh}


def fam_units16(v):
    (u, m), s1, s2, rep = U16[v[0]], R8_SHIFT[v[1]], R8_SHIFT[v[2]], v[3]
    name, el = rep_elements()[rep]
    cells = [kid_cell('KID'), {'name': 'TOP', 'elements': [el]}]
    return cells, {'kind': name, 'units16': '%s/%s' % (u, m), 'units_leading_zero_digits': '%d,%d' % (s1, s2)}, {'units': (u, m), 'units_shift': (s1, s2)}


# long records: one record of >= 32768 bytes (length word has its top bit set) up to the 65534-byte maximum
LONG_XY = [(4095,), (4096,), (4097,), (8190,), (8191,), (8191, 5), (8190, 10)]     # XY pairs per record
LONG_STR = [32763, 32764, 32766, 40000, 65529, 65530]
LONG_WHICH = ['libname', 'strname+sname', 'string']


def long_points(n):
    return [(i * 7 - 20000, (i * i * 3) % 9973 - 5000) for i in range(n)]


def fam_long_records(v):
    """index 0..13: BOUNDARY / PATH with long XY records; 14..31: long strings"""
    k = v[0]
    hdr = {}
    if k < 2 * len(LONG_XY):
        kind, split = ('boundary', 'path')[k % 2], LONG_XY[k // 2]
        n = sum(split)
        if kind == 'boundary':
            el = {'kind': 'boundary', 'layer': 1, 'datatype': 2, 'xy': long_points(n - 1), 'syn': {'xy_split': split}}   # n pairs incl. the closing one
        else:
            el = {'kind': 'path', 'layer': 3, 'datatype': 4, 'width': 10, 'xy': long_points(n), 'syn': {'xy_split': split}}
        cells = [{'name': 'TOP', 'elements': [el]}]
        tags = {'kind': kind, 'xy_records': '+'.join(map(str, split)), 'largest_record_bytes': 4 + 8 * max(split)}
    else:
        k -= 2 * len(LONG_XY)
        which, n = LONG_WHICH[k // len(LONG_STR)], LONG_STR[k % len(LONG_STR)]
        body = (('N%d_' % n) * (n // 4 + 2))[:n]
        cells = [kid_cell('KID'), {'name': 'TOP', 'elements': [{'kind': 'sref', 'sname': 'KID', 'xy': (10, 20)}, text_el(None, (None, None), None, b'ab')]}]
        if which == 'libname':
            hdr['libname'] = body
        elif which == 'strname+sname':
            cells[0]['name'] = body
            cells[1]['elements'][0]['sname'] = body
        else:
            cells[1]['elements'][1] = text_el(None, (None, None), None, body.encode('ascii'))
        tags = {'kind': 'long_string', 'record': which, 'string_length': n, 'largest_record_bytes': 4 + n + (n & 1)}
    return cells, tags, hdr


N_LONG = 2 * len(LONG_XY) + len(LONG_WHICH) * len(LONG_STR)

FAMILIES = {
    'header': ([16, 3, 6], fam_header),
    'order': ([24, 2], fam_order),
    'path_xy1': ([3, 2, 2], fam_path_xy1),
    'sref': ([len(TRANS_X), 3, 2, 2], fam_sref),
    'aref': ([len(TRANS_X), len(COLROW), 2, 3, 2], fam_aref),
    'box': ([16, 2, 3, 2, 2, 5], fam_box),
    'path': ([5, 4, 4, 4, len(PTSPLIT), 2], fam_path),
    'pairs_q': ([len(PAIR_Q), len(PAIR_Q), 2], lambda v: fam_pairs(v, PAIR_Q)),
    'pairs_t': ([len(PAIR_T), len(PAIR_T), 2], lambda v: fam_pairs(v, PAIR_T)),
    'triples_q': ([len(PAIR_Q)] * 3, lambda v: fam_triples(v, PAIR_Q)),
    'triples_t': ([len(PAIR_T)] * 3, lambda v: fam_triples(v, PAIR_T)),
    'dupattr': ([4, 4, 4, 3], fam_dupattr),
    'long_records': ([N_LONG], fam_long_records),
    'real8': ([2, len(R8_MAG), len(R8_ANG), 3], fam_real8),
    'units16': ([len(U16), 3, 3, 6], fam_units16),
    'boundary': ([len(BND_SPLITS), 2, 3, 2, 2, 5], fam_boundary),
    'text': ([37, 6, 37, 3, 2], fam_text),
}


def family_size(name):
    n = 1
    for d in FAMILIES[name][0]:
        n *= d
    return n


def make_d1(family, index, ctx):
    dims, builder = FAMILIES[family]
    v = radix_decode(index, dims)
    r = builder(v)
    cells, tags = r[0], r[1]
    hdr = r[2] if len(r) > 2 else {}
    ui, ri = ctx % NU, ctx // NU
    layout = dict({'libname': 'LIB' if (index + ctx) % 2 else 'LIBR', 'units': G.encoded_units(*UNITS[ui]), 'cells': cells}, **hdr)
    tol = TOLS[(index + ctx) % 2]
    tags = dict(tags, units=ui, req=REQ[ri], family=family)
    return {'layout': layout, 'data': G.encode(layout), 'req': REQ[ri], 'tol': tol, 'tags': tags}


def d1_nontrivial(layout, family):
    if family.startswith('pairs') or family.startswith('triples'):
        return True
    if any(layout.get(k) is not None for k in ('reflibs', 'fonts', 'attrtable', 'generations', 'format')) or family in ('real8', 'units16', 'long_records'):
        return True
    for c in layout['cells']:
        if c['name'].startswith('KID') or c['name'] == 'LEAF':
            continue
        for el in c['elements']:
            e = G.normalise_element(el)
            syn = e.get('syn', {})
            if any(syn.get(k) for k in ('pathtype', 'width', 'bgnextn', 'endextn', 'presentation', 'strans', 'mag', 'angle')):
                return True
            if len(syn.get('xy_split', (1,))) > 1 or e['elflags'] is not None or e['plex'] is not None or e['props']:
                return True
            if e.get('reflect') or e.get('mag', 1) != 1 or e.get('angle', 0) != 0:
                return True
    return False


# ------------------------------------------------------------------------------------------------
# tier plans: list of (family, index list, ctx rule) ; ctx rule 'cycle' = index % 9, 'all' = 0..8, or a tuple of ctxs
def text_quick_indices():
    """all 37x37 presentation x transformation combinations, the other three dimensions cycled"""
    out = []
    for p in range(37):
        for t in range(37):
            k = p * 37 + t
            out.append((((p * 6 + k % 6) * 37 + t) * 3 + k % 3) * 2 + k % 2)
    return out


def d1_plan(tier):
    plan = []
    full = lambda f: range(family_size(f))
    nq, nt = len(PAIR_Q), len(PAIR_T)
    if tier == 'quick':
        cyc = 'every variant, context (%d UNITS x %d requested units) cycled with the index' % (NU, NR)
        plan.append(('long_records', full('long_records'), 'cycle', 'one record of 32768..65534 bytes: BOUNDARY/PATH with XY records of 4095, 4096, 4097, 8190, 8191 pairs and splits 8191+5, 8190+10; LIBNAME / STRNAME+SNAME / STRING of 32763, 32764, 32766, 40000, 65529, 65530 bytes; context cycled'))
        for f in ('header', 'order', 'path_xy1', 'dupattr', 'sref', 'aref', 'box', 'path'):
            plan.append((f, full(f), 'cycle', cyc))
        plan.append(('real8', full('real8'), 'cycle', 'SREF/TEXT with MAG and ANGLE at exact powers of 16, each normalised and with 1 or 2 leading zero mantissa digits, context cycled'))
        plan.append(('units16', full('units16'), (0, 5, 10, 15), 'UNITS whose two reals are powers of 16 (6 pairs) x normalised/unnormalised encodings (3x3) x 6 element kinds x 4 requested units'))
        plan.append(('pairs_q', full('pairs_q'), 'cycle', 'every ordered pair of the %d-element reduced alphabet x {same cell, separate cells}, context cycled' % nq))
        plan.append(('triples_q', full('triples_q'), 'cycle', 'every ordered triple of the %d-element reduced alphabet in one cell, context cycled' % nq))
        plan.append(('boundary', range(BND_QUICK * 120), 'cycle', 'every variant with 3-5 vertices (XY split at every subset of positions), context cycled'))
        plan.append(('text', text_quick_indices(), 'cycle', 'all 37x37 presentation x transformation combinations, pathtype/width, string parity, ELFLAGS/PLEX/property and context cycled'))
    else:
        allc = 'every variant x all %d contexts (%d UNITS x %d requested units)' % (NCTX, NU, NR)
        plan.append(('long_records', full('long_records'), 'all', 'one record of 32768..65534 bytes: BOUNDARY/PATH with XY records of 4095, 4096, 4097, 8190, 8191 pairs and splits 8191+5, 8190+10; LIBNAME / STRNAME+SNAME / STRING of 32763, 32764, 32766, 40000, 65529, 65530 bytes; x all %d contexts' % NCTX))
        for f in ('header', 'order', 'path_xy1', 'dupattr', 'sref', 'aref', 'box', 'path'):
            plan.append((f, full(f), 'all', allc))
        plan.append(('real8', full('real8'), 'all', 'SREF/TEXT with MAG and ANGLE at exact powers of 16, each normalised and with 1 or 2 leading zero mantissa digits, x all %d contexts' % NCTX))
        plan.append(('units16', full('units16'), (0, 5, 10, 15), 'UNITS whose two reals are powers of 16 (6 pairs) x normalised/unnormalised encodings (3x3) x 6 element kinds x 4 requested units'))
        plan.append(('pairs_t', full('pairs_t'), 'all', 'every ordered pair of the %d-element reduced alphabet x {same cell, separate cells} x all %d contexts' % (nt, NCTX)))
        plan.append(('triples_q', full('triples_q'), 'all', 'every ordered triple of the %d-element reduced alphabet in one cell x all %d contexts' % (nq, NCTX)))
        plan.append(('triples_t', full('triples_t'), TRIPLE_CTX, 'every ordered triple of the %d-element reduced alphabet in one cell x %d contexts' % (nt, len(TRIPLE_CTX))))
        plan.append(('boundary', full('boundary'), 'all', 'every variant with 3-7 vertices (XY split at every subset of positions) x all %d contexts' % NCTX))
        plan.append(('text', full('text'), 'all', 'full product presentation x pathtype/width x transformation x string parity x ELFLAGS/PLEX/property x all %d contexts' % NCTX))
    return plan


TRIPLE_CTX = (0, 3, 7, 11, 14, 18)


def ctxs_for(rule, index):
    if rule == 'cycle':
        return (index % NCTX,)
    if rule == 'all':
        return tuple(range(NCTX))
    return rule
