#!/usr/bin/env python3
"""c04_check.py -- orchestrator of property C04 (OASIS reader/writer vs the format specification).

Run by ./check as:  python3 codec/c04_check.py --exe <oas_driver> --tier quick|thorough --out FILE [--replay-args S]
Speaks the JSONL protocol of engine/vf.hpp (counters / violation / sample / outcome / bound / note / done).

Direction 1 (d1.*): abstract layouts x serialisation choices -> bytes by the independent encoder (oas_codec.py) ->
gdstk read_oas (driver) -> canonical dump compared with the abstract layout.
Direction 2 (d2.*): library specs x write_oas option sets -> gdstk writes (driver) -> strict independent decoder ->
compared with the dump of the source library; END/table offsets/signature/standard properties checked against
facts recomputed from the bytes.

Technique: bounded exhaustive enumeration (every member of each stated finite space is executed); no random module.
Cases are grouped (sub-check, group index); replay_args 'sub=<s> g=<group> i=<index>' regenerate exactly one case.
"""
import argparse
import hashlib
import itertools
import json
import math
import multiprocessing
import os
import shutil
import subprocess
import sys
import time
from fractions import Fraction

sys.path.insert(0, os.path.dirname(os.path.abspath(__file__)))
import oas_codec as oc  # noqa: E402

VERIF = os.environ.get("VERIF_DIR", os.path.dirname(os.path.dirname(os.path.abspath(__file__))))
ASAN_DEFAULT = "detect_leaks=0:abort_on_error=0:exitcode=86:allocator_may_return_null=1:max_allocation_size_mb=4096"
T0 = time.time()
CAP = int(os.environ.get("C04_VIOLATION_CAP", "3"))  # violations emitted per class and unit (all are counted)


# ============================================================================ driver batches
MAX_CRASHES_PER_BATCH = 4


def run_driver(exe, jobs, scratch, per_job_timeout=20.0):
    """Run the job lines through the driver.  -> list of results (dict) or {'crash': text} per job.  A process
    that dies is attributed to the first job without a result; that job is re-run alone to capture the report and
    the remaining jobs continue in a fresh process."""
    env = dict(os.environ)
    env.setdefault("ASAN_OPTIONS", ASAN_DEFAULT)
    results = [None] * len(jobs)
    start = 0
    serial = 0
    crashes = 0
    while start < len(jobs):
        if crashes >= MAX_CRASHES_PER_BATCH:
            # every crash costs a sanitizer report and two process starts: stop attributing, report the rest as not executed
            for k in range(start, len(jobs)):
                results[k] = {"not_executed": True}
            break
        jf = os.path.join(scratch, "jobs.%d.%d" % (os.getpid(), serial))
        serial += 1
        with open(jf, "w") as f:
            f.write("\n".join(jobs[start:]) + "\n")
        try:
            r = subprocess.run([exe, "--jobs", jf, "--scratch", scratch], stdout=subprocess.PIPE, stderr=subprocess.PIPE,
                               env=env, timeout=30 + per_job_timeout * 0.05 * (len(jobs) - start))
            out, err, rc = r.stdout, r.stderr, r.returncode
        except subprocess.TimeoutExpired as e:
            out, err, rc = e.stdout or b"", (e.stderr or b"") + b"\n[timeout]", -9
        os.unlink(jf)
        n = 0
        for line in out.split(b"\n"):
            if not line.strip():
                continue
            try:
                res = json.loads(line)
            except ValueError:
                break
            results[start + res["job"]] = res
            n += 1
        if n == len(jobs) - start and rc == 0:
            break
        if n == len(jobs) - start:
            # all jobs answered but abnormal exit (sanitizer report at exit): attribute to the batch's last job
            results[start + n - 1] = {"crash": "driver exit code %d after the last job: %s" % (rc, err.decode("latin-1")[-1500:])}
            break
        culprit = start + n
        # re-run the culprit alone (confirms the attribution and captures the report)
        jf = os.path.join(scratch, "jobs.%d.solo" % os.getpid())
        with open(jf, "w") as f:
            f.write(jobs[culprit] + "\n")
        try:
            r = subprocess.run([exe, "--jobs", jf, "--scratch", scratch], stdout=subprocess.PIPE, stderr=subprocess.PIPE, env=env,
                               timeout=per_job_timeout)
            solo_out, solo_err, solo_rc = r.stdout, r.stderr, r.returncode
        except subprocess.TimeoutExpired as e:
            solo_out, solo_err, solo_rc = b"", b"[hang: no result within %d s]" % per_job_timeout, -9
        os.unlink(jf)
        if solo_rc == 0 and solo_out.strip():
            res = json.loads(solo_out.split(b"\n")[0])
            res["job"] = 0
            res["flaky_crash"] = err.decode("latin-1")[-800:]
            results[culprit] = res
        else:
            text = solo_err.decode("latin-1")
            p = text.find("ERROR: AddressSanitizer")
            results[culprit] = {"crash": (text[p:] if p >= 0 else text)[:1800] or "exit code %d" % solo_rc, "rc": solo_rc}
        start = culprit + 1
        crashes += 1
    return results


def crash_class(text):
    p = text.find("AddressSanitizer: ")
    if p >= 0:
        return "asan:" + text[p + 18:].split()[0]
    if "hang" in text:
        return "hang"
    return "abnormal_exit"


# ============================================================================ helpers for comparing with dumps
def to_int(v, scale):
    g = v * scale
    r = round(g)
    if abs(g - r) > 1e-6 + 1e-9 * abs(r):
        return None
    return int(r)


def pts_int(pts, scale):
    out = []
    for x, y in pts:
        a, b = to_int(x, scale), to_int(y, scale)
        if a is None or b is None:
            return None
        out.append((a, b))
    return out


def cycle_equal(a, b):
    """Vertex cycles equal up to rotation and orientation."""
    if len(a) != len(b):
        return False
    if not a:
        return True
    n = len(a)
    for seq in (b, b[::-1]):
        for s in range(n):
            if seq[s] == a[0] and all(seq[(s + i) % n] == a[i] for i in range(n)):
                return True
    return False


def dump_text(s):
    return s.encode("latin-1", "replace")


def props_expected(pl):
    out = []
    for p in pl:
        vals = []
        for v in p["values"]:
            if v[0] == "real":
                f = oc.real_fraction(v[1])
                vals.append(("r", float(f)))
            elif v[0] == "uint":
                vals.append(("u", str(v[1])))
            elif v[0] == "sint":
                vals.append(("i", str(v[1])))
            else:
                vals.append(("s", bytes(v[1]).hex()))
        out.append((bytes(p["name"]), vals))
    return out


def props_got(pl):
    out = []
    for p in pl:
        vals = []
        for v in p["values"]:
            if v["t"] == "s":
                vals.append(("s", v["hex"]))
            elif v["t"] == "r":
                vals.append(("r", float(v["v"]) if not isinstance(v["v"], str) else v["v"]))
            else:
                vals.append((v["t"], v["v"]))
        out.append((dump_text(p["name"]), vals))
    return out


def rep_got(rep, scale):
    return pts_int([tuple(o) for o in rep["expanded"]], scale)


def short(o, n=400):
    s = json.dumps(o, default=lambda x: x.hex() if isinstance(x, (bytes, bytearray)) else str(x))
    return s if len(s) <= n else s[:n] + "..."


# ---------------------------------------------------------------------------- direction 1 comparison
def compare_read(layout, res, scale):
    """layout: abstract layout that was encoded; res: driver result of read_oas; scale: grid steps per library unit
    (float).  -> list of (class, tags, detail)."""
    out = []
    lib = res["lib"]
    cellnames = [c["name"] for c in layout["cells"]]
    missing = sorted({e["cell"] for c in layout["cells"] for e in c["elements"] if e["kind"] == "placement" and e["cell"] not in cellnames})
    want_err = 4 if missing else 0
    if res["err"] != want_err:
        out.append(("error_code", {"field": "error_code", "got": res["err"], "want": want_err}, "read_oas error code %d, expected %d" % (res["err"], want_err)))
    got_names = [dump_text(c["name"]) for c in lib["cells"]]
    if got_names != cellnames:
        out.append(("cells", {"field": "cell_names"}, "cells %r expected %r" % (got_names, cellnames)))
        return out
    fp = props_got(lib["properties"])
    if fp != props_expected(layout.get("props", [])):
        out.append(("props.file", {"record": "file", "field": "properties"}, "file properties %s expected %s" % (short(fp), short(props_expected(layout.get("props", []))))))
    for c, gc in zip(layout["cells"], lib["cells"]):
        cp = props_expected(c.get("name_props", [])) + props_expected(c.get("props", []))
        if props_got(gc["properties"]) != cp:
            out.append(("props.cell", {"record": "cell", "field": "properties", "cellname_record_props": int(bool(c.get("name_props")))}, "cell properties %s expected %s" % (short(props_got(gc["properties"])), short(cp))))
        den = [(e, oc.denote(e)) for e in c["elements"]]
        groups = {"polygons": [d for d in den if d[1]["kind"] in ("polygon", "circle")], "flexpaths": [d for d in den if d[1]["kind"] == "path"],
                  "labels": [d for d in den if d[1]["kind"] == "text"], "references": [d for d in den if d[1]["kind"] == "placement"]}
        if gc["robustpaths"]:
            out.append(("count", {"field": "robustpaths"}, "robust paths appeared"))
        for gname, want in groups.items():
            got = gc[gname]
            if len(got) != len(want):
                out.append(("count", {"field": gname, "got": len(got), "want": len(want)}, "%d %s, expected %d" % (len(got), gname, len(want))))
                continue
            for (el, d), g in zip(want, got):
                pos = [k for k, x in enumerate(c["elements"]) if x is el][0]
                tags = {"record": el["kind"], "position": pos}
                for k in ("rec", "ctype", "ptype", "vertical", "square"):
                    if k in el:
                        tags[k] = el[k] if not isinstance(el[k], bool) else int(el[k])
                if el["kind"] == "path":
                    tags["ext_repr"] = "%d%d" % tuple(el.get("ext_repr", (3, 3)))
                if el.get("rep"):
                    tags["rep_type"] = el["rep"][0]

                def bad(field, detail, **extra):
                    t = dict(tags)
                    t["field"] = field
                    t.update(extra)
                    out.append(("%s.%s" % (d["kind"], field), t, detail))

                # repetition
                go = rep_got(g["repetition"], scale)
                if go is None or sorted(go) != list(d["offsets"]):
                    bad("repetition", "repetition offsets %s expected %s (gdstk repetition %s)" % (short(go), short(d["offsets"]), short(g["repetition"], 300)))
                # properties
                gp = props_got(g["properties"])
                if gp != props_expected(d["props"]):
                    bad("properties", "properties %s expected %s" % (short(gp), short(props_expected(d["props"]))))
                if d["kind"] in ("polygon", "circle", "text"):
                    if g["tag"] != [d["layer"], d["datatype"]]:
                        bad("tag", "tag %s expected %s" % (g["tag"], [d["layer"], d["datatype"]]))
                if d["kind"] == "polygon":
                    gpts = pts_int(g["points"], scale)
                    if gpts is None or not cycle_equal(d["points"], gpts):
                        bad("points", "vertices %s expected %s" % (short(gpts if gpts is not None else g["points"]), short(d["points"])))
                elif d["kind"] == "circle":
                    msg = circle_check(g["points"], d["centre"], d["r"], scale)
                    if msg:
                        bad("points", msg)
                elif d["kind"] == "path":
                    sp = pts_int(g["spine"], scale)
                    if sp != d["points"]:
                        bad("points", "spine %s expected %s" % (short(sp if sp is not None else g["spine"]), short(d["points"])))
                    if len(g["elements"]) != 1 or not g["simple_path"]:
                        bad("structure", "not a simple one-element path")
                        continue
                    ge = g["elements"][0]
                    if ge["tag"] != [d["layer"], d["datatype"]]:
                        bad("tag", "tag %s expected %s" % (ge["tag"], [d["layer"], d["datatype"]]))
                    hws = pts_int(ge["half_width_and_offset"], scale)
                    if hws is None or any(h != (d["hw"], 0) for h in hws) or not hws:
                        bad("halfwidth", "half widths/offsets %s expected all (%d, 0)" % (short(ge["half_width_and_offset"]), d["hw"]))
                    if ge["end"] == "flush":
                        ext = (0, 0)
                    elif ge["end"] == "half-width":
                        ext = (d["hw"], d["hw"]) if hws and hws[0] == (d["hw"], 0) else None
                    elif ge["end"] == "extended":
                        e2 = pts_int([tuple(ge["end_extensions"])], scale)
                        ext = e2[0] if e2 else None
                    else:
                        ext = None
                    if ext != tuple(d["ext"]):
                        bad("extension", "end %s %s = %s expected %s" % (ge["end"], ge["end_extensions"], ext, d["ext"]))
                elif d["kind"] == "text":
                    if dump_text(g["text"]) != d["text"]:
                        bad("text", "text %r expected %r" % (g["text"], d["text"]))
                    o = pts_int([tuple(g["origin"])], scale)
                    if o != [d["xy"]]:
                        bad("origin", "origin %s expected %s" % (g["origin"], d["xy"]))
                elif d["kind"] == "placement":
                    if dump_text(g["target"]) != d["cell"]:
                        bad("cell", "target %r expected %r" % (g["target"], d["cell"]))
                    wk = "cell" if d["cell"] in cellnames else "name"
                    if g["kind"] != wk:
                        bad("cell", "reference kind %s expected %s" % (g["kind"], wk))
                    o = pts_int([tuple(g["origin"])], scale)
                    if o != [d["xy"]]:
                        bad("origin", "origin %s expected %s" % (g["origin"], d["xy"]))
                    if bool(g["x_reflection"]) != d["flip"]:
                        bad("flip", "x_reflection %s expected %s" % (g["x_reflection"], d["flip"]))
                    wm = float(d["mag"])
                    if not (isinstance(g["magnification"], (int, float)) and math.isclose(g["magnification"], wm, rel_tol=1e-15, abs_tol=0)):
                        bad("magnification", "magnification %r expected %r" % (g["magnification"], wm))
                    wr = float(d["angle"]) * math.pi / 180.0
                    if not (isinstance(g["rotation"], (int, float)) and math.isclose(g["rotation"], wr, rel_tol=1e-14, abs_tol=1e-15)):
                        bad("rotation", "rotation %r expected %r (%s degrees)" % (g["rotation"], wr, d["angle"]))
    return out


def circle_check(points, centre, r, scale, tol_grid=1.0):
    """gdstk turns CIRCLE into a polygon: it must approximate the circle within the reader tolerance (1 grid step)."""
    n = len(points)
    if r == 0:
        return None
    if n < 3:
        return "circle became a polygon with %d vertices" % n
    ang = []
    for x, y in points:
        dx, dy = x * scale - centre[0], y * scale - centre[1]
        dist = math.hypot(dx, dy)
        if abs(dist - r) > 1e-6 * max(1, r):
            return "vertex (%r,%r) at distance %r from the centre, radius %d" % (x * scale, y * scale, dist, r)
        ang.append(math.atan2(dy, dx))
    ang.sort()
    gaps = [ang[i + 1] - ang[i] for i in range(n - 1)] + [ang[0] + 2 * math.pi - ang[-1]]
    g = max(gaps)
    sag = r * (1 - math.cos(g / 2))
    if sag > tol_grid * 1.001 + 1e-9:
        return "largest gap %.4f rad between vertices: sagitta %.4f grid steps exceeds the tolerance %g (n=%d, r=%d)" % (g, sag, tol_grid, n, r)
    return None


# ============================================================================ direction 1: alphabets
REPS = [None, (4, [1 + i % 3 for i in range(129)]), (10, [(1, -2 if i % 2 else 3) for i in range(130)]), (1, 2, 2, 5, 7), (1, 3, 2, 0, 400), (2, 2, 4), (2, 5, 130), (3, 2, 9), (3, 3, 20000), (4, [3]), (4, [3, 5, 0]), (5, 2, [1, 4]),
        (5, 130, [2]), (6, [2, 2, 2]), (6, [70000]), (7, 3, [1]), (7, 1, [0, 5]), (8, 2, 2, (3, 1), (-2, 5)), (8, 3, 2, (4, 4), (0, -6)),
        (9, 4, (-3, -3)), (9, 2, (7, -2)), (9, 3, (0, 5)), (10, [(1, 2), (-5, 0)]), (10, [(0, -3)]), (11, 4, [(0, 1), (2, -3)]), (11, 1, [(5, 5), (-9, 200)])]
POLY = {0: [[(0, 0), (4, 0), (4, 3), (0, 3)], [(0, 0), (-4, 0), (-4, -300), (2, -300), (2, 5), (0, 5)]],
        1: [[(0, 0), (0, 3), (4, 3), (4, 0)], [(0, 0), (0, -70), (5, -70), (5, 2), (9, 2), (9, 0)]],
        2: [[(0, 0), (4, 0), (4, 3), (0, 3), (0, 1)], [(0, 0), (0, -5), (-200, -5), (-200, 0)]],
        3: [[(0, 0), (3, 3), (3, 6), (0, 6)], [(0, 0), (-3, -3), (-3, 2), (-1, 4), (1, 2), (0, 1)]],
        4: [[(0, 0), (5, 1), (2, 7)], [(0, 0), (200, -1), (2, 70), (-3, 3), (-3, 0)]],
        5: [[(0, 0), (5, 1), (7, 4), (2, 7)], [(0, 0), (-5, -1), (-5, -300), (0, -4)]]}
XY = [(10, -20), (0, 0), (-300, 70000), (63, -64), (2 ** 31, -(2 ** 31)), (8191, 8192)]
MAGS = [None, (0, 2), (2, 2), (4, 3, 2), (6, 1.5), (7, 2.5), (7, 0.1)]
ANGLES = [None, (0, 90), (1, 90), (0, 0), (2, 2), (3, 2), (4, 45, 2), (5, 45, 2), (6, 22.5), (7, 33.3), (7, -180.0), (0, 450)]


def P(name, vals, std=False):
    return {"name": name, "values": list(vals), "std": std}


def single_alphabet():
    out = []
    n = [0]

    def add(label, **el):
        x, y = XY[n[0] % len(XY)]
        n[0] += 1
        e = dict(layer=1, datatype=2, x=x, y=y)
        e.update(el)
        if e["kind"] in ("text", "placement"):
            e.pop("layer")
            e.pop("datatype")
        out.append((label, e))

    add("rect", kind="rectangle", w=5, h=7, square=False)
    add("rect.big", kind="rectangle", w=70000, h=1, square=False, layer=2 ** 32 - 1, datatype=300)
    add("rect.eq", kind="rectangle", w=5, h=5, square=False)
    add("square", kind="rectangle", w=5, h=5, square=True)
    add("square.big", kind="rectangle", w=200, h=200, square=True)
    for pt in range(6):
        for i, pts in enumerate(POLY[pt]):
            add("polygon.t%d.%d" % (pt, i), kind="polygon", ptype=pt, pts=pts)
    for pt in range(6):
        for ss in (1, 2, 3):
            for ee in (1, 2, 3):
                hw = 2 if (ss + ee) % 2 else 130
                ext = ({1: 0, 2: hw, 3: -1}[ss], {1: 0, 2: hw, 3: 70}[ee])
                add("path.t%d.ext%d%d" % (pt, ss, ee), kind="path", hw=hw, ext=ext, ext_repr=(ss, ee), ptype=pt, pts=POLY[pt][(ss + ee) % 2])
    add("path.hw0", kind="path", hw=0, ext=(0, 0), ext_repr=(2, 1), ptype=4, pts=[(0, 0), (7, 9)])
    add("path.ext3eqhw", kind="path", hw=4, ext=(4, 4), ext_repr=(3, 3), ptype=2, pts=[(0, 0), (7, 0)])
    add("path.ext3zero", kind="path", hw=4, ext=(0, 0), ext_repr=(3, 3), ptype=2, pts=[(0, 0), (0, -7)])
    for rec in (23, 24, 25):
        for vert in (False, True):
            for da in ((-2, 0, 3) if rec != 25 else (0,)):
                for db in ((-1, 0, 2) if rec != 24 else (0,)):
                    add("trap%d.%s.a%+d.b%+d" % (rec, "v" if vert else "h", da, db), kind="trapezoid", rec=rec, vertical=vert, w=9, h=8, da=da, db=db)
    add("trap23.big", kind="trapezoid", rec=23, vertical=False, w=300, h=200, da=-130, db=70)
    for t in range(26):
        for (w, h) in (((12, 5) if t < 8 or t >= 16 else (5, 12)), ((300, 130) if t < 8 or t >= 16 else (130, 300))):
            ew, eh = oc.ctrapezoid_extent(t, w, h)
            add("ctrap%d.%d" % (t, w), kind="ctrapezoid", ctype=t, w=ew, h=eh)
    zig = [(0, 0)] + [(3 * i + (i % 2), 7 * (i % 2) + i) for i in range(1, 130)]
    add("polygon.130v", kind="polygon", ptype=4, pts=zig + [(-5, 300)])
    add("polygon.130v.t5", kind="polygon", ptype=5, pts=zig + [(-5, 300)])
    add("path.130v", kind="path", hw=3, ext=(0, 0), ext_repr=(1, 1), ptype=4, pts=zig)
    stair = [(0, 0)]
    for i in range(1, 131):
        stair.append((stair[-1][0] + (2 if i % 2 else 0), stair[-1][1] + (0 if i % 2 else 3)))
    add("path.131v.t0", kind="path", hw=1, ext=(1, 1), ext_repr=(2, 2), ptype=0, pts=stair)
    add("polygon.132v.t0", kind="polygon", ptype=0, pts=stair + [(0, stair[-1][1])])
    add("circle", kind="circle", r=6)
    add("circle.big", kind="circle", r=5000)
    add("circle.r1", kind="circle", r=1)
    for i, tx in enumerate((b"A", b"hello world", b"~!@ x")):
        add("text.%d" % i, kind="text", text=tx, textlayer=3 + 130 * i, texttype=4 * i)
    add("text.200", kind="text", text=bytes(0x20 + (i * 7) % 95 for i in range(200)), textlayer=0, texttype=0)
    add("plc17.longname", kind="placement", cell=b"GHOST_" + b"N" * 130, rec=17, angle=0, flip=False)
    for ang in (0, 90, 180, 270):
        for fl in (False, True):
            add("plc17.%d.%d" % (ang, fl), kind="placement", cell=b"LEAF", rec=17, angle=ang, flip=fl)
    add("plc17.ghost", kind="placement", cell=b"GHOST", rec=17, angle=90, flip=False)
    for mag in MAGS:
        for ang in ANGLES:
            add("plc18.m%s.a%s" % ("".join(map(str, mag or "-")), "".join(map(str, ang or "-"))), kind="placement", cell=b"LEAF", rec=18, mag=mag, angle=ang,
                flip=(len(out) % 3 == 0))
    return out


LEAF = {"name": b"LEAF", "props": [], "name_props": [], "elements": [dict(kind="rectangle", layer=9, datatype=9, w=2, h=3, square=False, x=1, y=1, rep=None, props=[])]}


def mk_layout(els, unit=(0, 1000), props=(), cellprops=(), extra_cells=()):
    els = [dict(e) for e in els]
    for e in els:
        e.setdefault("rep", None)
        e.setdefault("props", [])
    cells = [{"name": b"TOP", "props": list(cellprops), "name_props": [], "elements": els}]
    if any(e["kind"] == "placement" and e["cell"] == b"LEAF" for e in els):
        cells.append(json_copy_cell(LEAF))
    cells += list(extra_cells)
    return {"unit": unit, "props": list(props), "cells": cells}


def json_copy_cell(c):
    return {"name": c["name"], "props": list(c["props"]), "name_props": list(c["name_props"]), "elements": [dict(e) for e in c["elements"]]}


def sigma():
    """Reduced alphabet: 16 record kinds x 2 flavours (0: shared field values so that every modal variable can be reused
    across kinds; 1: different values everywhere)."""
    out = []
    for fl in (0, 1):
        g = dict(layer=1, datatype=2, x=10, y=-20) if fl == 0 else dict(layer=3, datatype=0, x=-5, y=400)
        w, h = (12, 5) if fl == 0 else (7, 30)
        rep = (1, 2, 2, 5, 7) if fl == 0 else (9, 3, (2, -2))
        pl = POLY[4][0] if fl == 0 else POLY[0][0]
        pt = 4 if fl == 0 else 0
        hw = 2 if fl == 0 else 5
        k = []
        k.append(("rect", dict(g, kind="rectangle", w=w, h=h, square=False)))
        k.append(("square", dict(g, kind="rectangle", w=w, h=w, square=True)))
        k.append(("recteq", dict(g, kind="rectangle", w=w, h=w, square=False)))
        k.append(("polygon", dict(g, kind="polygon", ptype=pt, pts=pl)))
        k.append(("path.a", dict(g, kind="path", hw=hw, ext=(0, hw), ext_repr=(1, 2), ptype=pt, pts=pl)))
        k.append(("path.b", dict(g, kind="path", hw=hw, ext=(-1, 3), ext_repr=(3, 3), ptype=2, pts=[(0, 0), (0, 9), (4, 9)])))
        k.append(("trap23", dict(g, kind="trapezoid", rec=23, vertical=False, w=w, h=h, da=2, db=-1)))
        k.append(("trap24v", dict(g, kind="trapezoid", rec=24, vertical=True, w=w, h=h, da=-2, db=0)))
        k.append(("ctrap1", dict(g, kind="ctrapezoid", ctype=1 if fl == 0 else 9, w=w, h=h)))
        k.append(("ctrap17", dict(g, kind="ctrapezoid", ctype=17, w=w, h=w)))
        k.append(("ctrap20", dict(g, kind="ctrapezoid", ctype=20, w=2 * h, h=h)))
        k.append(("ctrap24", dict(g, kind="ctrapezoid", ctype=24, w=w, h=h)))
        k.append(("circle", dict(g, kind="circle", r=6 if fl == 0 else 40)))
        k.append(("text", dict(kind="text", text=b"abc" if fl == 0 else b"d e", textlayer=g["layer"], texttype=g["datatype"], x=g["x"], y=g["y"])))
        k.append(("plc17", dict(kind="placement", cell=b"LEAF" if fl == 0 else b"LEAF2", rec=17, angle=90 if fl == 0 else 180, flip=bool(fl), x=g["x"], y=g["y"])))
        k.append(("plc18", dict(kind="placement", cell=b"LEAF" if fl == 0 else b"LEAF2", rec=18, angle=(0, 30) if fl == 0 else None, mag=(0, 2) if fl == 0 else (2, 2), flip=False, x=g["x"], y=g["y"])))
        k.append(("plc18b", dict(kind="placement", cell=b"LEAF", rec=18, angle=None, mag=None, flip=True, x=g["x"], y=g["y"])))
        for name, e in k:
            e["rep"] = rep if name not in ("square", "recteq", "ctrap24", "plc18b") else None
            e["props"] = [P(b"pa", [("uint", 5)])] if (name in ("rect", "text", "path.b") and fl == 0) else []
            out.append((name + (".f%d" % fl), e))
    return out


LEAF2 = {"name": b"LEAF2", "props": [], "name_props": [], "elements": [dict(kind="circle", layer=8, datatype=0, r=3, x=0, y=0, rep=None, props=[])]}


def layout_of(els, **kw):
    lay = mk_layout(els, **kw)
    if any(e["kind"] == "placement" and e["cell"] == b"LEAF2" for e in els):
        lay["cells"].append(json_copy_cell(LEAF2))
    return lay


def subsets_of(keys, kmax):
    """All subsets when len(keys) <= kmax, else a covering: none, all, each single key in, each single key out."""
    if len(keys) <= kmax:
        for m in range(1 << len(keys)):
            yield [k for i, k in enumerate(keys) if m >> i & 1]
    else:
        yield []
        yield list(keys)
        for k in keys:
            yield [k]
        for k in keys:
            yield [x for x in keys if x != k]


def eligible_keys(layout, choices):
    ch = dict(choices)
    ch["implicit"] = "all"
    _, info = oc.encode_layout(layout, ch)
    return info["eligible"]


# ============================================================================ direction 1: spaces
class Space:
    name = ""

    def ngroups(self, tier):
        raise NotImplementedError

    def cases(self, g, tier):
        """-> list of dicts {'layout':..,'choices':..,'label':{..}}"""
        raise NotImplementedError

    def describe(self, tier):
        return ""


class SingleSpace(Space):
    name = "d1.single"

    def __init__(self):
        self.alpha = single_alphabet()

    def ngroups(self, tier):
        return len(self.alpha)

    def describe(self, tier):
        return ("every single-element layout: %d element variants (RECTANGLE/square, POLYGON x 6 point-list types x 2 shapes, PATH x 9 explicit SS/EE schemes x 6 "
                "point-list types, TRAPEZOID 23/24/25 x orientation x delta signs, CTRAPEZOID 26 types x 2 sizes, CIRCLE, TEXT, PLACEMENT 8 orientations, "
                "PLACEMENT(18) x %d magnification forms x %d angle forms) x %d repetitions (none + types 1-11, two parametrisations each) + per element: CBLOCK, "
                "XYRELATIVE, by-reference names, %s") % (len(self.alpha), len(MAGS), len(ANGLES), len(REPS),
                                                        "x every repetition again (a) with a property list in relative mode, (b) in a CBLOCK with strict tables in START, (c) with the 14 unit encodings, PADs and a signature" if tier == "thorough" else "one property list")

    def cases(self, g, tier):
        label, el = self.alpha[g]
        out = []
        for ri, rep in enumerate(REPS):
            e = dict(el, rep=rep)
            out.append({"layout": layout_of([e]), "choices": {}, "label": {"element": label, "rep": ri}})
            if tier == "thorough":
                e2 = dict(e, props=[P(b"pn", [("sint", -ri), ("a", b"x y")])])
                out.append({"layout": layout_of([e2]), "choices": {"xymode": "rel", "pname_by": "ref"}, "label": {"element": label, "rep": ri, "variant": "rel+prop"}})
                out.append({"layout": layout_of([e]), "choices": {"cblock": "one", "cell_by": "ref", "plc_by": "ref", "text_by": "ref", "tables": "before", "strict": 2, "offsets_in": "start"},
                            "label": {"element": label, "rep": ri, "variant": "cblock+tables"}})
                out.append({"layout": layout_of([e], unit=UNITS[ri % len(UNITS)]), "choices": {"pad": 31, "validation": 1 + ri % 2}, "label": {"element": label, "rep": ri, "variant": "unit+pad+sig"}})
        e = dict(el, rep=None)
        for ch in ({"cblock": "one"}, {"cblock": "cell", "cb_level": 0}, {"xymode": "rel"}, {"cell_by": "ref", "plc_by": "ref", "text_by": "ref", "tables": "before"},
                   {"cell_by": "ref", "plc_by": "ref", "text_by": "ref", "tables": "after", "numbering": "explicit"}, {"implicit": "all"}, {"pad": 31}):
            out.append({"layout": layout_of([e]), "choices": ch, "label": {"element": label, "rep": 0}})
        e = dict(el, rep=REPS[1 + g % (len(REPS) - 1)], props=[P(b"pn", [("uint", g), ("n", b"v")])])  # noqa
        out.append({"layout": layout_of([e]), "choices": {"pstr_by": "ref", "pname_by": "ref"}, "label": {"element": label, "variant": "prop"}})
        return out


class CellResetSpace(Space):
    """Two cells: the first leaves every modal variable (positions, mode) in a non-initial state; the second relies on
    the reset at CELL (x/y omitted at 0, absolute mode)."""
    name = "d1.cellreset"

    def __init__(self):
        self.sig = [s for s in sigma() if s[0].endswith(".f1")]

    def ngroups(self, tier):
        return len(self.sig)

    def describe(self, tier):
        return "%d record kinds: cell 1 = element at (-5,400) [absolute / left in XYRELATIVE mode], cell 2 = same kind at (0,0) with x/y implicit, and at (7,9) explicit" % len(self.sig)

    def cases(self, g, tier):
        name, el = self.sig[g]
        out = []
        for mode1 in ("abs", "rel"):
            for (x, y) in ((0, 0), (7, 9), (0, 9)):
                a = dict(el)
                b = dict(el, x=x, y=y, rep=None, props=[])
                lay = layout_of([a])
                lay["cells"][0]["name"] = b"C1"
                second = {"name": b"C2", "props": [], "name_props": [], "elements": [b]}
                lay["cells"].insert(1, second)
                # implicit only for the second cell's x / y
                keys = [k for k in eligible_keys(lay, {"xymode": {0: mode1}}) if k.startswith("1.0.") and k.split(".")[2] in ("x", "y")]
                for imp in ([], keys) if keys else ([],):
                    out.append({"layout": lay, "choices": {"xymode": {0: mode1}, "implicit": imp},
                                "label": {"element": name, "mode_cell1": mode1, "xy": "%d,%d" % (x, y)}})
        return out


class PairSpace(Space):
    name = "d1.pairs"

    def __init__(self):
        self.sig = sigma()

    def ngroups(self, tier):
        return len(self.sig) ** 2

    def describe(self, tier):
        return ("every ordered pair over the reduced alphabet of %d elements (16 record kinds x {shared values, different values}); per pair the full 2^k set of "
                "explicit/implicit info-byte choices over the k legally omissible fields (k <= %d, beyond that none/all/each-single-in/each-single-out), plus "
                "%s under XYRELATIVE, XYRELATIVE-after-first and XYABSOLUTE-after-first; same-value pairs again with the second element moved (x/y not reusable)") % (
                    len(self.sig), 8 if tier == "quick" else 12, "{none, all}" if tier == "quick" else "the full choice set (k <= 10)")

    def cases(self, g, tier):
        n = len(self.sig)
        (na, a), (nb, b) = self.sig[g // n], self.sig[g % n]
        lay = layout_of([a, b])
        out = []
        keys = eligible_keys(lay, {})
        for sub in subsets_of(keys, 8 if tier == "quick" else 12):
            out.append({"layout": lay, "choices": {"implicit": sub}, "label": {"first": na, "second": nb, "k": len(keys)}})
        for xm in ("rel", "rel_after1", "abs_after1"):
            if tier == "quick":
                for imp in ("none", "all"):
                    out.append({"layout": lay, "choices": {"implicit": imp, "xymode": xm}, "label": {"first": na, "second": nb, "xymode": xm}})
            else:
                for sub in subsets_of(keys, 10):
                    out.append({"layout": lay, "choices": {"implicit": sub, "xymode": xm}, "label": {"first": na, "second": nb, "k": len(keys), "xymode": xm}})
        if na.endswith(".f0") and nb.endswith(".f0"):
            # same values but a different position: everything except x / y may be reused
            lay2 = layout_of([a, dict(b, x=b["x"] + 7, y=b["y"] - 300)])
            keys = eligible_keys(lay2, {})
            for sub in subsets_of(keys, 4 if tier == "quick" else 10):
                for xm in ("abs", "rel"):
                    out.append({"layout": lay2, "choices": {"implicit": sub, "xymode": xm}, "label": {"first": na, "second": nb, "k": len(keys), "shifted": 1, "xymode": xm}})
        return out


class TripleSpace(Space):
    name = "d1.triples"

    def __init__(self):
        self.sig = sigma()
        self.first = [s for s in self.sig if s[0].endswith(".f0")]

    def ngroups(self, tier):
        return len(self.first) * len(self.sig)

    def describe(self, tier):
        return ("triples (A, B, A') with A over 17 kinds (shared values), B over all %d reduced-alphabet elements, A' = A again or A with different values: %s") % (
                    len(self.sig), "all explicit, all implicit, and each single field of the third element implicit alone (modal reuse at distance 2)" if tier == "quick" else
                    "every subset (k <= 9, else covering) of the third element's omissible fields x first two elements all-explicit / all-implicit x absolute / XYRELATIVE")

    def cases(self, g, tier):
        (na, a), (nb, b) = self.first[g // len(self.sig)], self.sig[g % len(self.sig)]
        out = []
        alt = dict(self.sig[len(self.first) + g // len(self.sig)][1])
        for third, tn in ((a, "same"), (alt, "alt")):
            lay = layout_of([a, b, third])
            for xm in (("abs", "rel") if tier == "thorough" else ("abs",)):
                allk = eligible_keys(lay, {"xymode": xm})
                keys = [k for k in allk if k.startswith("0.2.")]
                if tier == "quick":
                    for imp in ["none", "all"] + [[k] for k in keys]:
                        out.append({"layout": lay, "choices": {"implicit": imp, "xymode": xm}, "label": {"first": na, "second": nb, "third": tn, "xymode": xm}})
                else:
                    early = [k for k in allk if not k.startswith("0.2.")]
                    for sub in subsets_of(keys, 9):
                        for pre in ([], early) if early else ([],):
                            out.append({"layout": lay, "choices": {"implicit": sub + pre, "xymode": xm},
                                        "label": {"first": na, "second": nb, "third": tn, "xymode": xm, "k": len(keys), "earlier_implicit": int(bool(pre))}})
        return out


def table_layout():
    sg = dict(sigma())
    els = [dict(sg["text.f0"]), dict(sg["text.f1"]), dict(sg["text.f1"], x=-77, props=[]), dict(sg["plc17.f0"]), dict(sg["plc18.f1"]), dict(sg["plc17.f1"], y=55), dict(sg["rect.f0"]),
           dict(sg["text.f0"], x=99)]
    els[4], els[6] = els[6], els[4]
    els[4]["props"] = [P(b"pa", [("a", b"a b"), ("b", b"\x00\x01\xff"), ("n", b"nstr"), ("uint", 7)]), P(b"pb", [("n", b"nstr"), ("real", (2, 4))]), P(b"pa", [("a", b"a b")])]
    els[0]["props"] = [P(b"pb", [("b", b"")])]
    lay = layout_of(els, props=[P(b"fp", [("a", b"file level")])], cellprops=[P(b"pa", [("sint", -1)])])
    return lay


class TableSpace(Space):
    name = "d1.tables"
    AX = [("cell_by", ("name", "ref")), ("plc_by", ("name", "ref")), ("text_by", ("str", "ref")), ("pname_by", ("str", "ref")), ("pstr_by", ("inline", "ref")),
          ("tables", ("before", "after")), ("numbering", ("implicit", "explicit")), ("so", ((0, "end"), (2, "end"), (1, "start"), (2, "start"))),
          ("implicit", ("none", "all")), ("cb_tables", (False, True))]

    def ngroups(self, tier):
        return 2 ** 5

    def describe(self, tier):
        return ("3-cell layout with two text strings, two placement targets, 3 property names and 4 property strings: CELL by name/number x placements by name/number "
                "x text inline/by number x property names inline/by number x property strings inline/by number x tables before/after the cells (forward "
                "references) x implicit/explicit (non-contiguous, reversed) numbering x {non-strict offsets 0 in END, strict in END, real offsets non-strict in START, "
                "strict in START} x {all explicit, all implicit} x tables plain / inside a CBLOCK")

    def cases(self, g, tier):
        lay = table_layout()
        out = []
        first = {k: v[(g >> i) & 1] for i, (k, v) in enumerate(self.AX[:5])}
        for combo in itertools.product(*[v for _, v in self.AX[5:]]):
            ch = dict(first)
            for (k, _), v in zip(self.AX[5:], combo):
                ch[k] = v
            ch["strict"], ch["offsets_in"] = ch.pop("so")
            ch["rec29"] = bool(g & 1)
            out.append({"layout": lay, "choices": ch, "label": {k: str(v) for k, v in ch.items()}})
        return out


class CblockSpace(Space):
    name = "d1.cblock"

    def __init__(self):
        sg = sigma()
        f0 = [e for n, e in sg if n.endswith(".f0")]
        self.lays = []
        for i in range(0, len(f0)):
            els = [dict(f0[i]), dict(f0[(i + 5) % len(f0)]), dict(f0[i], x=77), dict(f0[(i + 9) % len(f0)])]
            els[1]["props"] = [P(b"q", [("uint", 1)]), P(b"q", [("uint", 1)])]
            self.lays.append(layout_of(els, cellprops=[P(b"cp", [("n", b"z")])]))

    def ngroups(self, tier):
        return len(self.lays)

    def describe(self, tier):
        return ("%d four-element cells with properties: body in one CBLOCK (levels 0, 6, 9), CELL record inside the CBLOCK, and the body split into two CBLOCKs at "
                "every record boundary; each all-explicit and all-implicit, absolute and relative mode") % len(self.lays)

    def cases(self, g, tier):
        lay = self.lays[g]
        nrec = 1 + sum(1 + len(e["props"]) for e in lay["cells"][0]["elements"]) + 1
        cbs = [("one", 0), ("one", 6), ("one", 9), ("cell", 6)] + [(("split", k), 6) for k in range(1, nrec)]
        out = []
        for cb, lvl in cbs:
            for imp in ("none", "all"):
                for xm in ("abs", "rel"):
                    out.append({"layout": lay, "choices": {"cblock": cb, "cb_level": lvl, "implicit": imp, "xymode": xm},
                                "label": {"cblock": str(cb), "level": lvl, "implicit": imp, "xymode": xm}})
        return out


VALS = [("real", (0, 5)), ("real", (1, 7)), ("real", (2, 4)), ("real", (3, 8)), ("real", (4, 3, 7)), ("real", (5, 2, 9)), ("real", (6, 0.5)), ("real", (7, 0.1)),
        ("real", (7, 0.19999999999999998)), ("real", (0, 2 ** 53)), ("real", (6, 3.4028234663852886e+38)), ("uint", 0), ("uint", 2 ** 64 - 1), ("sint", -(2 ** 63 - 1)),
        ("sint", 70), ("a", b"a b"), ("a", b""), ("b", b"\x00\xff\x80"), ("b", b""), ("n", b"nm"), ("b", bytes(range(256)) + b"tail"), ("n", b"N" * 130)]


class PropSpace(Space):
    name = "d1.props"
    TARGETS = ("file", "cell", "cellname", "cellname_inline", "rect", "polygon", "path", "text", "placement", "circle")

    def ngroups(self, tier):
        return len(self.TARGETS)

    def describe(self, tier):
        return ("property lists attached to file / cell / CELLNAME record / RECTANGLE / POLYGON / PATH / TEXT / PLACEMENT / CIRCLE: every value type (8 real forms, "
                "unsigned, signed, a-/b-/n-string inline and by PROPSTRING reference 13/14/15, extreme values), value counts 0,1,2,13,14,15,16,17,40,130 with 4-bit and explicit "
                "count, pairs and triples of properties with every subset of {name reuse (C=0), value-list reuse (V=1)} and record 29, names inline and by number")

    def lists(self):
        out = []
        for v in VALS:
            out.append(("type." + v[0] + "." + (str(v[1])[:12]), [P(b"pn", [v])], {}))
        for n in (0, 1, 2, 13, 14, 15, 16, 17, 40, 130):
            vals = [VALS[i % len(VALS)] for i in range(n)]
            out.append(("count.%d" % n, [P(b"pc", vals)], {}))
            out.append(("count.%d.x" % n, [P(b"pc", vals)], {"explicit_count": True}))
        va, vb = [("uint", 5), ("a", b"s t")], [("sint", -5)]
        for (n1, v1), (n2, v2), (n3, v3) in itertools.product(*[[(b"p1", va), (b"p2", vb)]] * 3):
            if (n1, v1) != (b"p1", va):
                continue
            out.append(("chain.%s%s" % (n2.decode(), n3.decode()), [P(n1, v1), P(n2, v2), P(n3, v3)], {}))
        out.append(("chain.samename", [P(b"p1", va), P(b"p1", vb), P(b"p1", va)], {}))
        out.append(("chain.samevals", [P(b"p1", va), P(b"p2", va), P(b"p3", va)], {}))
        out.append(("std", [P(b"S_GDS_PROPERTY", [("uint", 3), ("b", b"val\x00")], True), P(b"S_GDS_PROPERTY", [("uint", 4), ("b", b"w")], True)], {}))
        return out

    def cases(self, g, tier):
        tgt = self.TARGETS[g]
        sg = dict(sigma())
        out = []
        for lname, pl, extra in self.lists():
            base = {"rect": "rect.f0", "polygon": "polygon.f0", "path": "path.a.f0", "text": "text.f0", "placement": "plc17.f0", "circle": "circle.f0"}
            el = dict(sg[base.get(tgt, "rect.f0")], props=[])
            el2 = dict(sg["circle.f1"], props=[P(b"other", [("uint", 1)])])
            kw = {}
            if tgt == "file":
                kw["props"] = pl
            elif tgt == "cell":
                kw["cellprops"] = pl
            elif not tgt.startswith("cellname"):
                el["props"] = pl
            lay = layout_of([el, el2], **kw)
            byref = {}
            if tgt == "cellname":
                lay["cells"][0]["name_props"] = pl
                byref = {"cell_by": "ref"}
            elif tgt == "cellname_inline":
                lay["cells"][0]["name_props"] = pl
                byref = {"cell_by": "name"}
            for by in ({}, {"pname_by": "ref", "pstr_by": "ref", "tables": "before"}, {"pname_by": "ref", "pstr_by": "ref", "tables": "after", "numbering": "explicit"}):
                ch0 = dict(extra)
                ch0.update(by)
                ch0.update(byref)
                keys = [k for k in eligible_keys(lay, ch0) if ".p" in k and (k.endswith(".name") or k.endswith(".val"))]
                for sub in subsets_of(keys, 6):
                    for r29 in ((False, True) if len(sub) >= 2 else (False,)):
                        ch = dict(ch0, implicit=sub, rec29=r29)
                        out.append({"layout": lay, "choices": ch, "label": {"target": tgt, "list": lname, "by": "ref" if by else "inline", "rec29": int(r29), "k": len(keys)}})
        return out


UNITS = [(0, 1000), (0, 1), (0, 2000), (0, 127), (2, 2), (2, 1), (4, 2000, 3), (4, 1, 4), (6, 1000.0), (6, 0.5), (7, 1e3), (7, 1234.5), (7, 999.9999999999999), (7, 0.001)]


class UnitSpace(Space):
    name = "d1.units"

    def __init__(self):
        sg = sigma()
        self.els = [e for n, e in sg if n.endswith(".f0")]

    def ngroups(self, tier):
        return len(UNITS)

    def describe(self, tier):
        return "%d encodings of the START unit (integer, reciprocal, ratio, float32, float64; non-integral grids) x 16 record kinds, coordinates up to 2^31" % len(UNITS)

    def cases(self, g, tier):
        out = []
        for i, e in enumerate(self.els):
            e = dict(e)
            if i % 2:
                e["x"], e["y"] = 2 ** 31, -(2 ** 31)
            out.append({"layout": layout_of([e], unit=UNITS[g]), "choices": {"offsets_in": "start" if i % 2 else "end"}, "label": {"unit": str(UNITS[g]), "element": i}})
        return out


class PadSpace(Space):
    name = "d1.pads"

    def ngroups(self, tier):
        return 32

    def describe(self, tier):
        return ("PAD records at every subset of {after START, before CELL, between all cell-body records, before END, between name records} x validation scheme "
                "{none, CRC32, CHECKSUM32} x body plain / CBLOCK, on the name-table layout with everything by reference")

    def cases(self, g, tier):
        lay = table_layout()
        out = []
        for val in (0, 1, 2):
            for cb in (None, "one"):
                ch = {"pad": g, "validation": val, "cblock": cb, "cb_file": (g % 3 == 0 and cb is None), "cell_by": "ref",
                      "layernames": [(11, b"metal1", (0,), (3, 5)), (12, b"txt", (1, 7), (2, 3)), (11, b"any", (4, 1, 9), (4, 0, 0))][:g % 4], "plc_by": "ref", "text_by": "ref", "pname_by": "ref", "pstr_by": "ref", "implicit": "all",
                      "tables": "before" if g & 1 else "after", "strict": 2}
                out.append({"layout": lay, "choices": ch, "label": {"pad": g, "validation": val, "cblock": str(cb)}})
        return out


D1_SPACES = [SingleSpace, CellResetSpace, PairSpace, TripleSpace, TableSpace, CblockSpace, PropSpace, UnitSpace, PadSpace]


# ============================================================================ execution of direction-1 units
def choice_tags(choices, info):
    t = {}
    fields = sorted({k.split(".", 2)[2] for k in info.get("taken", [])})
    t["implicit_fields"] = ",".join(fields) if fields else "-"
    for k in ("xymode", "cblock", "cell_by", "plc_by", "text_by", "pname_by", "pstr_by", "tables", "numbering", "offsets_in", "strict", "pad", "validation", "rec29", "cb_tables"):
        if k in choices and choices[k] != oc.DEFAULT_CHOICES[k]:
            t[k] = str(choices[k])
    return t


def jsonable(o):
    if isinstance(o, (bytes, bytearray)):
        return o.decode("latin-1")
    if isinstance(o, Fraction):
        return str(o)
    if isinstance(o, dict):
        return {str(k): jsonable(v) for k, v in o.items()}
    if isinstance(o, (list, tuple, set)):
        return [jsonable(v) for v in o]
    return o


def summarize_layout(layout):
    return [{"cell": c["name"].decode("latin-1"), "elements": [jsonable({k: v for k, v in e.items() if v not in (None, [], False)}) for e in c["elements"]]} for c in layout["cells"]]


def exec_d1(space, ids, cases, exe, scratch):
    """ids: list of (g, i).  -> result dict"""
    res = {"counters": {}, "violations": [], "samples": [], "outcomes": set()}
    cnt = res["counters"]

    def count(k, n=1):
        cnt[k] = cnt.get(k, 0) + n

    enc = []
    seen = set()
    for (g, i), case in zip(ids, cases):
        data, info = oc.encode_layout(case["layout"], case["choices"])
        h = hashlib.sha1(data).digest()
        if h in seen:
            count("duplicate_serialisations_skipped")
            continue
        seen.add(h)
        enc.append(((g, i), case, data, info))
    results = run_driver(exe, ["readhex " + e[2].hex() for e in enc], scratch)
    for ((g, i), case, data, info), r in zip(enc, results):
        if r is not None and r.get("not_executed"):
            count("cases_not_executed_after_repeated_crashes")
            res["incomplete"] = True
            continue
        count("cases")
        count("cases:" + space.name)
        if info["features"]:
            count("nontrivial")
        for f in info["features"]:
            count("feature:" + f)
        replay = "sub=%s g=%d i=%d" % (space.name, g, i)
        lay = case["layout"]
        for k in info["taken"]:  # measured coverage of the choice points: which field of which record kind was left implicit
            ci, ei, fld = k.split(".", 2)
            if ci == "f":
                ei, fld = "file", ei + "." + fld
            isprop = fld.startswith("p") and fld[1:2].isdigit()
            fname = ("property." + fld.rsplit(".", 1)[-1]) if isprop else fld
            if ci.isdigit() and ei.isdigit():
                count("implicit:%s.%s" % (lay["cells"][int(ci)]["elements"][int(ei)]["kind"], fname))
            else:
                count("implicit:%s.%s" % ({"f": "file", "n": "cellname"}.get(ci, "cell"), fname))
        tags0 = {k: (v if isinstance(v, int) else str(v)) for k, v in case["label"].items()}
        tags0.update(choice_tags(case["choices"], info))
        cj = {"hex": data.hex(), "layout": summarize_layout(lay), "choices": jsonable(case["choices"])}
        if r is None or "crash" in (r or {}):
            text = (r or {}).get("crash", "no result")
            cls = "crash:" + crash_class(text)
            count("viol:%s/%s" % (space.name, cls))
            res["violations"].append({"sub_check": space.name, "class": cls, "tags": dict(tags0, crash=crash_class(text)), "case": cj, "detail": text[:1500], "replay_args": replay})
            continue
        if r.get("kind") != "read":
            res.setdefault("internal", []).append("driver answered %r" % (r,))
            continue
        scale = float(oc.real_fraction(lay["unit"]))
        mm = compare_read(lay, r, scale)
        kinds = sorted({e["kind"] for c in lay["cells"] for e in c["elements"]})
        res["outcomes"].add((space.name, "%s|%s|%s|%s" % (",".join(kinds), ",".join(info["features"]), r["err"], "ok" if not mm else mm[0][0])))
        if not mm and len(res["samples"]) < 1 and info["features"]:
            res["samples"].append({"sub_check": space.name, "case": {"hex": data.hex(), "label": jsonable(case["label"]), "choices": jsonable(case["choices"]), "result": "read_oas model equals the encoded layout"}})
        for cls, tags, detail in mm:
            key = "viol:%s/%s" % (space.name, cls)
            count(key)
            if cnt[key] <= CAP:
                t = dict(tags0)
                t.update({k: (v if isinstance(v, int) else str(v)) for k, v in tags.items()})
                res["violations"].append({"sub_check": space.name, "class": cls, "tags": t, "case": cj, "detail": detail[:1200], "replay_args": replay})
    return res


# ============================================================================ orchestration
_SPACES = {}


def all_space_classes():
    return D1_SPACES + D2_SPACES


def get_space(name):
    if name not in _SPACES:
        for cls in all_space_classes():
            if cls.name == name:
                _SPACES[name] = cls()
                break
        else:
            raise KeyError(name)
    return _SPACES[name]


def run_unit(arg):
    name, g0, g1, tier, exe, scratch_root, deadline = arg
    if time.time() > deadline:
        return {"unit": (name, g0, g1), "skipped": True}
    space = get_space(name)
    scratch = os.path.join(scratch_root, "w%d" % os.getpid())
    os.makedirs(scratch, exist_ok=True)
    ids, cases = [], []
    for g in range(g0, g1):
        for i, c in enumerate(space.cases(g, tier)):
            ids.append((g, i))
            cases.append(c)
    try:
        fn = exec_d2 if getattr(space, "direction", "d1") == "d2" else exec_d1
        res = fn(space, ids, cases, exe, scratch)
    except Exception as e:  # harness bug: report, do not hide
        import traceback
        res = {"counters": {}, "violations": [], "samples": [], "outcomes": set(), "internal": ["%s in unit %s[%d:%d]: %s" % (type(e).__name__, name, g0, g1, traceback.format_exc()[-1500:])]}
    res["unit"] = (name, g0, g1)
    res["outcomes"] = sorted(res["outcomes"])
    return res


def hash16(s):
    return hashlib.sha1(s.encode()).hexdigest()[:16]


def plan_units(tier):
    """Units in execution order (smallest spaces first); each unit = consecutive groups of one space."""
    units = []
    target = 350 if tier == "quick" else 1500
    for cls in all_space_classes():
        sp = get_space(cls.name)
        ng = sp.ngroups(tier)
        per = max(1, min(ng, int(target / max(1, sp.avg_group_size(tier)))))
        for g0 in range(0, ng, per):
            units.append((cls.name, g0, min(ng, g0 + per)))
    return units


def _avg(self, tier):
    n = self.ngroups(tier)
    probe = [0, n // 2, n - 1] if n > 2 else list(range(n))
    return max(1, sum(len(self.cases(g, tier)) for g in probe) / max(1, len(probe)))


Space.avg_group_size = _avg


def replay(args, exe, scratch, emit):
    kv = dict(x.split("=", 1) for x in args.replay_args.split())
    space = get_space(kv["sub"])
    g, i = int(kv["g"]), int(kv["i"])
    case = space.cases(g, args.tier)[i]
    fn = exec_d2 if getattr(space, "direction", "d1") == "d2" else exec_d1
    sys.stderr.write("replaying %s group %d case %d\nlabel: %s\n" % (space.name, g, i, json.dumps(jsonable(case["label"]))))
    if getattr(space, "direction", "d1") == "d1":
        data, info = oc.encode_layout(case["layout"], case["choices"])
        sys.stderr.write("choices: %s\nimplicit fields taken: %s\nfile (%d bytes): %s\n" % (json.dumps(jsonable(case["choices"])), info["taken"], len(data), data.hex()))
        sys.stderr.write("encoded layout (what the file means):\n")
        for c in case["layout"]["cells"]:
            sys.stderr.write("  cell %r props=%s name_props=%s\n" % (c["name"], jsonable(c.get("props")), jsonable(c.get("name_props"))))
            for e in c["elements"]:
                sys.stderr.write("    %s\n" % json.dumps(jsonable(oc.denote(e))))
        r = run_driver(exe, ["readhex " + data.hex()], scratch)[0]
        sys.stderr.write("gdstk read_oas:\n  %s\n" % json.dumps(r)[:6000])
    else:
        sys.stderr.write("job: %s\n" % (d2_history_job(case, os.path.join(scratch, "replay")) if "ops" in case else d2_job(case, os.path.join(scratch, "replay.oas"))))
    res = fn(space, [(g, i)], [case], exe, scratch)
    for v in res["violations"]:
        sys.stderr.write("VIOLATION %s/%s tags=%s\n  %s\n" % (v["sub_check"], v["class"], json.dumps(v["tags"]), v["detail"]))
        emit(dict(v, type="violation"))
    if not res["violations"]:
        sys.stderr.write("no violation on replay\n")
    for t in res.get("internal", []):
        emit({"type": "internal_error", "text": t})


def main():
    ap = argparse.ArgumentParser()
    ap.add_argument("--exe", required=True)
    ap.add_argument("--tier", default="quick")
    ap.add_argument("--out", default="/dev/stdout")
    ap.add_argument("--replay-args", default="")
    ap.add_argument("--only", default="", help="comma-separated sub-check names (development)")
    args = ap.parse_args()
    outf = open(args.out, "a")

    def emit(rec):
        outf.write(json.dumps(rec) + "\n")
        outf.flush()

    scratch = os.path.join(VERIF, "build", "scratch", "C04.%d" % os.getpid())
    os.makedirs(scratch, exist_ok=True)
    try:
        if args.replay_args:
            replay(args, args.exe, scratch, emit)
            emit({"type": "done", "wall_s": round(time.time() - T0, 2), "deadline_hit": False})
            return 0
        deadline_s = float(os.environ.get("VERIF_DEADLINE_S", 2000 if args.tier == "thorough" else 70))
        deadline = T0 + deadline_s
        workers = int(os.environ.get("VERIF_WORKERS", "16"))
        units = plan_units(args.tier)
        if args.only:
            units = [u for u in units if u[0] in args.only.split(",")]
        jobs = [(n, g0, g1, args.tier, args.exe, scratch, deadline) for (n, g0, g1) in units]
        per_space = {}
        for n, g0, g1 in units:
            d = per_space.setdefault(n, {"groups": 0, "done_groups": 0, "cases": 0, "skipped": False})
            d["groups"] += g1 - g0
        counters, viol_emitted, samples_emitted, outcomes_seen = {}, {}, {}, set()
        deadline_hit = False
        with multiprocessing.Pool(workers) as pool:
            for res in pool.imap(run_unit, jobs, chunksize=1):
                n, g0, g1 = res["unit"]
                if res.get("skipped"):
                    per_space[n]["skipped"] = True
                    deadline_hit = True
                    continue
                per_space[n]["done_groups"] += g1 - g0
                per_space[n]["cases"] += res["counters"].get("cases", 0)
                if res.get("incomplete"):
                    per_space[n]["skipped"] = True
                if res["counters"]:
                    emit({"type": "counters", "c": res["counters"]})
                for t in res.get("internal", []):
                    emit({"type": "internal_error", "text": t})
                for v in res["violations"]:
                    k = v["sub_check"] + "/" + v["class"]
                    viol_emitted[k] = viol_emitted.get(k, 0) + 1
                    if viol_emitted[k] <= max(4, CAP):
                        emit(dict(v, type="violation"))
                for s in res["samples"]:
                    samples_emitted[s["sub_check"]] = samples_emitted.get(s["sub_check"], 0) + 1
                    if samples_emitted[s["sub_check"]] <= 2:
                        emit(dict(s, type="sample"))
                for sub, what in res["outcomes"]:
                    if (sub, what) not in outcomes_seen and len(outcomes_seen) < 20000:
                        outcomes_seen.add((sub, what))
                        emit({"type": "outcome", "sub_check": sub, "h": hash16(what)})
        for n, d in per_space.items():
            sp = get_space(n)
            complete = d["done_groups"] == d["groups"] and not d["skipped"]
            emit({"type": "bound", "sub_check": n, "bound": sp.describe(args.tier), "complete": complete, "cases": d["cases"], "groups_done": d["done_groups"], "groups": d["groups"]})
        emit({"type": "note", "text": "counter stdprop_written_with_S_bit_clear = files whose S_* properties (other than S_GDS_PROPERTY) carry S=0 in the PROPERTY info byte; "
                                      "they are recognised as standard properties by name and not reported (the property text does not speak about the S bit)"})
        emit({"type": "note", "text": "C04 oracle: independent codec codec/oas_codec.py written from DESIGN.md A.2; geometry-w/h after a one-dimension CTRAPEZOID type, and "
                                      "all modal variables after a <name> record, are treated as undefined by the encoder (never relied upon); X records are outside the alphabet"})
        emit({"type": "done", "wall_s": round(time.time() - T0, 2), "deadline_hit": deadline_hit})
        return 0
    finally:
        outf.close()
        shutil.rmtree(scratch, ignore_errors=True)


# ============================================================================ direction 2: gdstk writes, strict decoder reads
def fnum(v):
    return repr(float(v))


def g2u(n, per=1000):
    """grid integer -> user-unit double (nearest double of n/per)"""
    return n / per


def pt(p, per=1000):
    return "%s,%s" % (fnum(g2u(p[0], per)), fnum(g2u(p[1], per)))


def rha(x):
    """llround: half away from zero"""
    return int(math.copysign(math.floor(abs(x) + 0.5), x))


D2_REPS = [("none", None), ("rect2x3", "rep rect 2 3 0.005 0.007"), ("rect3x1", "rep rect 3 1 0.004 0.009"), ("rect1x2", "rep rect 1 2 0.004 0.009"),
           ("rect.neg", "rep rect 2 2 -0.005 0.007"), ("rect.negcol", "rep rect 3 1 -0.004 0"), ("reg", "rep reg 2 3 0.003 0.001 -0.002 0.005"),
           ("reg.nx1", "rep reg 3 1 0.004 0.004 0 0.01"), ("reg.1xn", "rep reg 1 3 0.004 0.004 -0.001 0.01"), ("ex", "rep ex 2 0.001,0.002 -0.003,0.001"),
           ("ex3", "rep ex 3 0.001,0.002 -0.003,0.001 0.01,0.01"), ("exx", "rep exx 2 0.001 0.003"), ("exx.unsorted", "rep exx 3 0.005 0.001 0.003"),
           ("exx.neg", "rep exx 2 -0.002 0.001"), ("exy", "rep exy 2 0.002 0.005"), ("exy.neg", "rep exy 2 0.003 -0.004")]
D2_PROPS = [("none", []), ("mixed", ["prop pa u:5 i:-3 r:0.5 s:6162 s:612062 s:00ff", "prop pb r:2 r:0.1"]), ("samename", ["prop pa u:1", "prop pa s:78"])]


def d2_shapes():
    """(label, vertex list on the grid)"""
    out = []
    for (w, h, nm) in ((3000, 2000, "rect"), (2000, 2000, "square")):
        base = [(100, -200), (100 + w, -200), (100 + w, -200 + h), (100, -200 + h)]
        for rot in range(4):
            for rev in (0, 1):
                v = base[rot:] + base[:rot]
                if rev:
                    v = v[::-1]
                out.append(("%s.r%d%s" % (nm, rot, "cw" if rev else "ccw"), v))
    for t in range(26):
        w, h = (12000, 5000) if t < 8 or t >= 16 else (5000, 12000)
        ew, eh = oc.ctrapezoid_extent(t, w, h)
        v0 = [(x - 700, y + 300) for x, y in oc.ctrapezoid_vertices(t, ew, eh)]
        for rot in (0, 1, 2):
            for rev in (0, 1):
                v = v0[rot % len(v0):] + v0[:rot % len(v0)]
                if rev:
                    v = v[::-1]
                out.append(("ctrap%d.r%d%s" % (t, rot, "cw" if rev else "ccw"), v))
    for vert in (False, True):
        for da in (-2000, 0, 3000):
            for db in (-1000, 0, 2000):
                v0 = [(x + 50, y - 60) for x, y in oc.trapezoid_vertices(vert, 9000, 8000, da, db)]
                for rot, rev in ((0, 0), (1, 1), (3, 0)):
                    v = v0[rot:] + v0[:rot]
                    if rev:
                        v = v[::-1]
                    out.append(("trap.%s.a%+d.b%+d.r%d%s" % ("v" if vert else "h", da, db, rot, "cw" if rev else "ccw"), v))
    out.append(("quad.general", [(0, 0), (5000, 1000), (4000, 6000), (-1000, 3000)]))
    out.append(("quad.parallelogram45", [(0, 0), (5000, 0), (7000, 2000), (2000, 2000)]))
    out.append(("quad.kite", [(0, 0), (2000, -1000), (4000, 0), (2000, 3000)]))
    out.append(("tri.scalene", [(0, 0), (5000, 1000), (2000, 7000)]))
    out.append(("tri.right.nonisosceles", [(0, 0), (5000, 0), (0, 3000)]))
    out.append(("tri.isosceles.nonright", [(0, 0), (4000, 0), (2000, 5000)]))
    out.append(("manhattan.L", [(0, 0), (4000, 0), (4000, 1000), (1000, 1000), (1000, 3000), (0, 3000)]))
    out.append(("manhattan.L.cw.vfirst", [(0, 0), (0, 3000), (1000, 3000), (1000, 1000), (4000, 1000), (4000, 0)]))
    out.append(("octagon", [(1000, 0), (2000, 0), (3000, 1000), (3000, 2000), (2000, 3000), (1000, 3000), (0, 2000), (0, 1000)]))
    out.append(("pentagon.general", [(0, 0), (7000, -1000), (9000, 4000), (3000, 8000), (-2000, 3000)]))
    out.append(("big.coords", [(2 ** 31, -(2 ** 31)), (2 ** 31 + 5000, -(2 ** 31)), (2 ** 31 + 1000, -(2 ** 31) + 70000)]))
    for n, r in ((64, 10000), (100, 250000), (16, 2000)):
        out.append(("circle.n%d.r%d" % (n, r), [(rha(500 + r * math.cos(2 * math.pi * i / n)), rha(-300 + r * math.sin(2 * math.pi * i / n))) for i in range(n)]))
    return out


def d2_elements():
    """(label, [commands], hints)  -- non-polygon elements and a few polygons, written into cell A (cell B exists)"""
    out = []
    out.append(("poly.rect", ["poly 1 2 0,0 0.003,0 0.003,0.002 0,0.002"], {}))
    out.append(("poly.ctrap", ["poly 4294967295 300 0,0 0.012,0 0.007,0.005 0,0.005"], {}))
    out.append(("poly.general", ["poly 0 0 0,0 0.005,0.001 0.002,0.007"], {}))
    out.append(("poly.offgrid", ["poly 1 0 0.0004,0.0006 0.0054,0.0016 0.0021,0.0074"], {}))
    lines = {"h2": [(0, 0), (5000, 0)], "L": [(0, 0), (5000, 0), (5000, 3000)], "Z": [(0, 0), (4000, 0), (4000, 3000), (9000, 3000)], "diag": [(0, 0), (3000, 4000)],
             "vdown": [(1000, 1000), (1000, -5000)], "oct": [(0, 0), (2000, 2000), (2000, 5000)]}
    for ln, pts in lines.items():
        for en, ext in (("flush", (0, 0)), ("half", (0, 0)), ("ext", (0.1, 0.2)), ("ext", (-0.05, 0)), ("ext", (0.1, 0)), ("ext", (0, 0))):
            for hw in ((0.1, 0) if ln in ("h2", "L") else (0.1,)):
                out.append(("fpath.%s.%s%s.hw%g" % (ln, en, "" if en != "ext" else "(%g,%g)" % ext, hw),
                            ["fpath 1 1 %d %s 1 2 3 %s 0 %s %s %s" % (len(pts), " ".join(pt(p) for p in pts), fnum(hw), en, fnum(ext[0]), fnum(ext[1]))], {}))
    out.append(("fpath.2el", ["fpath 1 1 2 0,0 5,0 2 1 0 0.1 0 flush 0 0 2 0 0.2 0 half 0 0"], {}))
    for ln in ("h2", "L", "diag"):
        pts = lines[ln]
        for en, ext in (("flush", (0, 0)), ("half", (0, 0)), ("ext", (0.1, 0.3))):
            out.append(("rpath.%s.%s" % (ln, en), ["rpath 1 1 %d %s 1 2 3 0.2 0 %s %s %s" % (len(pts), " ".join(pt(p) for p in pts), en, fnum(ext[0]), fnum(ext[1]))],
                        {"rpath_points": [pts]}))
    out.append(("label", ["label 3 4 0.001,-0.002 6869"], {}))
    out.append(("label.space", ["label 0 0 0,0 612062"], {}))
    out.append(("label.long", ["label 4294967295 4294967295 2147483.648,-2147483.648 " + (b"L" * 40).hex()], {}))
    out.append(("label.xform", ["label 1 1 0.001,0.001 7478 4 0.5 2 1"], {}))
    rots = [("0", 0.0), ("90", 0.5 * math.pi), ("180", math.pi), ("270", 1.5 * math.pi), ("-90", -0.5 * math.pi), ("-180", -math.pi), ("30", math.pi / 6), ("360", 2 * math.pi), ("450", 2.5 * math.pi)]
    for rn, r in rots:
        for mag in (1, 2, 0.5):
            for xr in (0, 1):
                if mag != 1 and rn not in ("0", "90", "30"):
                    continue
                out.append(("ref.r%s.m%g.x%d" % (rn, mag, xr), ["ref B 0.004,-0.003 %s %s %d" % (fnum(r), fnum(mag), xr)], {}))
    out.append(("refname.absent", ["refname ABSENT 0.001,0.001 0 1 0"], {"absent": ["ABSENT"]}))
    out.append(("refname.present", ["refname B 0.001,0.001 0 1 0"], {}))
    out.append(("ref.outside.pointer", ["ref X 0.001,0.001 0 1 0"], {"absent": ["X"], "outside_pointer": True}))
    return out


def d2_job(case, path):
    return "write %s %d %d %s ; %s" % (path, case["level"], case["flags"], fnum(case["tol"]), " ; ".join(case["cmds"]))


class D2Space(Space):
    direction = "d2"


OPT_SMALL = [(0, 0x00, 0), (6, 0x00, 0), (6, 0x3F, 0), (0, 0x3F | 0x40, 1e-3), (6, 0x0F | 0x80, 1e-3)]


class D2Shapes(D2Space):
    name = "d2.shapes"

    def __init__(self):
        self.shapes = d2_shapes()

    def ngroups(self, tier):
        return len(self.shapes)

    def describe(self, tier):
        return ("%d polygons (rectangles/squares in all 8 vertex orders, the 26 compact-trapezoid shapes x 6 vertex orders, plain trapezoids both orientations x delta "
                "signs, near-misses, Manhattan/octangular/general polygons, 2^31 coordinates, inscribed n-gons) written under detection flags {none, rectangles, "
                "trapezoids, both} x level {0,6} x circle tolerance {0, 1e-3} + signatures%s") % (len(self.shapes), "; thorough: all 256 flag sets x levels {0,1,6,9}" if tier == "thorough" else "")

    def cases(self, g, tier):
        name, v = self.shapes[g]
        cmds = ["cell A", "poly 5 6 " + " ".join(pt(p) for p in v)]
        out = []
        ctol = {"circle.n64.r10000": 0.05, "circle.n100.r250000": 0.5, "circle.n16.r2000": 0.05}.get(name, 1e-3)  # large enough for grid-rounded vertices
        if tier == "thorough":
            opts = [(lvl, fl, tol) for fl in range(256) for lvl in (0, 1, 6, 9) for tol in ((0, ctol) if name.startswith("circle") else (0,))]
        else:
            opts = [(lvl, fl, tol) for fl in (0x00, 0x10, 0x20, 0x30) for lvl in (0, 6) for tol in (0, ctol)] + [(6, 0x3F | 0x40, ctol), (0, 0x3F | 0x80, 0)]
        for lvl, fl, tol in opts:
            out.append({"cmds": cmds, "level": lvl, "flags": fl, "tol": tol, "hints": {}, "label": {"shape": name, "level": lvl, "flags": fl, "tol": tol}})
        return out


class D2Elements(D2Space):
    name = "d2.elements"

    def __init__(self):
        self.els = d2_elements()

    def ngroups(self, tier):
        return len(self.els)

    def describe(self, tier):
        return ("%d elements (simple FlexPaths 6 centre lines x flush/half-width/extended ends incl. negative and half-width-valued extensions, zero width, two-element; "
                "simple RobustPaths; labels; references by pointer x 9 rotations x magnification x reflection, by name to an absent cell, by name to a present cell, by "
                "pointer to a cell outside the library) x %d repetitions (all five kinds, negative spacings and coordinates) x %d property lists x %d option sets") % (
                    len(self.els), len(D2_REPS), len(D2_PROPS), len(OPT_SMALL) if tier == "quick" else 20)

    def cases(self, g, tier):
        name, ecmds, hints = self.els[g]
        out = []
        opts = OPT_SMALL if tier == "quick" else [(lvl, fl, 0) for lvl in (0, 6) for fl in (0, 0x0F, 0x30, 0x3F, 0x01, 0x02, 0x04, 0x08, 0x3F | 0x40, 0x3F | 0x80)]
        for rn, rcmd in D2_REPS:
            for pn, pcmds in D2_PROPS:
                if tier == "quick" and pn == "samename" and rn not in ("none", "exx"):
                    continue
                cmds = ["libprop lp s:6c6962", "cell A"] + ecmds + ([rcmd] if rcmd else []) + pcmds + ["cell B", "poly 0 0 0,0 0.004,0 0.004,0.002", "xcell X", "poly 9 9 0,0 1,0 1,1"]
                for lvl, fl, tol in opts:
                    out.append({"cmds": cmds, "level": lvl, "flags": fl, "tol": tol, "hints": hints, "label": {"element": name, "rep": rn, "props": pn, "level": lvl, "flags": fl}})
        return out


def d2_libraries():
    """Hierarchical libraries for the file-level facts: (label, cmds, hints)"""
    libs = []
    leaf = ["cell LEAF", "poly 1 0 0,0 0.004,0 0.004,0.002 0,0.002", "fpath 1 1 3 0,0 0.006,0 0.006,0.004 1 2 0 0.001 0 ext 0.002 0.004", "prop pathprop s:76616c7565"]
    mid = ["cell MID", "ref LEAF 0.01,0 %s 1 0" % fnum(0.5 * math.pi), "rep rect 2 2 0.02 0.03", "ref LEAF -0.01,0.005 0 2 1", "label 1 1 0.05,0.05 6d6964", "poly 2 0 0,0 0.001,0.001 0,0.002"]
    top = ["cell TOP", "ref MID 0,0 %s 1 0" % fnum(math.pi), "ref LEAF 0.1,0.1 %s 1.5 0" % fnum(math.pi / 6), "rep ex 2 0.01,0.02 -0.03,0.01", "prop refprop u:7",
           "label 0 0 -0.2,0.3 " + b"a long label text with spaces".hex(), "prop lprop i:-9"]
    libs.append(("3level", ["libprop libname s:" + b"value with space".hex()] + leaf + mid + top, {}))
    libs.append(("3level.reordered", top + leaf + mid, {}))
    libs.append(("two_tops_empty", ["cell E", "cell T1", "ref E 0,0 0 1 0", "poly 0 0 0,0 0.001,0 0,0.001", "cell T2", "poly 1 1 0,0 0.003,0 0.003,0.003 0,0.003", "rep reg 2 2 0.01 0.002 -0.002 0.01"], {}))
    libs.append(("byname.present", ["cell A", "refname B 0.001,0.002 0 1 0", "cell B", "poly 0 0 0,0 0.002,0 0.002,0.001"], {}))
    libs.append(("byname.absent", ["cell A", "refname GHOSTCELL_WITH_A_LONG_NAME_OVER_28_CHARS 0.001,0.002 0 1 0", "poly 0 0 0,0 0.002,0 0.002,0.001"], {"absent": ["GHOSTCELL_WITH_A_LONG_NAME_OVER_28_CHARS"]}))
    libs.append(("pointer.outside", ["cell A", "ref X 0.001,0.002 0 1 0", "poly 0 0 0,0 0.002,0 0.002,0.001", "xcell X", "poly 1 1 0,0 0.1,0 0.1,0.1"], {"absent": ["X"], "outside_pointer": True}))
    long_ptr = "NOT_ADDED_CELL_WITH_A_LONG_NAME_40_CHARS"
    long_nam = "ABSENT_CELL_REFERRED_BY_NAME_40_CHARS_XY"
    assert len(long_ptr) == 40 and len(long_nam) == 40
    body = ["poly 0 0 0,0 0.002,0 0.002,0.001"]
    libs.append(("outside.long.pointer", ["cell A", "ref %s 0.001,0.002 0 1 0" % long_ptr] + body + ["xcell " + long_ptr, "poly 1 1 0,0 0.1,0 0.1,0.1"],
                 {"absent": [long_ptr], "outside_pointer": True}))
    libs.append(("outside.long.pointer+short.pointer", ["cell A", "ref %s 0.001,0.002 0 1 0" % long_ptr, "ref X2 0,0 0 1 0"] + body + ["xcell " + long_ptr, "poly 1 1 0,0 0.1,0 0.1,0.1", "xcell X2"],
                 {"absent": [long_ptr, "X2"], "outside_pointer": True}))
    libs.append(("outside.short.pointer+long.pointer", ["cell A", "ref X2 0,0 0 1 0", "ref %s 0.001,0.002 0 1 0" % long_ptr] + body + ["xcell " + long_ptr, "xcell X2", "poly 1 1 0,0 0.1,0 0.1,0.1"],
                 {"absent": [long_ptr, "X2"], "outside_pointer": True}))
    libs.append(("outside.long.name+short.name", ["cell A", "refname %s 0.001,0.002 0 1 0" % long_nam, "refname Y2 0,0 0 1 0"] + body, {"absent": [long_nam, "Y2"]}))
    libs.append(("outside.long.pointer+short.name", ["cell A", "ref %s 0.001,0.002 0 1 0" % long_ptr, "refname Y2 0,0 0 1 0"] + body + ["xcell " + long_ptr],
                 {"absent": [long_ptr, "Y2"], "outside_pointer": True}))
    libs.append(("outside.long.name+short.pointer", ["cell A", "refname %s 0.001,0.002 0 1 0" % long_nam, "ref X2 0,0 0 1 0", "cell B", "ref X2 0.003,0 0 1 0"] + body + ["xcell X2"],
                 {"absent": [long_nam, "X2"], "outside_pointer": True}))
    libs.append(("unit.2000", ["lib L2 1e-06 5e-10"] + leaf + ["cell T", "ref LEAF 0.0005,0.0015 0 1 1", "rep exy 2 0.01 0.0205"], {}))
    libs.append(("unit.mm", ["lib LMM 0.001 1e-06", "cell A", "poly 0 0 0,0 2,0 2,1", "label 0 0 1,1 6d6d", "cell T", "ref A 5,5 %s 1 0" % fnum(0.5 * math.pi)], {}))
    libs.append(("many.polys", ["cell A"] + ["poly %d %d %s" % (i, i % 3, " ".join(pt((x + 10 * i, y)) for x, y in [(0, 0), (5 + i, 0), (5 + i, 3), (0, 3)][:4])) for i in range(12)]
                 + ["poly 7 7 " + " ".join(pt((rha(100 * math.cos(2 * math.pi * k / 40)), rha(100 * math.sin(2 * math.pi * k / 40)))) for k in range(40))], {}))
    libs.append(("labels.only", ["cell A", "label 0 0 0.001,0.001 78", "label 0 0 -0.004,0.003 78", "rep rect 2 2 0.01 0.01", "label 1 0 0,0 7979"], {}))
    libs.append(("dup.path.points", ["cell A", "fpath 1 1 4 0,0 0.005,0 0.005,0 0.005,0.003 1 2 0 0.001 0 flush 0 0"], {}))
    return libs


class D2Options(D2Space):
    name = "d2.options"

    def __init__(self):
        self.libs = d2_libraries()

    def ngroups(self, tier):
        return len(self.libs)

    def describe(self, tier):
        return ("%d hierarchical libraries (3 levels with rotated/reflected/magnified references and repetitions, two top cells + empty cell, by-name reference to a present "
                "and to an absent cell, pointer to a cell outside the library, 2000 steps/um, mm units, labels only, duplicate path points) x all 256 flag sets x level %s") % (
                    len(self.libs), "{0,6}" if tier == "quick" else "{0,1,6,9} x circle tolerance {0,1e-3}")

    def cases(self, g, tier):
        name, cmds, hints = self.libs[g]
        out = []
        for fl in range(256):
            for lvl in ((0, 6) if tier == "quick" else (0, 1, 6, 9)):
                for tol in ((0,) if tier == "quick" else (0, 1e-3)):
                    out.append({"cmds": cmds, "level": lvl, "flags": fl, "tol": tol, "hints": hints, "label": {"library": name, "level": lvl, "flags": fl, "tol": tol}})
        return out


def d2_values(n):
    kinds = ["u:%d", "i:-%d", "r:0.5", "s:6162", "s:612062", "s:00ff%02x", "r:%d", "u:18446744073709551615"]
    out = []
    for i in range(n):
        k = kinds[i % len(kinds)]
        out.append(k % (i % 200) if "%" in k else k)
    return " ".join(out)


class D2PropCounts(D2Space):
    """Value counts around the 4-bit UUUU field of the PROPERTY info byte (15 = explicit count follows)."""
    name = "d2.propcounts"
    COUNTS = (0, 1, 13, 14, 15, 16, 17, 40, 130)
    TARGETS = ("library", "cell", "polygon", "flexpath", "label", "reference")

    def ngroups(self, tier):
        return len(self.COUNTS)

    def describe(self, tier):
        return ("property lists with %s values of mixed types (unsigned, signed, real, text, text with blanks, binary) on the library, a cell, a polygon, a simple "
                "path, a label and a reference, alone and followed by a second property, x %d option sets") % (list(self.COUNTS), len(OPT_SMALL) if tier == "quick" else 12)

    def cases(self, g, tier):
        n = self.COUNTS[g]
        out = []
        opts = OPT_SMALL if tier == "quick" else [(lvl, fl, 0) for lvl in (0, 6, 9) for fl in (0, 0x0F, 0x3F | 0x40, 0x3F | 0x80)]
        big = "big " + d2_values(n)
        for tgt in self.TARGETS:
            for second in (0, 1):
                pc = ["prop " + big] + (["prop after u:7"] if second else [])
                cmds = []
                if tgt == "library":
                    cmds += ["lib" + c for c in pc]
                cmds.append("cell A")
                if tgt == "cell":
                    cmds += pc
                for kind, ec in (("polygon", "poly 1 2 0,0 0.004,0 0.004,0.002"), ("flexpath", "fpath 1 1 2 0,0 5,0 1 2 0 0.1 0 flush 0 0"), ("label", "label 3 4 0.001,0.001 6869"),
                                 ("reference", "ref B 0.004,-0.003 0 1 0")):
                    cmds.append(ec)
                    if tgt == kind:
                        cmds += pc
                cmds += ["cell B", "poly 0 0 0,0 0.004,0 0.004,0.002"]
                for lvl, fl, tol in opts:
                    out.append({"cmds": cmds, "level": lvl, "flags": fl, "tol": tol, "hints": {}, "label": {"target": tgt, "values": n, "second_property": second, "level": lvl, "flags": fl}})
        return out


def affine_of(op):
    """-> (point map, |magnification|) of one transformation op, computed here (exact for quarter turns)."""
    kind = op[0]
    if kind == "none":
        return (lambda p: p), 1.0
    if kind == "scale":
        m, (cx, cy) = op[1], op[2]
        return (lambda p: (cx + (p[0] - cx) * m, cy + (p[1] - cy) * m)), abs(m)
    if kind == "mirror":
        (x0, y0), (x1, y1) = op[1], op[2]
        dx, dy = x1 - x0, y1 - y0
        n2 = dx * dx + dy * dy

        def mir(p):
            t = ((p[0] - x0) * dx + (p[1] - y0) * dy) / n2
            fx, fy = x0 + t * dx, y0 + t * dy
            return (2 * fx - p[0], 2 * fy - p[1])
        return mir, 1.0

    def cs(a):
        q = a / (math.pi / 2)
        if abs(q - round(q)) < 1e-12:
            return [(1, 0), (0, 1), (-1, 0), (0, -1)][int(round(q)) % 4]
        return math.cos(a), math.sin(a)
    if kind == "rotate":
        (c, s_), (cx, cy) = cs(op[1]), op[2]
        return (lambda p: (cx + (p[0] - cx) * c - (p[1] - cy) * s_, cy + (p[0] - cx) * s_ + (p[1] - cy) * c)), 1.0
    if kind == "transform":
        m, xr, (c, s_), (ox, oy) = op[1], op[2], cs(op[3]), op[4]

        def tr(p):
            x, y = p[0] * m, p[1] * m * (-1 if xr else 1)
            return (x * c - y * s_ + ox, x * s_ + y * c + oy)
        return tr, abs(m)
    raise ValueError(kind)


def xf_cmd(op):
    k = op[0]
    if k == "scale":
        return "xf scale %s %s,%s" % (fnum(op[1]), fnum(op[2][0]), fnum(op[2][1]))
    if k == "mirror":
        return "xf mirror %s,%s %s,%s" % (fnum(op[1][0]), fnum(op[1][1]), fnum(op[2][0]), fnum(op[2][1]))
    if k == "rotate":
        return "xf rotate %s %s,%s" % (fnum(op[1]), fnum(op[2][0]), fnum(op[2][1]))
    if k == "transform":
        return "xf transform %s %d %s %s,%s" % (fnum(op[1]), int(op[2]), fnum(op[3]), fnum(op[4][0]), fnum(op[4][1]))
    return None


XF_OPS = [("none",), ("scale", 2.0, (1.0, 2.0)), ("scale", 0.5, (1.0, 2.0)), ("scale", 3.0, (0.0, 0.0)), ("mirror", (1.0, 0.0), (1.0, 5.0)), ("mirror", (0.0, 0.0), (2.0, 2.0)),
          ("rotate", 0.5 * math.pi, (1.0, 2.0)), ("transform", 2.0, False, 0.5 * math.pi, (3.0, -1.0)), ("transform", 2.0, True, 0.5 * math.pi, (3.0, -1.0)),
          ("transform", 0.5, True, 0.0, (0.0, 0.0)), ("transform", 1.0, True, math.pi, (-2.0, 4.0))]


class D2Transforms(D2Space):
    """Elements with a transformation history before the save; the saved library is this harness's own model: construction
    parameters mapped through the affine map (centre line = spine shifted by the offset to the left of the direction of travel;
    half width x |m| only with scale_width; extensions x |m|)."""
    name = "d2.transforms"
    LINES = {"h2": [(0.0, 0.0), (5.0, 0.0)], "diag": [(0.0, 0.0), (3.0, 4.0)], "L": [(0.0, 0.0), (6.0, 0.0), (6.0, 4.0)]}
    ELCFG = {"1el": [(0.1, 0.0)], "1el.off": [(0.1, 0.5)], "2el": [(0.1, 0.5), (0.2, -0.5)]}
    ENDS = {"flush": None, "half": None, "ext": (0.1, 0.3)}

    def __init__(self):
        self.items = []
        for kind in ("fpath", "rpath"):
            for ln, pts in self.LINES.items():
                for cn, cfg in self.ELCFG.items():
                    if ln == "L" and cn != "1el":
                        continue
                    for en in self.ENDS:
                        for sw in (1, 0):
                            self.items.append((kind, ln, cn, en, sw))
        self.items += [("poly",), ("label",), ("ref",)]

    def ngroups(self, tier):
        return len(self.items)

    def describe(self, tier):
        return ("simple FlexPaths and simple RobustPaths (straight, diagonal, L-shaped centre lines; 1 element, 1 element with offset, 2 elements with opposite offsets; "
                "Flush/HalfWidth/Extended ends; scale_width true/false) and a polygon, a label and a reference, each after one of %d transformation histories (none, "
                "scale 2 / 0.5 / 3, two mirrors, rotate pi/2, transform with and without x-reflection)%s x 2 option sets") % (
                    len(XF_OPS), " and every ordered pair of them" if tier == "thorough" else "")

    def cases(self, g, tier):
        it = self.items[g]
        out = []
        seqs = [[op] for op in XF_OPS]
        if tier == "thorough":
            seqs += [[a, b2] for a in XF_OPS[1:] for b2 in XF_OPS[1:]]
        for seq in seqs:
            if it[0] in ("label", "ref") and any(op[0] not in ("none", "transform") for op in seq):
                continue
            xcmds = [x for x in (xf_cmd(op) for op in seq) if x]
            hints = {}
            if it[0] in ("fpath", "rpath"):
                kind, ln, cn, en, sw = it
                pts, cfg, ext = self.LINES[ln], self.ELCFG[cn], self.ENDS[en]
                eu, ev = ext or (0.0, 0.0)
                elc = " ".join("%d %d %s %s %s %s %s" % (1 + k, 2, fnum(hw if kind == "fpath" else 2 * hw), fnum(off), en, fnum(eu), fnum(ev)) for k, (hw, off) in enumerate(cfg))
                ecmd = "%s 1 %d %d %s %d %s" % (kind, sw, len(pts), " ".join("%s,%s" % (fnum(x), fnum(y)) for x, y in pts), len(cfg), elc)
                mag = 1.0
                maps = []
                for op in seq:
                    f, m = affine_of(op)
                    maps.append(f)
                    mag *= m
                exp = []
                for k, (hw, off) in enumerate(cfg):
                    cl = list(pts)
                    if off:
                        (x0, y0), (x1, y1) = pts
                        L = math.hypot(x1 - x0, y1 - y0)
                        nx, ny = -(y1 - y0) / L, (x1 - x0) / L
                        cl = [(x + off * nx, y + off * ny) for x, y in pts]
                    for f in maps:
                        cl = [f(p) for p in cl]
                    hw2 = hw * mag if sw else hw
                    R = lambda v: rha(v * 1000.0)
                    e2 = {"flush": (0, 0), "half": (R(hw2), R(hw2)), "ext": (R(eu * mag), R(ev * mag))}[en]
                    exp.append({"layer": 1 + k, "datatype": 2, "hw": R(hw2), "ext": e2, "points": [(R(x), R(y)) for x, y in cl], "src": "robustpath" if kind == "rpath" else "flexpath",
                                "offsets": [(0, 0)], "props": []})
                hints = {"expect_paths": {"A": exp}}
                label = {"element": "%s.%s.%s.%s" % (kind, ln, cn, en), "scale_width": sw}
            elif it[0] == "poly":
                ecmd, label = "poly 1 2 0,0 4,0 4,2 1,3", {"element": "polygon"}
            elif it[0] == "label":
                ecmd, label = "label 3 4 1,-2 6869", {"element": "label"}
            else:
                ecmd, label = "ref B 4,-3 0 1 0", {"element": "reference"}
            label["history"] = " ; ".join(xcmds) or "none"
            cmds = ["cell A", ecmd] + xcmds + ["cell B", "poly 0 0 0,0 0.004,0 0.004,0.002"]
            for lvl, fl in ((0, 0), (6, 0x3F)):
                out.append({"cmds": cmds, "level": lvl, "flags": fl, "tol": 0, "hints": hints, "label": dict(label, level=lvl, flags=fl)})
        return out


def coord_orders(vals):
    """Deterministic unsorted arrangements of a sorted list (inputs that drive a quicksort-family sort through its partitions)."""
    n = len(vals)
    k = n // 2
    out = {"sorted": list(vals), "reversed": vals[::-1], "rotated": vals[n // 3:] + vals[:n // 3]}
    inter = []
    for i in range((n + 1) // 2):
        inter.append(vals[i])
        if n - 1 - i != i:
            inter.append(vals[n - 1 - i])
    out["interleaved"] = inter
    out["organ_pipe"] = vals[0::2] + vals[1::2][::-1]
    out["valley"] = vals[1::2][::-1] + vals[0::2]
    step = next(st for st in (7, 11, 13, 17, 19, 23) if math.gcd(st, n) == 1)
    out["stride"] = [vals[(i * step + 3) % n] for i in range(n)]
    # median-of-3 killer (Musser): 1, k+1, 3, k+3, ... then 2, 4, 6, ...
    idx = [(i if i % 2 == 1 else k + i - 1) for i in range(1, k + 1)] + [2 * j for j in range(1, k + 1)]
    idx += list(range(2 * k + 1, n + 1))
    out["mo3_killer"] = [vals[min(j, n) - 1] for j in idx]
    out["duplicates"] = [vals[(i * 5) % 4 * (n // 4)] for i in range(n)]
    out["last_smallest"] = vals[1:] + vals[:1]
    return out


class D2SortedReps(D2Space):
    """ExplicitX / ExplicitY coordinate lists longer than 16 entries in unsorted order: the writer sorts a copy (its only use of
    sort()) before emitting repetition type 4/6 spaces (or type 10 when a coordinate is negative)."""
    name = "d2.sortedreps"
    LENGTHS = (2, 16, 17, 18, 24, 33, 40, 64, 100)
    CARRIERS = {"polygon": "poly 1 2 0,0 0.004,0 0.004,0.002", "flexpath": "fpath 1 1 2 0,0 5,0 1 2 0 0.1 0 flush 0 0", "label": "label 3 4 0.001,0.001 6869",
                "reference": "ref B 0.004,-0.003 0 1 0"}

    def __init__(self):
        self.groups = [(n, sign) for n in self.LENGTHS for sign in ("nonneg", "mixed")]

    def ngroups(self, tier):
        return len(self.groups)

    def describe(self, tier):
        return ("ExplicitX and ExplicitY repetitions with %s coordinates, non-negative and with negative entries, in 10 orders (sorted, reversed, rotated, interleaved low/high, "
                "organ pipe, valley, stride permutation, median-of-3 killer, many duplicates, smallest last) on a polygon, a simple path, a label and a reference x %s") % (
                    list(self.LENGTHS), "level 0 / level 6 with all standard properties" if tier == "quick" else "4 option sets")

    def cases(self, g, tier):
        n, sign = self.groups[g]
        vals = [3 * (i + 1) + (i * i) % 3 - (3 * n // 2 if sign == "mixed" else 0) for i in range(n)]
        vals.sort()
        out = []
        opts = ((0, 0), (6, 0x3F)) if tier == "quick" else ((0, 0), (6, 0x3F), (9, 0x0F | 0x40), (1, 0x30))
        for oname, arr in coord_orders(vals).items():
            for axis in ("exx", "exy"):
                for ci, (cname, ccmd) in enumerate(self.CARRIERS.items()):
                    rcmd = "rep %s %d %s" % (axis, len(arr), " ".join(fnum(v / 1000) for v in arr))
                    cmds = ["cell A", ccmd, rcmd, "cell B", "poly 0 0 0,0 0.004,0 0.004,0.002"]
                    for oi, (lvl, fl) in enumerate(opts):
                        if tier == "quick" and oi == 1 and ci != (n + len(oname)) % 4:
                            continue  # second option set on one carrier per (length, order)
                        out.append({"cmds": cmds, "level": lvl, "flags": fl, "tol": 0, "hints": {},
                                    "label": {"carrier": cname, "axis": axis, "n": n, "order": oname, "sign": sign, "level": lvl, "flags": fl}})
        return out


def collinear_variants(base):
    """base polygon -> variants with 1 or 2 redundant collinear vertices on one edge, and 1 on every edge."""
    n = len(base)
    out = [("plain", list(base))]
    for e in range(n):
        (x0, y0), (x1, y1) = base[e], base[(e + 1) % n]
        for k in (1, 2):
            extra = [(x0 + (x1 - x0) * j // (k + 1), y0 + (y1 - y0) * j // (k + 1)) for j in range(1, k + 1)]
            out.append(("e%d+%d" % (e, k), base[:e + 1] + extra + base[e + 1:]))
    allv = []
    for e in range(n):
        (x0, y0), (x1, y1) = base[e], base[(e + 1) % n]
        allv += [base[e], ((x0 + x1) // 2, (y0 + y1) // 2)]
    out.append(("all+1", allv))
    return out


class D2Collinear(D2Space):
    """Rectilinear and octangular polygons with redundant collinear vertices in every position relative to the start vertex
    (closing edge collinear with the last explicit edge / with the first explicit edge / neither; even and odd vertex counts)."""
    name = "d2.collinear"
    BASES = {
        "rect": [(0, 0), (8000, 0), (8000, 4000), (0, 4000)],
        "L": [(0, 0), (8000, 0), (8000, 2000), (2000, 2000), (2000, 6000), (0, 6000)],
        "T": [(0, 0), (6000, 0), (6000, 2000), (4000, 2000), (4000, 6000), (2000, 6000), (2000, 2000), (0, 2000)],
        "stair": [(0, 0), (6000, 0), (6000, 2000), (4000, 2000), (4000, 4000), (2000, 4000), (2000, 6000), (0, 6000)],
        "octagon": [(2000, 0), (6000, 0), (8000, 2000), (8000, 6000), (6000, 8000), (2000, 8000), (0, 6000), (0, 2000)],
        "diamond": [(4000, 0), (8000, 4000), (4000, 8000), (0, 4000)],
        "arrow45": [(0, 0), (4000, 0), (8000, 4000), (4000, 8000), (0, 8000), (4000, 4000)],
    }

    def __init__(self):
        self.groups = []
        for bn, base in self.BASES.items():
            for vn, v in collinear_variants(base):
                self.groups.append((bn, vn, v))

    def ngroups(self, tier):
        return len(self.groups)

    def describe(self, tier):
        return ("%d polygons = {rectangle, L, T, staircase, octagon, diamond, 45-degree arrow} x {plain, 1 or 2 redundant collinear vertices on each single edge, 1 on every "
                "edge}, each in every cyclic rotation of the start vertex and both orientations (so the implicit closing edge is collinear with the last explicit edge, with "
                "the first, or with neither; even and odd counts; horizontal-first and vertical-first) x %s; vertices compared exactly (no dropping)") % (
                    len(self.groups), "2 option sets" if tier == "quick" else "6 option sets")

    def cases(self, g, tier):
        bn, vn, v = self.groups[g]
        out = []
        opts = ((0, 0x00), (6, 0x30)) if tier == "quick" else ((0, 0), (6, 0x30), (6, 0x10), (0, 0x20), (9, 0x3F), (1, 0x0F | 0x40))
        for rot in range(len(v)):
            for rev in (0, 1):
                w = v[rot:] + v[:rot]
                if rev:
                    w = w[::-1]
                w = [(x - 1000, y + 500) for x, y in w]
                cmds = ["cell A", "poly 5 6 " + " ".join(pt(q) for q in w)]
                for lvl, fl in opts:
                    out.append({"cmds": cmds, "level": lvl, "flags": fl, "tol": 0, "hints": {},
                                "label": {"shape": bn, "variant": vn, "rotation": rot, "reversed": rev, "vertices": len(w), "level": lvl, "flags": fl}})
        return out


class D2Ties(D2Space):
    """Exact scalings (unit/precision a power of two) with coordinates exactly half way between grid points, both signs and
    both parities: every coordinate of the file must be the saved value rounded half away from zero -- ONE rule for polygon
    vertices, path start points and later vertices, label and reference origins and repetition vectors, so that elements at
    the same position decode to the same grid point."""
    name = "d2.ties"
    SCALES = [("1e-6/0.5e-6", "1e-06", "5e-07", 2.0), ("1/1", "1", "1", 1.0), ("1/0.5", "1", "0.5", 2.0), ("2^-10/2^-20", repr(2.0 ** -10), repr(2.0 ** -20), 1024.0)]
    POS = [(0.5, 2.5), (-1.5, -3.5), (2.5, -1.5), (-0.5, 1.5), (3.5, 0.5), (-2.5, -0.5)]   # grid units: odd and even halves of both signs
    KINDS = ("polygon", "polygon.general", "flexpath", "robustpath", "label", "reference", "all")

    def __init__(self):
        self.groups = [(sc, k) for sc in self.SCALES for k in self.KINDS]

    def ngroups(self, tier):
        return len(self.groups)

    def describe(self, tier):
        return ("unit/precision in {1e-6/0.5e-6, 1/1, 1/0.5, 2^-10/2^-20} (exact scalings 2, 1, 2, 1024) x {polygon (rectangle-like and general), simple FlexPath, simple "
                "RobustPath (start point on a tie, later vertices on and off ties), label, reference, all of them at one position} at %d positions whose grid coordinates are "
                "k+0.5 with both signs and parities, repetition vectors on ties x 3 option sets (no S_BOUNDING_BOX: a box of unrounded geometry is not a box of the file)") % len(self.POS)

    def cases(self, g, tier):
        (sname, unit, prec, sc), kind = self.groups[g]
        out = []
        U = lambda gv: fnum(gv / sc)                     # grid value -> user-unit double (exact: sc is a power of two)
        PT = lambda q: "%s,%s" % (U(q[0]), U(q[1]))
        R = lambda gv: rha(gv)
        for pi, (gx, gy) in enumerate(self.POS):
            cmds = ["lib TIES %s %s" % (unit, prec), "cell A"]
            hints = {"rpath_points": []}
            kinds = self.KINDS[:-1] if kind == "all" else (kind,)
            for kd in kinds:
                if kd == "polygon":
                    cmds.append("poly 1 0 " + " ".join(PT(q) for q in [(gx, gy), (gx + 5.5, gy), (gx + 5.5, gy + 4.5), (gx, gy + 4.5)]))
                    cmds.append("rep rect 2 2 %s %s" % (U(7.5), U(8.5)))
                elif kd == "polygon.general":
                    cmds.append("poly 2 0 " + " ".join(PT(q) for q in [(gx, gy), (gx + 6, gy + 1), (gx + 2.5, gy + 7)]))
                    # explicit lists are written as first offset + differences: keep one sign per axis so that rounding each offset
                    # and rounding first-plus-integer-differences agree (half away from zero is not translation invariant across 0)
                    cmds.append("rep ex 3 %s %s %s" % (PT((1.5, 2.5)), PT((3.5, 0.5)), PT((4.5, 4.5))))
                elif kd == "flexpath":
                    pts = [(gx, gy), (gx + 5.5, gy), (gx + 5.5, gy + 4.5), (gx + 9, gy + 4.5)]
                    cmds.append("fpath 1 1 %d %s 1 3 0 %s 0 ext %s %s" % (len(pts), " ".join(PT(q) for q in pts), U(2.5), U(1.5), U(0.5)))
                    cmds.append("rep exx 2 %s %s" % (U(2.5), U(6.5)))
                elif kd == "robustpath":
                    pts = [(gx, gy), (gx + 5.5, gy), (gx + 5.5, gy + 4.5)]
                    cmds.append("rpath 1 1 %d %s 1 4 0 %s 0 flush 0 0" % (len(pts), " ".join(PT(q) for q in pts), U(3.0)))
                    hints["rpath_points"].append([(R(x), R(y)) for x, y in pts])
                elif kd == "label":
                    cmds.append("label 5 0 %s 7469" % PT((gx, gy)))
                    cmds.append("rep reg 2 2 %s %s %s %s" % (U(2.5), U(-0.5), U(-1.5), U(3.5)))
                elif kd == "reference":
                    cmds.append("ref B %s 0 1 0" % PT((gx, gy)))
                    cmds.append("rep exy 2 %s %s" % (U(-1.5), U(-4.5)))
            cmds += ["cell B", "poly 0 0 %s" % " ".join(PT(q) for q in [(0, 0), (4, 0), (4, 2)])]
            for lvl, fl in ((0, 0x00), (6, 0x3B), (6, 0x30 | 0x40)):
                out.append({"cmds": cmds, "level": lvl, "flags": fl, "tol": 0, "hints": hints,
                            "label": {"scaling": sname, "element": kind, "position": "%g,%g" % (gx, gy), "level": lvl, "flags": fl}})
        return out


class D2History(D2Space):
    """Save histories on ONE Library object: every written file must be true about itself."""
    name = "d2.history"
    LIBS = [
        ("three_tops", ["cell ALPHA", "poly 1 0 0,0 0.004,0 0.004,0.002", "cell BETA", "poly 2 0 0,0 0.002,0.002 0,0.004", "label 1 1 0.001,0.001 6265",
                        "cell GAMMA", "fpath 1 1 2 0,0 5,0 1 3 0 0.1 0 half 0 0"], ("ALPHA", "BETA", "GAMMA")),
        ("two_tops_child", ["libprop user s:6b656570", "cell T1", "ref C 0.01,0 0 1 0", "poly 0 0 0,0 0.003,0 0,0.003", "cell T2", "poly 1 1 0,0 0.005,0 0.005,0.005 0,0.005",
                            "prop keep u:3", "cell C", "poly 2 2 0,0 0.002,0 0.002,0.001 0,0.001", "rep rect 2 2 0.004 0.004"], ("T1", "T2", "C")),
        ("two_tops_chain", ["cell T1", "ref MID 0,0 %s 1 0" % fnum(0.5 * math.pi), "cell T2", "ref LEAF 0.02,0.02 0 2 1", "label 0 0 0,0 7432",
                            "cell MID", "ref LEAF 0.001,0.002 0 1 0", "rep exx 2 0.01 0.03", "cell LEAF", "poly 0 0 0,0 0.004,0 0.004,0.002 0,0.002"], ("T1", "T2", "LEAF")),
    ]

    def alphabet(self, lib, tier):
        _, _, (a, b2, c) = lib
        flags = (0x00, 0x02, 0x0F, 0x06, 0x09) if tier == "quick" else (0x00, 0x01, 0x02, 0x04, 0x08, 0x0F, 0x06, 0x09, 0x0F | 0x40)
        ops = ["write %d %d" % (6 if k % 2 else 0, f) for k, f in enumerate(flags)]
        ops += ["addref %s %s 0.05,0.05" % (a, b2), "rmcell %s" % c, "reload"]
        return ops

    def histories(self, lib, tier):
        ops = self.alphabet(lib, tier)
        out = []
        for n in ((2, 3) if tier == "quick" else (2, 3, 4)):
            for h in itertools.product(range(len(ops)), repeat=n):
                names = [ops[k] for k in h]
                nw = sum(1 for o in names if o.startswith("write"))
                if nw == 0 or not names[-1].startswith("write"):
                    continue  # a history is judged through the files it writes: it must end with a save
                if names[0] == "reload" or any(names[k] == "reload" and not any(o.startswith("write") for o in names[:k]) for k in range(n)):
                    continue  # nothing to load yet
                if tier == "thorough" and n == 4 and nw > 3:
                    continue
                out.append(names)
        return out

    def ngroups(self, tier):
        return len(self.LIBS) * 8

    def describe(self, tier):
        return ("%d libraries with 2-3 top cells x every history of length %s over {write_oas with property-flag sets %s, add a reference that demotes a top cell, take a cell out "
                "of the library, read_oas the previous output and continue from it} that ends with a save (reload only after a save): every written file is decoded and its "
                "S_TOP_CELL / S_BOUNDING_BOX / S_CELL_OFFSET / S_MAX_* / table offsets are checked against that file") % (
                    len(self.LIBS), "2-3" if tier == "quick" else "2-4", "{0,2,15,6,9}" if tier == "quick" else "{0,1,2,4,8,15,6,9,15+CRC}")

    def cases(self, g, tier):
        lib = self.LIBS[g // 8]
        hs = self.histories(lib, tier)
        out = []
        for k, h in enumerate(hs):
            if k % 8 != g % 8:
                continue
            out.append({"cmds": lib[1], "ops": h, "tol": 0, "hints": {}, "label": {"library": lib[0], "history": " | ".join(h)}})
        return out


D2_SPACES = [D2Shapes, D2Collinear, D2Ties, D2Elements, D2PropCounts, D2Transforms, D2SortedReps, D2History, D2Options]


# ---------------------------------------------------------------------------- direction 2: model of the saved library
def dump_rep_offsets(rep, s):
    R = lambda v: rha(v * s)
    t = rep["type"]
    if t == "none":
        return [(0, 0)]
    if t == "rectangular":
        sx, sy = R(rep["spacing"][0]), R(rep["spacing"][1])
        return [(i * sx, j * sy) for i in range(rep["columns"]) for j in range(rep["rows"])]
    if t == "regular":
        v1, v2 = (R(rep["v1"][0]), R(rep["v1"][1])), (R(rep["v2"][0]), R(rep["v2"][1]))
        return [(i * v1[0] + j * v2[0], i * v1[1] + j * v2[1]) for i in range(rep["columns"]) for j in range(rep["rows"])]
    if t == "explicit":
        return [(0, 0)] + [(R(x), R(y)) for x, y in rep["offsets"]]
    if t == "explicit_x":
        return [(0, 0)] + [(R(c), 0) for c in rep["coords"]]
    if t == "explicit_y":
        return [(0, 0)] + [(0, R(c)) for c in rep["coords"]]
    raise ValueError(t)


def dedup_consecutive(pts):
    out = []
    for p in pts:
        if not out or out[-1] != p:
            out.append(p)
    return out


def drop_collinear(pts):
    out = []
    for p in pts:
        while len(out) >= 2:
            (ax, ay), (bx, by) = out[-2], out[-1]
            if (bx - ax) * (p[1] - by) - (by - ay) * (p[0] - bx) == 0 and (bx - ax) * (p[0] - bx) + (by - ay) * (p[1] - by) >= 0:
                out.pop()
            else:
                break
        out.append(p)
    return out


def seg_dist(p, a, b):
    ax, ay, bx, by = a[0], a[1], b[0], b[1]
    dx, dy = bx - ax, by - ay
    L2 = dx * dx + dy * dy
    if L2 == 0:
        return math.hypot(p[0] - ax, p[1] - ay)
    t = max(0.0, min(1.0, ((p[0] - ax) * dx + (p[1] - ay) * dy) / L2))
    return math.hypot(p[0] - (ax + t * dx), p[1] - (ay + t * dy))


def sampled_polyline_equal(file_pts, model_pts):
    """A RobustPath is written as its SAMPLED centre line rounded to the grid: the file polyline must have the model's end
    points exactly, contain every model corner (within 1 grid step, in order) and every other file vertex must be the rounding of
    a point on the model segment it lies on (distance <= 0.71 grid steps).  None if equal, else a reason."""
    M = drop_collinear(list(model_pts))
    F = list(file_pts)
    if not F or F[0] != M[0] or F[-1] != M[-1]:
        return "end points differ"
    j = 0
    for k in range(len(M) - 1):
        a, b = M[k], M[k + 1]
        last = k == len(M) - 2
        while True:
            j += 1
            if j >= len(F):
                return "model corner %s not found in the file polyline" % (b,)
            q = F[j]
            if (last and j == len(F) - 1) or (not last and max(abs(q[0] - b[0]), abs(q[1] - b[1])) <= 1 and seg_dist(q, a, b) <= 1.0 and
                                             (j + 1 >= len(F) or seg_dist(F[j + 1], a, b) > 0.71 or F[j + 1] == q)):
                break
            if seg_dist(q, a, b) > 0.71:
                return "file vertex %s is %.2f grid steps off the model segment %s-%s" % (q, seg_dist(q, a, b), a, b)
    if j != len(F) - 1:
        return "file polyline continues after the last model vertex"
    return None


def props_from_dump(pl):
    """-> [(name bytes, [(t, v)])] comparable with props_decoded"""
    return props_got(pl)


def props_decoded(pl):
    out = []
    for p in pl:
        vals = []
        for v in p["values"]:
            if v[0] == "real":
                vals.append(("r", float(oc.real_fraction(v[1]))))
            elif v[0] == "uint":
                vals.append(("u", str(v[1])))
            elif v[0] == "sint":
                vals.append(("i", str(v[1])))
            else:
                vals.append(("s", bytes(v[1]).hex()))
        out.append((bytes(p["name"]), vals))
    return out


def is_std(name):
    return bytes(name).startswith(b"S_") and bytes(name) in oc.STD_PROP_NAMES


def d2_model(src, hints):
    """Expected denotations per cell from the struct-walk dump of the source library."""
    s = src["unit"] / src["precision"]
    R = lambda v: rha(v * s)
    cells = []
    rp_hint = list(hints.get("rpath_points", []))
    for c in src["cells"]:
        els = {"polygons": [], "paths": [], "texts": [], "placements": []}
        for p in c["polygons"]:
            els["polygons"].append({"layer": p["tag"][0], "datatype": p["tag"][1], "points": [(R(x), R(y)) for x, y in p["points"]],
                                    "offsets": sorted(dump_rep_offsets(p["repetition"], s)), "props": props_from_dump(p["properties"])})
        override = hints.get("expect_paths", {}).get(c["name"])
        if override is not None:
            els["paths"] = [dict(p) for p in override]
        for fp in ([] if override is not None else c["flexpaths"]):
            if not fp["simple_path"]:
                raise ValueError("non-simple flexpath in the C04 family")
            spine = dedup_consecutive([(R(x), R(y)) for x, y in fp["spine"]])
            for e in fp["elements"]:
                hw = R(e["half_width_and_offset"][0][0])
                if any(o[1] != 0 for o in e["half_width_and_offset"]):
                    raise ValueError("offset path element in the C04 family")
                ext = {"flush": (0, 0), "half-width": (hw, hw), "extended": (R(e["end_extensions"][0]), R(e["end_extensions"][1]))}[e["end"]]
                els["paths"].append({"layer": e["tag"][0], "datatype": e["tag"][1], "hw": hw, "ext": ext, "points": spine, "src": "flexpath",
                                     "offsets": sorted(dump_rep_offsets(fp["repetition"], s)), "props": props_from_dump(fp["properties"])})
        for rp in ([] if override is not None else c["robustpaths"]):
            pts = rp_hint.pop(0)
            for e in rp["elements"]:
                hw = R(0.5 * e["end_width"])
                ext = {"flush": (0, 0), "half-width": (hw, hw), "extended": (R(e["end_extensions"][0]), R(e["end_extensions"][1]))}[e["end"]]
                els["paths"].append({"layer": e["tag"][0], "datatype": e["tag"][1], "hw": hw, "ext": ext, "points": [tuple(q) for q in pts], "src": "robustpath",
                                     "offsets": sorted(dump_rep_offsets(rp["repetition"], s)), "props": props_from_dump(rp["properties"])})
        for l in c["labels"]:
            els["texts"].append({"layer": l["tag"][0], "datatype": l["tag"][1], "text": dump_text(l["text"]), "xy": (R(l["origin"][0]), R(l["origin"][1])),
                                 "offsets": sorted(dump_rep_offsets(l["repetition"], s)), "props": props_from_dump(l["properties"])})
        for r in c["references"]:
            els["placements"].append({"cell": dump_text(r["target"]), "xy": (R(r["origin"][0]), R(r["origin"][1])), "mag": r["magnification"], "rotation": r["rotation"],
                                      "flip": bool(r["x_reflection"]), "ref_kind": r["kind"], "offsets": sorted(dump_rep_offsets(r["repetition"], s)),
                                      "props": props_from_dump(r["properties"])})
        cells.append({"name": dump_text(c["name"]), "props": props_from_dump(c["properties"]), "els": els})
    return {"scale": s, "cells": cells, "props": props_from_dump(src["properties"])}


def compare_decoded(model, layout, tol_grid):
    """-> list of (class, tags, detail)"""
    out = []
    want_names = [c["name"] for c in model["cells"]]
    got_names = [c["name"] for c in layout["cells"]]
    if want_names != got_names:
        return [("cells", {"field": "cell_names"}, "file has cells %r, library %r" % (got_names, want_names))]
    fp = [p for p in props_decoded(layout["props"]) if not is_std(p[0])]
    if fp != [p for p in model["props"] if not is_std(p[0])]:
        out.append(("props.file", {"field": "properties", "record": "file"}, "file properties %s, library %s" % (short(fp), short(model["props"]))))
    for mc, dc in zip(model["cells"], layout["cells"]):
        cp = [p for p in props_decoded(dc["name_props"]) + props_decoded(dc["props"]) if not is_std(p[0])]
        if cp != [p for p in mc["props"] if not is_std(p[0])]:
            out.append(("props.cell", {"field": "properties", "record": "cell"}, "cell properties %s, library %s" % (short(cp), short(mc["props"]))))
        den = [(e, oc.denote(e)) for e in dc["elements"]]
        got = {"polygons": [x for x in den if x[1]["kind"] in ("polygon", "circle")], "paths": [x for x in den if x[1]["kind"] == "path"],
               "texts": [x for x in den if x[1]["kind"] == "text"], "placements": [x for x in den if x[1]["kind"] == "placement"]}
        for gname, want in mc["els"].items():
            if len(want) != len(got[gname]):
                out.append(("count", {"field": gname}, "%d %s in the file, %d in the library" % (len(got[gname]), gname, len(want))))
                continue
            for w, (el, d) in zip(want, got[gname]):
                tags = {"record": el["kind"]}
                if el.get("rep"):
                    tags["rep_type"] = el["rep"][0]

                def bad(field, detail, **extra):
                    t = dict(tags, field=field)
                    t.update(extra)
                    out.append(("%s.%s" % (gname, field), t, detail))

                if list(d["offsets"]) != w["offsets"]:
                    neg = any(o[0] < 0 or o[1] < 0 for o in w["offsets"])
                    bad("repetition", "file repetition %s denotes %s, library %s" % (el.get("rep"), short(d["offsets"]), short(w["offsets"])), negative_offsets=int(neg))
                if props_decoded(d["props"]) != w["props"]:
                    bad("properties", "file %s, library %s" % (short(props_decoded(d["props"])), short(w["props"])))
                if gname != "placements" and (d["layer"], d["datatype"]) != (w["layer"], w["datatype"]):
                    bad("tag", "file (%d,%d), library (%d,%d)" % (d["layer"], d["datatype"], w["layer"], w["datatype"]))
                if gname == "polygons":
                    if d["kind"] == "circle":
                        cx, cy = d["centre"]
                        worst = max(abs(math.hypot(x - cx, y - cy) - d["r"]) for x, y in w["points"])
                        if worst > tol_grid + 1.0:
                            bad("circle", "CIRCLE c=%s r=%d deviates %.3f grid steps from the library polygon (tolerance %g + 1)" % (d["centre"], d["r"], worst, tol_grid))
                    elif not cycle_equal(w["points"], d["points"]):
                        bad("points", "file %s vertices %s, library %s" % (d.get("source"), short(d["points"]), short(w["points"])), source=d.get("source"), **({"ctype": el["ctype"]} if "ctype" in el else {}))
                elif gname == "paths":
                    tags["path_source"] = w["src"]
                    if d["hw"] != w["hw"]:
                        bad("halfwidth", "file half-width %d, library %d" % (d["hw"], w["hw"]))
                    if tuple(d["ext"]) != tuple(w["ext"]):
                        bad("extension", "file extensions %s, library %s" % (d["ext"], w["ext"]))
                    a, b = d["points"], w["points"]
                    if w["src"] == "robustpath":
                        why = sampled_polyline_equal(a, b)
                        if why:
                            bad("points", "file centre line %s, library %s: %s" % (short(a), short(drop_collinear(b)), why))
                    elif a != b:
                        bad("points", "file centre line %s, library %s" % (short(a), short(b)))
                elif gname == "texts":
                    if d["text"] != w["text"]:
                        bad("text", "file %r, library %r" % (d["text"], w["text"]))
                    if d["xy"] != w["xy"]:
                        bad("origin", "file %s, library %s" % (d["xy"], w["xy"]))
                else:
                    if d["cell"] != w["cell"]:
                        bad("cell", "file places %r, library references %r" % (d["cell"], w["cell"]), ref_kind=w["ref_kind"], target_in_library=int(w["cell"] in want_names))
                    if d["xy"] != w["xy"]:
                        bad("origin", "file %s, library %s" % (d["xy"], w["xy"]))
                    if d["flip"] != w["flip"]:
                        bad("flip", "file %s, library %s" % (d["flip"], w["flip"]))
                    if not math.isclose(float(d["mag"]), w["mag"], rel_tol=1e-15):
                        bad("magnification", "file %r, library %r" % (float(d["mag"]), w["mag"]))
                    wa = math.degrees(w["rotation"])
                    diff = (float(d["angle"]) - wa) % 360.0
                    if min(diff, 360.0 - diff) > 1e-9:
                        bad("rotation", "file %r degrees, library %r rad = %r degrees" % (float(d["angle"]), w["rotation"], wa))
    return out


# ---------------------------------------------------------------------------- direction 2: file-level facts
def path_outline_points(d):
    """Corner points of a path outline when it can be computed exactly here: Manhattan centre lines (mitred 90 degree
    joins) or a single segment.  None otherwise."""
    pts, hw, (es, ee) = d["points"], d["hw"], d["ext"]
    segs = list(zip(pts, pts[1:]))
    manhattan = all(a[0] == b[0] or a[1] == b[1] for a, b in segs)
    if not manhattan and len(segs) != 1:
        return None
    out = []
    for i, (a, b) in enumerate(segs):
        L = math.hypot(b[0] - a[0], b[1] - a[1])
        if L == 0:
            continue
        ux, uy = (b[0] - a[0]) / L, (b[1] - a[1]) / L
        e0 = es if i == 0 else hw
        e1 = ee if i == len(segs) - 1 else hw
        for (px, py), e in (((a[0] - ux * e0, a[1] - uy * e0), 0), ((b[0] + ux * e1, b[1] + uy * e1), 0)):
            out.append((px - uy * hw, py + ux * hw))
            out.append((px + uy * hw, py - ux * hw))
    return out


def cell_cloud(name, cells, memo, with_text):
    """All extreme-candidate points of a cell (children flattened by own affine composition); None if it cannot be computed
    exactly here; [] for an empty cell."""
    key = (name, with_text)
    if key in memo:
        return memo[key]
    memo[key] = None  # cycle guard
    c = cells.get(name)
    if c is None:
        return None
    pts = []
    for e in c["elements"]:
        d = oc.denote(e)
        base = None
        if d["kind"] == "polygon":
            base = list(d["points"])
        elif d["kind"] == "circle":
            (cx, cy), r = d["centre"], d["r"]
            base = [(cx - r, cy - r), (cx + r, cy + r)]
        elif d["kind"] == "path":
            base = path_outline_points(d)
            if base is None:
                return None
        elif d["kind"] == "text":
            base = [d["xy"]] if with_text else []
        else:
            child = cell_cloud(d["cell"], cells, memo, with_text)
            if child is None:
                return None
            m, a = float(d["mag"]), math.radians(float(d["angle"]))
            q = float(d["angle"]) % 90 == 0
            ca, sa = (round(math.cos(a)), round(math.sin(a))) if q else (math.cos(a), math.sin(a))
            base = []
            for (x, y) in child:
                if d["flip"]:
                    y = -y
                x, y = m * x, m * y
                base.append((x * ca - y * sa + d["xy"][0], x * sa + y * ca + d["xy"][1]))
        for ox, oy in d["offsets"]:
            pts += [(x + ox, y + oy) for x, y in base]
    memo[key] = pts
    return pts


def check_facts(layout, facts, model, case, src, model_equal=True):
    """END position, table offsets, signature and standard properties against the decoded bytes."""
    out = []
    flags = case["flags"]
    tags0 = {"flags": flags}

    def bad(cls, detail, **tags):
        out.append((cls, dict(tags0, **tags), detail))

    if facts["end_pos"] != facts["file_size"] - 256:
        bad("end.position", "END record at %d, file size %d" % (facts["end_pos"], facts["file_size"]))
    for kind, (fl, off) in zip(oc.TABLE_KINDS, facts["table_offsets"]):
        first = facts["table_first"].get(kind, 0)
        if first is None:
            continue
        if off != first:
            bad("table.offset", "%s table offset %d but the first such record is at %s" % (kind, off, first or "nowhere"), table=kind)
        if fl == 1:
            if not facts["table_contiguous"][kind]:
                bad("table.strict", "%s table flagged strict but its records are not contiguous" % kind, table=kind, why="not_contiguous")
            if facts["inline_names"][kind]:
                bad("table.strict", "%s table flagged strict but %d names of that kind are given inline" % (kind, facts["inline_names"][kind]), table=kind, why="inline_name")
    want_scheme = 1 if flags & 0x40 else (2 if flags & 0x80 else 0)
    scheme, stored, computed = facts["validation"]
    if scheme != want_scheme:
        bad("signature.scheme", "validation scheme %d, requested %d" % (scheme, want_scheme))
    elif scheme and stored != computed:
        bad("signature.value", "stored %08x, recomputed %08x over bytes 0..scheme byte" % (stored, computed), scheme=scheme)
    # ---- standard properties
    cells = {c["name"]: c for c in layout["cells"]}
    fileprops = {}
    for p in layout["props"]:
        fileprops.setdefault(p["name"], []).append(p)
    sbit_clear = sorted({p["name"].decode() for p in layout["props"] if is_std(p["name"]) and not p["std"]} |
                        {p["name"].decode() for c in layout["cells"] for p in c["name_props"] + c["props"] if is_std(p["name"]) and not p["std"]})
    if sbit_clear:
        # not demanded by the property text: S_* named properties are recognised as standard regardless of the S bit
        out.append(("_sbit", {}, ",".join(sbit_clear)))

    unrequested = {b"S_MAX_SIGNED_INTEGER_WIDTH": 1, b"S_MAX_UNSIGNED_INTEGER_WIDTH": 1, b"S_MAX_STRING_LENGTH": 1, b"S_POLYGON_MAX_VERTICES": 1, b"S_PATH_MAX_VERTICES": 1,
                   b"S_TOP_CELL": 2, b"S_BOUNDING_BOXES_AVAILABLE": 4, b"S_BOUNDING_BOX": 4, b"S_CELL_OFFSET": 8}
    allp = list(layout["props"]) + [p for c in layout["cells"] for p in c["name_props"] + c["props"]]
    if any(p["name"] in unrequested and not flags & unrequested[p["name"]] for p in allp):
        out.append(("_stale", {}, "S_* properties present although their flag was not requested (carried over from an earlier save / load)"))

    def single_uint(name):
        pl = fileprops.get(name, [])
        if len(pl) != 1 or len(pl[0]["values"]) != 1 or pl[0]["values"][0][0] != "uint":
            bad("stdprop.shape", "%s: expected exactly one property with one unsigned value, found %s" % (name.decode(), short(pl)), name=name.decode())
            return None
        return pl[0]["values"][0][1]

    if flags & 0x01:
        for name, actual, what in ((b"S_MAX_STRING_LENGTH", facts["max_string_before_end"], "longest string in the file"),
                                   (b"S_POLYGON_MAX_VERTICES", facts["polygon_max_vertices"], "largest POLYGON vertex count in the file"),
                                   (b"S_PATH_MAX_VERTICES", facts["path_max_vertices"], "largest PATH vertex count in the file")):
            v = single_uint(name)
            src_poly_max = max([len(p["points"]) for c in src["cells"] for p in c["polygons"]] or [0])
            if name == b"S_POLYGON_MAX_VERTICES" and v is not None and actual <= v <= src_poly_max:
                continue  # polygons written as RECTANGLE/TRAPEZOID/CTRAPEZOID/CIRCLE still denote polygons with that many vertices
            if v is not None and v != actual:
                shape_recs = int(any(rid in (20, 23, 24, 25, 26, 27) for _, rid in facts["records"]))
                multi = int(any(len(fp["elements"]) > 1 for c in src["cells"] for fp in c["flexpaths"]))
                bad("stdprop.max." + ("understated" if v < actual else "overstated"), "%s = %d but the %s is %d" % (name.decode(), v, what, actual), name=name.decode(),
                    file_has_shape_records=shape_recs, multi_element_path=multi,
                    source_path_has_duplicate_points=int(any(fp["spine"][i] == fp["spine"][i + 1] for c in src["cells"] for fp in c["flexpaths"] for i in range(len(fp["spine"]) - 1))))
        for name, actual in ((b"S_MAX_SIGNED_INTEGER_WIDTH", facts["max_sint"]), (b"S_MAX_UNSIGNED_INTEGER_WIDTH", facts["max_uint"])):
            v = single_uint(name)
            need = max(1, (actual.bit_length() + (1 if b"_SIGNED" in name else 0) + 7) // 8)
            if v is not None and v < need:
                bad("stdprop.max.understated", "%s = %d bytes but an integer of %d bits occurs" % (name.decode(), v, actual.bit_length()), name=name.decode())
    if flags & 0x02:
        placed = {e["cell"] for c in layout["cells"] for e in c["elements"] if e["kind"] == "placement"}
        tops = sorted(n for n in cells if n not in placed)
        stated = sorted(v[1] for p in fileprops.get(b"S_TOP_CELL", []) for v in p["values"])
        if stated != tops:
            bad("stdprop.top_cell", "S_TOP_CELL lists %r; cells of the file that no PLACEMENT refers to: %r" % (stated, tops),
                by_name_ref_to_present=int(any(r["ref_kind"] == "name" and r["cell"] in cells for mc in model["cells"] for r in mc["els"]["placements"])))
    if flags & 0x04 and not model_equal:
        out.append(("_skip", {}, "bbox"))  # the file does not denote the library: a bounding box derived from it says nothing
    if flags & 0x04 and model_equal:
        v = single_uint(b"S_BOUNDING_BOXES_AVAILABLE")
        if v is not None and v != 2:
            bad("stdprop.bbox_available", "S_BOUNDING_BOXES_AVAILABLE = %d" % v)
        memo = {}
        for c in layout["cells"]:
            bb = [p for p in c["name_props"] if p["name"] == b"S_BOUNDING_BOX"]
            if len(bb) != 1 or [v[0] for v in bb[0]["values"]] != ["uint", "sint", "sint", "uint", "uint"]:
                bad("stdprop.shape", "cell %r: S_BOUNDING_BOX %s" % (c["name"], short(bb)), name="S_BOUNDING_BOX")
                continue
            _, x0, y0, w, h = [v[1] for v in bb[0]["values"]]
            accepted = []
            skipped = False
            for with_text in (False, True):
                cloud = cell_cloud(c["name"], cells, memo, with_text)
                if cloud is None:
                    skipped = True
                    break
                if not cloud:
                    accepted.append((0, 0, 0, 0))
                    continue
                xs, ys = [p[0] for p in cloud], [p[1] for p in cloud]
                bx0, by0, bx1, by1 = rha(min(xs)), rha(min(ys)), rha(max(xs)), rha(max(ys))
                accepted.append((bx0, by0, bx1 - bx0, by1 - by0))
            if skipped:
                out.append(("_skip", {}, "bbox"))
                continue
            if (x0, y0, w, h) not in accepted:
                bad("stdprop.bounding_box", "cell %r: S_BOUNDING_BOX (x,y,w,h) = %s; own bounding box of the decoded cell: %s (without / with text origins)" % (
                    c["name"], (x0, y0, w, h), accepted),
                    by_name_ref_to_present=int(any(r["ref_kind"] == "name" and r["cell"] in cells for mc in model["cells"] for r in mc["els"]["placements"])))
    if flags & 0x08:
        for c in layout["cells"]:
            co = [p for p in c["name_props"] if p["name"] == b"S_CELL_OFFSET"]
            if len(co) != 1 or len(co[0]["values"]) != 1 or co[0]["values"][0][0] != "uint":
                bad("stdprop.shape", "cell %r: S_CELL_OFFSET %s" % (c["name"], short(co)), name="S_CELL_OFFSET")
            elif co[0]["values"][0][1] != facts["cell_pos"][c["name"]]:
                bad("stdprop.cell_offset", "cell %r: S_CELL_OFFSET %d but its CELL record is at byte %s" % (c["name"], co[0]["values"][0][1], facts["cell_pos"][c["name"]]))
    return out


def d2_history_job(case, prefix):
    return "history %s %s ; %s | %s" % (prefix, fnum(case["tol"]), " ; ".join(case["cmds"]), " | ".join(case["ops"]))


def judge_written(space, case, data, src, err, flags, tol, viol, count, res):
    """One file gdstk wrote: strict decode, compare with the dump of the library it was written from, check the facts."""
    model = d2_model(src, case["hints"])
    if err != 0:
        viol("error_code", {"field": "error_code", "got": err}, "write_oas returned %d" % err)
    try:
        layout, facts = oc.decode(data, strict=False)
    except oc.OasisError as e:
        viol("decode_error", {"error": str(e).split(":")[0][:60]}, "strict decoder rejects the file: %s" % e)
        res["outcomes"].add((space.name, "decode_error|" + str(e)[:40]))
        return
    count("nontrivial")
    if facts["cblocks"]:
        count("feature:cblock")
    count("feature:table_ref")
    u = float(oc.real_fraction(layout["unit"]))
    want_u = 1e-6 / src["precision"]
    if u != want_u:
        viol("unit", {"field": "unit"}, "START unit %r, library has 1e-6/precision = %r" % (u, want_u))
    mm = compare_decoded(model, layout, tol * model["scale"])
    for cls, tags, detail in mm:
        viol(cls, tags, detail)
    ff = check_facts(layout, facts, model, {"flags": flags}, src, model_equal=not mm)
    for cls, tags, detail in ff:
        if cls == "_skip":
            count("bbox_checks_skipped_not_exactly_computable")
        elif cls == "_sbit":
            count("stdprop_written_with_S_bit_clear")
        elif cls == "_stale":
            count("unrequested_stdprops_passed_through_from_loaded_library")
        else:
            viol(cls, tags, detail)
    recs = sorted({rid for _, rid in facts["records"]})
    real = [m[0] for m in mm + ff if not m[0].startswith("_")]
    res["outcomes"].add((space.name, "%s|%d|%s" % (recs, facts["validation"][0], sorted(set(real)))))
    if not real and not res["samples"]:
        res["samples"].append({"sub_check": space.name, "case": {"library_commands": case["cmds"], "ops": case.get("ops"), "flags": flags, "records_in_file": recs,
                                                                  "result": "strict decode equals the saved library; END/table offsets/signature/standard properties true"}})


def exec_d2(space, ids, cases, exe, scratch):
    res = {"counters": {}, "violations": [], "samples": [], "outcomes": set()}
    cnt = res["counters"]

    def count(k, n=1):
        cnt[k] = cnt.get(k, 0) + n

    paths = [os.path.join(scratch, "d2.%d" % k) for k in range(len(cases))]
    jobs = [d2_history_job(c, p) if "ops" in c else d2_job(c, p + ".oas") for c, p in zip(cases, paths)]
    results = run_driver(exe, jobs, scratch)
    for (g, i), case, path, r in zip(ids, cases, paths, results):
        if r is not None and r.get("not_executed"):
            count("cases_not_executed_after_repeated_crashes")
            res["incomplete"] = True
            continue
        replay = "sub=%s g=%d i=%d" % (space.name, g, i)
        tags0 = {k: (v if isinstance(v, int) else str(v)) for k, v in case["label"].items()}
        tags0["ref_to_cell_outside_library"] = int(bool(case["hints"].get("outside_pointer")))
        cj = {"library_commands": case["cmds"]}
        if "ops" in case:
            cj["ops"] = case["ops"]

        def viol(cls, tags, detail, extra_tags=None, extra_case=None):
            key = "viol:%s/%s" % (space.name, cls)
            count(key)
            if cnt[key] <= CAP:
                t = dict(tags0)
                t.update(extra_tags or {})
                t.update({k: (v if isinstance(v, int) else str(v)) for k, v in tags.items()})
                res["violations"].append({"sub_check": space.name, "class": cls, "tags": t, "case": dict(cj, **(extra_case or {})), "detail": detail[:1200], "replay_args": replay})

        if r is None or "crash" in r:
            count("cases")
            count("cases:" + space.name)
            text = (r or {}).get("crash", "no result")
            viol("crash:" + crash_class(text), {"crash": crash_class(text)}, text[:1500])
            for k in range(8):
                if os.path.exists("%s.%d.oas" % (path, k)):
                    os.unlink("%s.%d.oas" % (path, k))
            continue
        if r.get("kind") == "write":
            writes = [{"path": path + ".oas", "level": case["level"], "flags": case["flags"], "err": r["err"], "src": r["src"]}]
        elif r.get("kind") == "history":
            writes = r["writes"]
            count("histories")
        else:
            res.setdefault("internal", []).append("driver answered %r for %r" % (r, jobs[0][:300]))
            continue
        for wi, w in enumerate(writes):
            count("cases")
            count("cases:" + space.name)
            data = b""
            if os.path.exists(w["path"]):
                with open(w["path"], "rb") as f:
                    data = f.read()
                os.unlink(w["path"])
            ec = {"level": w["level"], "flags": w["flags"], "circle_tolerance": case["tol"], "hex": data.hex() if len(data) < 1500 else data[:1500].hex() + "..."}
            et = {}
            if "ops" in case:
                et = {"write_index": wi, "flags": w["flags"], "level": w["level"], "ops_done": ",".join(r.get("ops", []))}
                ec["file_of_write"] = wi
            judge_written(space, case, data, w["src"], w["err"], w["flags"], case["tol"],
                          lambda cls, tags, detail, et=et, ec=ec: viol(cls, tags, detail, et, ec), count, res)
    return res


if __name__ == "__main__":
    sys.exit(main())
