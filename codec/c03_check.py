#!/usr/bin/env python3
"""c03_check.py - orchestrator of check C03 (GDSII reader and writer agree with the format specification).

Run by ./check as:  python3 codec/c03_check.py --exe <gds_driver> --tier quick|thorough --out FILE [--replay-args S]
Speaks the JSONL protocol of engine/vf.hpp (counters / violation / sample / outcome / bound / note /
internal_error / done).  Technique: bounded exhaustive enumeration; every file of the stated finite spaces is
executed on the real gdstk reader/writer (batch driver) and judged by the independent codec (gds_codec.py).

Direction 1  d1:<family>:<index>:<ctx>   independent encoder -> read_gds -> compare with the abstract layout
Direction 2  d2:<kind>:<params>:<libcfg>:<max_points>   gdstk write_gds -> strict decoder -> compare with the source dump
Replay:      --replay-args "case=<case id>"   regenerates exactly that file, re-runs it, prints both models.
"""
import argparse
import hashlib
import json
import multiprocessing
import os
import shutil
import subprocess
import sys
import time

HERE = os.path.dirname(os.path.abspath(__file__))
sys.path.insert(0, HERE)
import gds_codec as G  # noqa: E402
import c03_cases as K  # noqa: E402
import c03_compare as C  # noqa: E402

VERIF = os.path.dirname(HERE)
T0 = time.time()
CHUNK = 250
EXE = None
SCRATCH = None


# ------------------------------------------------------------------------------------------------ driver
def run_driver(exe, jobs, workdir, tag, solo=False):
    """jobs: list of job lines (each with a unique id as 2nd token).  -> (results by id, crashes)
    crashes: list of (job id, class, stderr excerpt).  After an abnormal exit the first job without a
    result line is the culprit; the remaining jobs are re-run behind it."""
    results, crashes = {}, []
    todo = list(jobs)
    attempt = 0
    while todo:
        jf = os.path.join(workdir, '%s.%d.jobs' % (tag, attempt))
        rf = os.path.join(workdir, '%s.%d.res' % (tag, attempt))
        with open(jf, 'w') as f:
            f.write('\n'.join(todo) + '\n')
        hang = False
        try:
            p = subprocess.run([exe, jf, rf], stdout=subprocess.DEVNULL, stderr=subprocess.PIPE, timeout=600 if solo else 300 + 2 * len(todo))
            rc, err = p.returncode, p.stderr.decode('latin-1')
        except subprocess.TimeoutExpired as e:
            rc, err, hang = -9, (e.stderr or b'').decode('latin-1'), True
        got = set()
        if os.path.exists(rf):
            with open(rf) as f:
                for line in f:
                    try:
                        r = json.loads(line)
                    except ValueError:
                        continue  # torn last line of a crashed process
                    if 'id' in r:
                        results[r['id']] = r
                        got.add(r['id'])
        os.unlink(jf)
        if os.path.exists(rf):
            os.unlink(rf)
        ids = [j.split(' ')[1] for j in todo]
        missing = [k for k, i in enumerate(ids) if i not in got]
        if rc == 0 and not missing:
            break
        if not missing:  # abnormal exit after the last job (e.g. at exit): report once, no culprit
            crashes.append((None, 'exit:%d' % rc, err[-1500:]))
            break
        k = missing[0]
        if hang and len(todo) > 1 and not solo:
            # a slow batch is not a hang: re-run the suspect alone with a long limit before any verdict
            r1, c1 = run_driver(exe, [todo[k]], workdir, tag + 's', solo=True)
            results.update(r1)
            crashes.extend(c1)
        else:
            cls = 'hang' if hang else crash_class(err, rc)
            crashes.append((ids[k], cls, asan_excerpt(err)))
        todo = todo[k + 1:]
        attempt += 1
    return results, crashes


def crash_class(err, rc):
    p = err.find('AddressSanitizer: ')
    if p >= 0:
        e = p + 18
        while e < len(err) and err[e] not in ' \n':
            e += 1
        return 'asan:' + err[p + 18:e]
    return 'signal:%d' % -rc if rc < 0 else 'exit:%d' % rc


def asan_excerpt(err):
    p = err.find('ERROR: AddressSanitizer')
    s = err[p:] if p >= 0 else err[-1500:]
    lines = [l for l in s.splitlines() if l.strip()][:14]
    return '\n'.join(lines)[:1500]


# ------------------------------------------------------------------------------------------------ cases
def parse_case(cid):
    t = cid.split(':')
    if t[0] == 'd1':
        return {'d': 1, 'family': t[1], 'index': int(t[2]), 'ctx': int(t[3])}
    return {'d': 2, 'kind': t[1], 'params': t[2], 'libcfg': int(t[3]), 'max_points': int(t[4])}


def file_of(workdir, n):
    return os.path.join(workdir, 'f%d.gds' % n)


def d2_tags(kind, params, libcfg, max_points, dims):
    tags = {'writer': kind, 'libcfg_units': libcfg % 3, 'libcfg_name_parity': (libcfg // 3) % 2, 'libcfg_order': (libcfg // 6) % 2, 'max_points': max_points}
    for d, v in zip(dims.get(kind, []), params.split(',')):
        tags[d] = int(v)
    return tags


def process_chunk(arg):
    """worker: generate, run the driver, judge.  Returns a summary dict (picklable)."""
    chunk_no, cids, dims = arg
    workdir = os.path.join(SCRATCH, 'c%d' % chunk_no)
    os.makedirs(workdir, exist_ok=True)
    S = {'counters': {}, 'violations': [], 'samples': [], 'outcomes': set(), 'done': {}, 'internal': []}
    cnt = S['counters']

    def inc(k, n=1):
        cnt[k] = cnt.get(k, 0) + n
    jobs, meta = [], {}
    try:
        for n, cid in enumerate(cids):
            c = parse_case(cid)
            jid = 'j%d' % n
            path = file_of(workdir, n)
            if c['d'] == 1:
                case = K.make_d1(c['family'], c['index'], c['ctx'])
                with open(path, 'wb') as f:
                    f.write(case['data'])
                jobs.append('read %s %s %r %r' % (jid, path, case['req'], case['tol']))
                meta[jid] = (cid, c, case, path)
            else:
                jobs.append('write %s %s %d %d %s %s' % (jid, path, c['max_points'], c['libcfg'], c['kind'], c['params']))
                meta[jid] = (cid, c, None, path)
        results, crashes = run_driver(EXE, jobs, workdir, 'b')
        crashed = {}
        for jid, cls, excerpt in crashes:
            if jid is None:
                S['internal'].append('driver ended abnormally after its last job: %s %s' % (cls, excerpt[:300]))
            else:
                crashed[jid] = (cls, excerpt)
        for jid, (cid, c, case, path) in meta.items():
            sub = 'd1.' + c['family'] if c['d'] == 1 else 'd2.' + c['kind']
            inc('cases')
            inc('cases:' + sub)
            S['done'][sub] = S['done'].get(sub, 0) + 1
            if c['d'] == 1:
                tags = case['tags']
                if K.d1_nontrivial(case['layout'], c['family']):
                    inc('nontrivial')
            else:
                tags = d2_tags(c['kind'], c['params'], c['libcfg'], c['max_points'], dims)
            if jid in crashed:
                cls, excerpt = crashed[jid]
                S['violations'].append({'sub': sub, 'cls': 'crash:' + cls, 'tags': dict(tags, crash=cls), 'case': {'id': cid, 'tags': tags}, 'detail': excerpt, 'cid': cid})
                inc('viol:%s/crash:%s' % (sub, cls))
                inc('violations_total')
                continue
            r = results.get(jid)
            if r is None or r.get('job') == 'bad':
                S['internal'].append('no usable driver result for %s: %r' % (cid, r))
                continue
            if c['d'] == 1:
                mism = C.d1_compare(case['layout'], case['req'], case['tol'], r)
                S['outcomes'].add((sub, 'err=%d|%s' % (r['error'], ','.join(sorted(set(m[0] for m in mism))))))
                if len(S['samples']) < 1 and not mism:
                    S['samples'].append((sub, {'id': cid, 'tags': tags, 'bytes': len(case['data']), 'error_code': r['error']}))
            else:
                with open(path, 'rb') as f:
                    data = f.read()
                src = r['source']
                nt = False
                for cell in src['cells']:
                    for k in ('polygons', 'flexpaths', 'robustpaths', 'labels', 'references'):
                        for e in cell[k]:
                            if len(e.get('elements', [])) > 1 or e['repetition']['type'] != 'none' or e['properties'] or e.get('x_reflection') or e.get('rotation') or e.get('magnification', 1) != 1 or len(e.get('points', [])) > 8189:
                                nt = True
                if nt:
                    inc('nontrivial')
                if r['error'] == 7:  # InvalidRepetition: the writer told its caller that the file is not faithful
                    inc('d2_writer_declined')
                    S['outcomes'].add((sub, 'writer_declined'))
                    continue
                extra = {}
                if c['kind'] in ('real8', 'units16'):  # measured, not assumed: how many written reals are exact powers of 16
                    try:
                        for off, rt, dt, pl in G.split_records(data):
                            if dt == 5:
                                for q in range(0, len(pl), 8):
                                    if int.from_bytes(pl[q:q + 8], 'big') & ((1 << 56) - 1) in (1 << 52, 0) and pl[q:q + 8] != bytes(8):
                                        inc('d2_real8_power_of_16_written')
                    except G.GdsError:
                        pass
                mism = C.d2_compare(data, src, c['max_points'], extra, r.get('history') if c['kind'] == 'prophist' else None, r.get('pathspec') if c['kind'] == 'multipath' else None)
                for k, v in extra.items():
                    inc(k, v)
                S['outcomes'].add((sub, 'err=%d|%s' % (r['error'], ','.join(sorted(set(m[0] for m in mism))))))
                if len(S['samples']) < 1 and not mism:
                    S['samples'].append((sub, {'id': cid, 'tags': tags, 'bytes': len(data), 'error_code': r['error']}))
            seen = set()
            for cls, field, detail in mism:
                if cls in seen:
                    continue
                seen.add(cls)
                inc('viol:%s/%s' % (sub, cls))
                inc('violations_total')
                S['violations'].append({'sub': sub, 'cls': cls, 'tags': dict(tags, field=field), 'case': {'id': cid, 'tags': tags}, 'detail': detail[:1500], 'cid': cid})
    except Exception as e:  # a bug of the check itself
        import traceback
        S['internal'].append('worker exception: %s' % traceback.format_exc()[-1500:])
    shutil.rmtree(workdir, ignore_errors=True)
    # cap what is shipped back: 3 per class per chunk
    per = {}
    keep = []
    for v in S['violations']:
        k = (v['sub'], v['cls'])
        per[k] = per.get(k, 0) + 1
        if per[k] <= 3:
            keep.append(v)
    S['violations'] = keep
    S['outcomes'] = list(S['outcomes'])
    return S


def pool_init(exe, scratch):
    global EXE, SCRATCH
    EXE, SCRATCH = exe, scratch


# ------------------------------------------------------------------------------------------------ plans
def d2_plan(tier, fam):
    """-> list of (sub, description, [case ids])"""
    import itertools
    plans = []
    MPS = (0, 5, 8, 40, 199)
    for k in fam['kinds']:
        kind = k['kind']
        sizes = [d['size'] for d in k['dims']]
        members = list(itertools.product(*[range(s) for s in sizes]))
        ids = []
        polyish = kind in ('polygon', 'bigpolygon', 'nonsimple')
        dimtxt = ' x '.join('%s(%d)' % (d['name'], d['size']) for d in k['dims'])
        cid = lambda m, cfg, mp: 'd2:%s:%s:%d:%d' % (kind, ','.join(map(str, m)), cfg, mp)
        if kind == 'prophist':
            short = [m for m in members if m[4] == 0]
            long_ = [m for m in members if m[4] != 0]
            if tier == 'quick':
                ids = [cid(m, n % 12, 0) for n, m in enumerate(short)]
                desc = 'property histories: every sequence of <= 3 calls over {set attr 1/2 to one of 4 values, remove attr 1/2, nothing} on each of 4 element kinds (%d), library configuration cycled' % len(short)
            else:
                ids = [cid(m, cfg, 0) for m in short + long_ for cfg in range(12)]
                desc = 'property histories: every sequence of <= 4 calls over the 11-op alphabet {set attr 1/2 to one of 4 values, remove attr 1/2, nothing} on each of 4 element kinds (%d) x all 12 library configurations' % len(members)
        elif tier == 'quick':
            if kind == 'bigpolygon':
                members = [m for m in members if m in ((1, 0, 0), (3, 1, 1))]
            for n, m in enumerate(members):
                ids.append(cid(m, n % 12, MPS[n % 5] if polyish else 0))
            desc = 'every member of the %s family (%s), library configuration (units x name parity x cell order) cycled' % (kind, dimtxt)
            if polyish:
                desc += ', max_points cycled over {0,5,8,40,199}'
            if kind == 'bigpolygon':
                desc = 'two members of the >8190-vertex family (8190 vertices plain; 8200 vertices with repetition and property), max_points {0,5}'
        else:
            cfgs = range(12) if kind != 'bigpolygon' else (0, 7)
            for n, m in enumerate(members):
                for cfg in cfgs:
                    for mp in (MPS if polyish else (0,)):
                        if kind == 'bigpolygon' and mp in (5, 40, 199):
                            continue
                        ids.append(cid(m, cfg, mp))
            desc = 'every member of the %s family (%s) x %s library configurations%s' % (
                kind, dimtxt, 'all 12' if kind != 'bigpolygon' else '2',
                ' x max_points {0,5,8,40,199}' if polyish and kind != 'bigpolygon' else (' x max_points {0,8}' if kind == 'bigpolygon' else ''))
        plans.append(('d2.' + kind, desc, ids))
    return plans


def d1_plans(tier):
    plans = []
    for fam, indices, rule, desc in K.d1_plan(tier):
        ids = ['d1:%s:%d:%d' % (fam, i, c) for i in indices for c in K.ctxs_for(rule, i)]
        plans.append(('d1.' + fam, desc, ids))
    return plans


# ------------------------------------------------------------------------------------------------ main
class Out:
    def __init__(self, path):
        self.f = open(path, 'a')

    def emit(self, obj):
        self.f.write(json.dumps(obj) + '\n')
        self.f.flush()


def replay(exe, out, cid, scratch):
    os.makedirs(scratch, exist_ok=True)
    c = parse_case(cid)
    path = os.path.join(scratch, 'replay.gds')
    fam = json.loads(subprocess.run([exe, '--family'], stdout=subprocess.PIPE).stdout)
    dims = {k['kind']: [d['name'] for d in k['dims']] for k in fam['kinds']}
    if c['d'] == 1:
        case = K.make_d1(c['family'], c['index'], c['ctx'])
        with open(path, 'wb') as f:
            f.write(case['data'])
        print('case %s  tags %s' % (cid, json.dumps(case['tags'])))
        print('file (%d bytes) hex: %s' % (len(case['data']), case['data'].hex() if len(case['data']) < 1200 else case['data'][:1200].hex() + '...'))
        print('records:\n' + G.describe(case['data']))
        print('abstract layout the encoder started from:\n' + json.dumps(G.to_jsonable(case['layout']['cells']))[:6000])
        job = 'read j0 %s %r %r' % (path, case['req'], case['tol'])
    else:
        job = 'write j0 %s %d %d %s %s' % (path, c['max_points'], c['libcfg'], c['kind'], c['params'])
        print('case %s  tags %s' % (cid, json.dumps(d2_tags(c['kind'], c['params'], c['libcfg'], c['max_points'], dims))))
    results, crashes = run_driver(exe, [job], scratch, 'r')
    nviol = 0
    for jid, cls, excerpt in crashes:
        print('gdstk CRASHED on this case: %s\n%s' % (cls, excerpt))
        out.emit({'type': 'violation', 'sub_check': 'replay', 'class': 'crash:' + cls, 'tags': {}, 'case': {'id': cid}, 'detail': excerpt, 'replay_args': 'case=' + cid})
        nviol += 1
    r = results.get('j0')
    if r:
        if c['d'] == 1:
            print('gdstk read_gds(unit=%r, tolerance=%r): error code %d, library:\n%s' % (case['req'], case['tol'], r['error'], json.dumps(r['library'])[:8000]))
            mism = C.d1_compare(case['layout'], case['req'], case['tol'], r)
        else:
            with open(path, 'rb') as f:
                data = f.read()
            print('library saved by gdstk (struct dump), write_gds error code %d:\n%s' % (r['error'], json.dumps(r['source'])[:6000]))
            print('file written (%d bytes), records:\n%s' % (len(data), G.describe(data)[:8000]))
            try:
                print('strict decoder model:\n' + json.dumps(G.to_jsonable(G.decode(data)['cells']))[:6000])
            except G.GdsError as e:
                print('strict decoder REJECTS the file: %s' % e)
            mism = C.d2_compare(data, r['source'], c['max_points'], {}, r.get('history') if c['kind'] == 'prophist' else None, r.get('pathspec') if c['kind'] == 'multipath' else None) if r['error'] != 7 else []
        for cls, field, detail in mism:
            print('MISMATCH %s (%s): %s' % (cls, field, detail))
            out.emit({'type': 'violation', 'sub_check': 'replay', 'class': cls, 'tags': {'field': field}, 'case': {'id': cid}, 'detail': detail[:1500], 'replay_args': 'case=' + cid})
            nviol += 1
        if not mism and not crashes:
            print('no mismatch on this case')
    shutil.rmtree(scratch, ignore_errors=True)
    return nviol


def main():
    ap = argparse.ArgumentParser()
    ap.add_argument('--exe', required=True)
    ap.add_argument('--tier', default='quick')
    ap.add_argument('--out', default='/dev/stdout')
    ap.add_argument('--replay-args', default='')
    a = ap.parse_args()
    out = Out(a.out)
    deadline = float(os.environ.get('VERIF_DEADLINE_S', 2400 if a.tier == 'thorough' else 100))
    workers = max(1, int(os.environ.get('VERIF_WORKERS', '16')))
    scratch = os.path.join(VERIF, 'build', 'scratch', 'C03.%d' % os.getpid())
    if a.replay_args:
        kv = dict(x.split('=', 1) for x in a.replay_args.split(' ') if '=' in x)
        n = replay(a.exe, out, kv['case'], scratch)
        out.emit({'type': 'done', 'wall_s': time.time() - T0, 'deadline_hit': False})
        sys.exit(1 if n else 0)
    os.makedirs(scratch, exist_ok=True)
    try:
        G.selftest(verbose=False)
    except AssertionError as e:
        out.emit({'type': 'internal_error', 'text': 'gds_codec self-test failed: %r' % (e,)})
        out.emit({'type': 'done', 'wall_s': time.time() - T0, 'deadline_hit': False})
        sys.exit(2)
    # private copy of the driver: a concurrent ./check C03 against another tree deletes older C03-* binaries
    exe = os.path.join(scratch, 'gds_driver')
    shutil.copy2(a.exe, exe)
    a.exe = exe
    fam = json.loads(subprocess.run([a.exe, '--family'], stdout=subprocess.PIPE, check=True).stdout)
    dims = {k['kind']: [d['name'] for d in k['dims']] for k in fam['kinds']}
    plans = d1_plans(a.tier) + d2_plan(a.tier, fam)
    plans.sort(key=lambda p: len(p[2]))  # smallest first
    expected = {sub: len(ids) for sub, desc, ids in plans}
    chunks = []
    for sub, desc, ids in plans:
        step = 6 if sub in ('d2.bigpolygon', 'd2.bigarray') else (CHUNK if a.tier == 'quick' else 4 * CHUNK)
        for i in range(0, len(ids), step):
            chunks.append((len(chunks), ids[i:i + step], dims))
    out.emit({'type': 'note', 'text': 'C03 %s: %d files in %d chunks over %d workers; codec self-test passed' % (a.tier, sum(expected.values()), len(chunks), workers)})
    done, counters, outcomes, samples, viol, internal = {}, {}, set(), {}, [], []
    deadline_hit = False
    pool = multiprocessing.Pool(workers, initializer=pool_init, initargs=(a.exe, scratch))
    last_flush = time.time()

    def gen():
        for ch in chunks:
            if time.time() - T0 > deadline:
                return
            yield ch
    pending = {}
    try:
        for S in pool.imap(process_chunk, gen(), chunksize=1):
            for k, v in S['counters'].items():
                counters[k] = counters.get(k, 0) + v
                pending[k] = pending.get(k, 0) + v
            for k, v in S['done'].items():
                done[k] = done.get(k, 0) + v
            outcomes.update(tuple(o) for o in S['outcomes'])
            for sub, s in S['samples']:
                samples.setdefault(sub, [])
                if len(samples[sub]) < 2:
                    samples[sub].append(s)
            viol.extend(S['violations'])
            internal.extend(S['internal'])
            if time.time() - last_flush > 2:
                out.emit({'type': 'counters', 'c': pending})
                pending = {}
                last_flush = time.time()
    finally:
        pool.terminate()
        pool.join()
    if pending:
        out.emit({'type': 'counters', 'c': pending})
    for t in internal[:5]:
        out.emit({'type': 'internal_error', 'text': t})
    for sub, desc, ids in plans:
        n = done.get(sub, 0)
        complete = n == len(ids)
        if not complete:
            deadline_hit = True
        out.emit({'type': 'bound', 'sub_check': sub, 'bound': desc, 'complete': complete, 'cases': n, 'planned': len(ids)})
    for sub in sorted(samples):
        for s in samples[sub][:2]:
            out.emit({'type': 'sample', 'sub_check': sub, 'case': s})
    for sub, what in sorted(outcomes):
        out.emit({'type': 'outcome', 'sub_check': sub, 'h': hashlib.sha1(what.encode()).hexdigest()[:16], 'what': what})
    # deterministic selection: per (sub, class) the three smallest cases in plan order
    order = {}
    for sub, desc, ids in plans:
        for i, cid in enumerate(ids):
            order[cid] = i
    viol.sort(key=lambda v: (v['sub'], v['cls'], order.get(v['cid'], 0)))
    per = {}
    for v in viol:
        k = (v['sub'], v['cls'])
        per[k] = per.get(k, 0) + 1
        if per[k] > 3:
            continue
        out.emit({'type': 'violation', 'sub_check': v['sub'], 'class': v['cls'], 'tags': v['tags'], 'case': v['case'], 'detail': v['detail'], 'replay_args': 'case=' + v['cid']})
    shutil.rmtree(scratch, ignore_errors=True)
    out.emit({'type': 'done', 'wall_s': time.time() - T0, 'deadline_hit': deadline_hit})


if __name__ == '__main__':
    main()
