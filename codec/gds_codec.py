#!/usr/bin/env python3
"""gds_codec.py - independent GDSII Stream codec, written from the format facts recorded in
/verif/DESIGN.md Appendix A.1 (Calma GDSII Stream Format rel. 6.0).  It shares no code, table or
constant with gdstk; it is the trusted base of check C03 and feeds C17 / C18 / C01.

Python standard library only.  Everything is deterministic.

INTERFACE (stable; other checks import this module)
---------------------------------------------------
Numbers
  real8_encode(x) -> (u64, exact)     x: int | Fraction | float (floats are taken at their exact binary
                                      value); round-to-nearest on the 56-bit mantissa, normalised.
  real8_decode(u64) -> Fraction       exact value (-1)^s * m/2^56 * 16^(e-64)
  real8_normalised(u64) -> bool       top hex digit of the mantissa != 0, or the canonical zero

Records
  record(rtype, payload=b'') -> bytes         one framed record (data type taken from RECORDS)
  split_records(data) -> [(offset, rtype, dtype, payload)]   framing only; raises GdsError on odd /
                                      short lengths or truncation; trailing NUL padding is allowed
                                      and reported through the optional `notes` list.

Abstract layout (plain dicts; the same structure is accepted by encode() and produced by decode())
  layout = {'version': int, 'bgnlib': [12 ints], 'libname': str,
            'reflibs': None|bytes, 'fonts': None|bytes, 'attrtable': None|bytes,
            'generations': None|int, 'format': None|int, 'masks': [bytes],    # optional header records
            'units': (Fraction user_units_per_db_unit, Fraction metres_per_db_unit),
            'cells': [ {'name': str, 'bgnstr': [12 ints], 'elements': [element, ...]}, ... ]}   # file order
  element (coordinates are integer database units):
    common    'kind', 'elflags': None|int, 'plex': None|int, 'props': [(attr:int, value:bytes), ...]
    boundary  'layer', 'datatype', 'xy': [(x,y), ...]        # closing point NOT repeated
    box       'layer', 'boxtype',  'xy': [4 points]          # closing point NOT repeated
    path      'layer', 'datatype', 'pathtype' (0), 'width' (0; negative = absolute), 'bgnextn' (0),
              'endextn' (0), 'xy': [(x,y), ...]
    sref      'sname', 'reflect' (False), 'absmag' (False), 'absangle' (False), 'mag' (Fraction 1),
              'angle' (Fraction 0, degrees ccw), 'xy': (x,y)
    aref      as sref + 'cols', 'rows', 'xy': [origin, origin+cols*colpitch, origin+rows*rowpitch]
    text      'layer', 'texttype', 'font' (0), 'vjust' (0 top/1 middle/2 bottom), 'hjust' (0 left/
              1 centre/2 right), 'pathtype' (0), 'width' (0), 'reflect', 'absmag', 'absangle', 'mag',
              'angle', 'xy': (x,y), 'string': bytes
    (defaults in parentheses are what an absent optional record means)
  element['syn'] - the serialisation choices ("choice points"); decode() reports them, encode() obeys
  them (missing keys: record present iff the value differs from its default; XY in one record):
      'pathtype','width','bgnextn','endextn','presentation','strans','mag','angle' : bool (present)
      'xy_split' : tuple of point counts per XY record, e.g. (2,3) - must sum to the number of points
                   written (boundary/box include the closing point)
      'mag_shift','angle_shift' : int k (encoder only) - write the real UNNORMALISED with k leading zero
                   hex digits (same value); layout['units_shift'] = (k1,k2) likewise for UNITS.  The strict
                   decoder rejects unnormalised reals (class real8_unnormalised); decode(strict=False) reads them.
  Other choice points are part of the layout itself: optional header records (None = absent), order of
  'cells' (forward references), 'elflags'/'plex' (None = absent), 'props' (0..n), string lengths (odd
  lengths get the single NUL pad the format prescribes).

  encode(layout) -> bytes             raises GdsError for layouts the format cannot hold
  decode(data, strict=True, notes=None) -> layout
        strict decoder: rejects odd/short record lengths, wrong data types, wrong payload sizes,
        records outside the element grammar, open boundaries / boxes, wrong point counts, fields outside
        their 16/32-bit or enumerated ranges, reserved bits, unnormalised or non-canonical reals, bad
        string padding, data after ENDLIB other than NUL padding.  Soft observations (multi-record XY,
        strings beyond the recommended limits, >8190-point boundaries) are appended to `notes`.
  semantic(element) -> element without 'syn' (for comparisons);  same_layout(a, b) -> bool
  describe(layout) -> str             human-readable record-level listing (replays)
  to_jsonable(obj)                    Fractions -> "p/q" strings, bytes -> latin-1 str

Self-test:  python3 codec/gds_codec.py --selftest   (encode -> strict decode identity over the codec's
own alphabet, real8 exactness, framing rejection tests)
"""
import struct
import sys
from fractions import Fraction

# ------------------------------------------------------------------------------------------------
# record table: code -> (name, data type).  Data types: 0 none, 1 bit array, 2 int16, 3 int32,
# 4 real4, 5 real8, 6 ASCII
RECORDS = {
    0x00: ('HEADER', 2), 0x01: ('BGNLIB', 2), 0x02: ('LIBNAME', 6), 0x03: ('UNITS', 5),
    0x04: ('ENDLIB', 0), 0x05: ('BGNSTR', 2), 0x06: ('STRNAME', 6), 0x07: ('ENDSTR', 0),
    0x08: ('BOUNDARY', 0), 0x09: ('PATH', 0), 0x0A: ('SREF', 0), 0x0B: ('AREF', 0),
    0x0C: ('TEXT', 0), 0x0D: ('LAYER', 2), 0x0E: ('DATATYPE', 2), 0x0F: ('WIDTH', 3),
    0x10: ('XY', 3), 0x11: ('ENDEL', 0), 0x12: ('SNAME', 6), 0x13: ('COLROW', 2),
    0x16: ('TEXTTYPE', 2), 0x17: ('PRESENTATION', 1), 0x19: ('STRING', 6), 0x1A: ('STRANS', 1),
    0x1B: ('MAG', 5), 0x1C: ('ANGLE', 5), 0x1F: ('REFLIBS', 6), 0x20: ('FONTS', 6),
    0x21: ('PATHTYPE', 2), 0x22: ('GENERATIONS', 2), 0x23: ('ATTRTABLE', 6), 0x26: ('ELFLAGS', 1),
    0x2B: ('PROPATTR', 2), 0x2C: ('PROPVALUE', 6), 0x2D: ('BOX', 0), 0x2E: ('BOXTYPE', 2),
    0x2F: ('PLEX', 3), 0x30: ('BGNEXTN', 3), 0x31: ('ENDEXTN', 3), 0x36: ('FORMAT', 2),
    0x37: ('MASK', 6), 0x38: ('ENDMASKS', 0),
}
CODE = {v[0]: k for k, v in RECORDS.items()}
MAX_RECORD = 65534
MAX_XY_PER_RECORD = (MAX_RECORD - 4) // 8  # 8191


class GdsError(Exception):
    """cls: short machine-readable class; offset: byte offset of the offending record (or None)."""

    def __init__(self, cls, msg, offset=None):
        Exception.__init__(self, '%s: %s%s' % (cls, msg, '' if offset is None else ' (at byte %d)' % offset))
        self.cls = cls
        self.msg = msg
        self.offset = offset


# ------------------------------------------------------------------------------------------------
# excess-64, base-16, 8-byte reals
def _to_fraction(x):
    if isinstance(x, Fraction):
        return x
    if isinstance(x, int):
        return Fraction(x)
    if isinstance(x, float):
        return Fraction(x)  # exact binary value
    raise TypeError('real8: unsupported type %r' % type(x))


def real8_encode(x):
    """-> (u64, exact).  Normalised (top hex digit of the mantissa non-zero), nearest mantissa."""
    v = _to_fraction(x)
    if v == 0:
        return 0, True
    sign = 0
    if v < 0:
        sign = 1
        v = -v
    # find e with 1/16 <= v / 16^(e-64) < 1
    e = 64
    while v >= Fraction(16) ** (e - 64):
        e += 1
    while v < Fraction(16) ** (e - 65):
        e -= 1
    scaled = v / Fraction(16) ** (e - 64) * (1 << 56)
    m = scaled.numerator // scaled.denominator
    rem = scaled - m
    exact = rem == 0
    if rem > Fraction(1, 2) or (rem == Fraction(1, 2) and (m & 1)):
        m += 1
    if m == 1 << 56:
        m = 1 << 52
        e += 1
    if not 0 <= e <= 127:
        raise GdsError('real8_range', 'value %s outside the excess-64 exponent range' % x)
    return (sign << 63) | (e << 56) | m, exact


def real8_decode(u):
    s = -1 if (u >> 63) & 1 else 1
    e = (u >> 56) & 0x7F
    m = u & ((1 << 56) - 1)
    return s * Fraction(m, 1 << 56) * Fraction(16) ** (e - 64)


def real8_normalised(u):
    m = u & ((1 << 56) - 1)
    if m == 0:
        return u == 0  # canonical zero: all bits clear
    return (m >> 52) != 0


# ------------------------------------------------------------------------------------------------
# framing
def record(rtype, payload=b''):
    if isinstance(rtype, str):
        rtype = CODE[rtype]
    n = 4 + len(payload)
    if n % 2:
        raise GdsError('odd_length', 'payload of %s has odd length %d' % (RECORDS[rtype][0], len(payload)))
    if n > MAX_RECORD:
        raise GdsError('record_too_long', '%s record of %d bytes' % (RECORDS[rtype][0], n))
    return struct.pack('>HBB', n, rtype, RECORDS[rtype][1]) + payload


def split_records(data, notes=None):
    """Framing only.  Stops after ENDLIB; the rest must be NUL padding."""
    out = []
    pos = 0
    n = len(data)
    while pos < n:
        if n - pos < 4:
            raise GdsError('truncated', 'less than 4 bytes left for a record header', pos)
        length, rtype, dtype = struct.unpack_from('>HBB', data, pos)
        if length < 4:
            raise GdsError('short_length', 'record length %d < 4' % length, pos)
        if length % 2:
            raise GdsError('odd_length', 'record length %d is odd' % length, pos)
        if pos + length > n:
            raise GdsError('truncated', 'record of %d bytes runs past the end of the file' % length, pos)
        out.append((pos, rtype, dtype, data[pos + 4:pos + length]))
        pos += length
        if rtype == 0x04:
            break
    if pos < n:
        tail = data[pos:]
        if tail.strip(b'\0'):
            raise GdsError('data_after_endlib', '%d non-NUL bytes after ENDLIB' % len(tail), pos)
        if notes is not None:
            notes.append('nul_padding_after_endlib:%d' % len(tail))
    return out


# ------------------------------------------------------------------------------------------------
# payload helpers
def _i16(*v):
    for x in v:
        if not -32768 <= x <= 32767:
            raise GdsError('range16', 'value %d does not fit a 2-byte signed integer' % x)
    return struct.pack('>%dh' % len(v), *v)


def _u16bits(v):
    if not 0 <= v <= 0xFFFF:
        raise GdsError('range16', 'bit array %d does not fit 16 bits' % v)
    return struct.pack('>H', v)


def _i32(*v):
    for x in v:
        if not -2 ** 31 <= x <= 2 ** 31 - 1:
            raise GdsError('range32', 'value %d does not fit a 4-byte signed integer' % x)
    return struct.pack('>%di' % len(v), *v)


def _ascii(s):
    """string payload: one NUL pad iff the length is odd (the only padding the format prescribes)"""
    if isinstance(s, str):
        s = s.encode('ascii')
    if b'\0' in s:
        raise GdsError('nul_in_string', 'NUL inside a string')
    return s + (b'\0' if len(s) % 2 else b'')


def real8_denormalise(u, shift):
    """the same value with `shift` leading zero hex digits in the mantissa (exponent raised by `shift`);
    only possible when the dropped low digits are zero.  Unnormalised reals are unusual but decodable."""
    if not shift or u == 0:
        return u
    m, e = u & ((1 << 56) - 1), (u >> 56) & 0x7F
    if m % (16 ** shift) or e + shift > 127:
        raise GdsError('choice', 'real %016x cannot be written with %d leading zero digits' % (u, shift))
    return (u & (1 << 63)) | ((e + shift) << 56) | (m >> (4 * shift))


def _r8(x, shift=0):
    u, _ = real8_encode(x)
    return struct.pack('>Q', real8_denormalise(u, shift))


DEFAULT_TIME = [2000, 1, 2, 3, 4, 5, 2000, 1, 2, 3, 4, 5]

ELEMENT_DEFAULTS = {
    'path': {'pathtype': 0, 'width': 0, 'bgnextn': 0, 'endextn': 0},
    'sref': {'reflect': False, 'absmag': False, 'absangle': False, 'mag': Fraction(1), 'angle': Fraction(0)},
    'aref': {'reflect': False, 'absmag': False, 'absangle': False, 'mag': Fraction(1), 'angle': Fraction(0)},
    'text': {'font': 0, 'vjust': 0, 'hjust': 0, 'pathtype': 0, 'width': 0, 'reflect': False, 'absmag': False,
             'absangle': False, 'mag': Fraction(1), 'angle': Fraction(0)},
    'boundary': {}, 'box': {},
}


def normalise_element(el):
    """fill defaults (returns a new dict; 'syn' preserved)"""
    e = dict(el)
    for k, v in ELEMENT_DEFAULTS[e['kind']].items():
        e.setdefault(k, v)
    e.setdefault('elflags', None)
    e.setdefault('plex', None)
    e['props'] = [(int(a), bytes(v) if not isinstance(v, str) else v.encode('ascii')) for a, v in e.get('props', [])]
    for k in ('mag', 'angle'):
        if k in e:
            e[k] = _to_fraction(e[k])
    if 'string' in e and isinstance(e['string'], str):
        e['string'] = e['string'].encode('ascii')
    if e['kind'] in ('sref', 'text'):
        e['xy'] = tuple(e['xy'])
    else:
        e['xy'] = [tuple(p) for p in e['xy']]
    return e


def semantic(el):
    e = normalise_element(el)
    e.pop('syn', None)
    return e


def same_layout(a, b):
    def canon(l):
        return (l.get('libname'), tuple(l['units']),
                [(c['name'], [sorted(semantic(e).items(), key=lambda kv: kv[0]) for e in c['elements']]) for c in l['cells']])
    return canon(a) == canon(b)


# ------------------------------------------------------------------------------------------------
# encoder
def _present(el, syn, key, value_keys):
    """is optional record `key` written?  explicit choice, else iff any governed value is non-default"""
    nondefault = any(el[k] != ELEMENT_DEFAULTS[el['kind']][k] for k in value_keys)
    if key in syn:
        if not syn[key] and nondefault:
            raise GdsError('choice', '%s record chosen absent but its value is not the default' % key)
        return bool(syn[key])
    return nondefault


def _xy_records(points, split):
    if split is None:
        split = (len(points),) if len(points) <= MAX_XY_PER_RECORD else None
    if split is None:  # automatic continuation of long lists
        split = []
        left = len(points)
        while left:
            k = min(left, MAX_XY_PER_RECORD)
            split.append(k)
            left -= k
    if sum(split) != len(points) or any(k <= 0 for k in split):
        raise GdsError('choice', 'xy_split %r does not partition %d points' % (tuple(split), len(points)))
    out = b''
    i = 0
    for k in split:
        flat = [c for p in points[i:i + k] for c in p]
        out += record('XY', _i32(*flat))
        i += k
    return out


def _strans_block(el, syn):
    out = b''
    bits = (0x8000 if el['reflect'] else 0) | (0x0004 if el['absmag'] else 0) | (0x0002 if el['absangle'] else 0)
    mag_p = _present(el, syn, 'mag', ['mag'])
    ang_p = _present(el, syn, 'angle', ['angle'])
    if 'strans' in syn:
        strans_p = bool(syn['strans'])
        if not strans_p and (bits or mag_p or ang_p):
            raise GdsError('choice', 'STRANS chosen absent but a transformation record/bit is needed')
    else:
        strans_p = bool(bits) or mag_p or ang_p
    if strans_p:
        out += record('STRANS', _u16bits(bits))
        if mag_p:
            out += record('MAG', _r8(el['mag'], syn.get('mag_shift', 0)))
        if ang_p:
            out += record('ANGLE', _r8(el['angle'], syn.get('angle_shift', 0)))
    return out


def encode_element(el):
    e = normalise_element(el)
    syn = e.get('syn', {})
    k = e['kind']
    start = {'boundary': 'BOUNDARY', 'box': 'BOX', 'path': 'PATH', 'sref': 'SREF', 'aref': 'AREF', 'text': 'TEXT'}[k]
    out = record(start)
    if e['elflags'] is not None:
        out += record('ELFLAGS', _u16bits(e['elflags']))
    if e['plex'] is not None:
        out += record('PLEX', _i32(e['plex']))
    if k == 'boundary':
        if len(e['xy']) < 3:
            raise GdsError('too_few_points', 'boundary with %d vertices' % len(e['xy']))
        out += record('LAYER', _i16(e['layer'])) + record('DATATYPE', _i16(e['datatype']))
        out += _xy_records(e['xy'] + [e['xy'][0]], syn.get('xy_split'))
    elif k == 'box':
        if len(e['xy']) != 4:
            raise GdsError('box_points', 'box needs exactly 4 vertices')
        out += record('LAYER', _i16(e['layer'])) + record('BOXTYPE', _i16(e['boxtype']))
        out += _xy_records(e['xy'] + [e['xy'][0]], syn.get('xy_split'))
    elif k == 'path':
        if len(e['xy']) < 2:
            raise GdsError('too_few_points', 'path with %d points' % len(e['xy']))
        out += record('LAYER', _i16(e['layer'])) + record('DATATYPE', _i16(e['datatype']))
        if _present(e, syn, 'pathtype', ['pathtype']):
            out += record('PATHTYPE', _i16(e['pathtype']))
        if _present(e, syn, 'width', ['width']):
            out += record('WIDTH', _i32(e['width']))
        if _present(e, syn, 'bgnextn', ['bgnextn']):
            out += record('BGNEXTN', _i32(e['bgnextn']))
        if _present(e, syn, 'endextn', ['endextn']):
            out += record('ENDEXTN', _i32(e['endextn']))
        out += _xy_records(e['xy'], syn.get('xy_split'))
    elif k in ('sref', 'aref'):
        out += record('SNAME', _ascii(e['sname']))
        out += _strans_block(e, syn)
        if k == 'aref':
            if not (0 < e['cols'] <= 32767 and 0 < e['rows'] <= 32767):
                raise GdsError('colrow_range', 'COLROW %d x %d' % (e['cols'], e['rows']))
            if len(e['xy']) != 3:
                raise GdsError('aref_points', 'AREF needs exactly 3 points')
            out += record('COLROW', _i16(e['cols'], e['rows']))
            out += _xy_records(e['xy'], syn.get('xy_split'))
        else:
            out += _xy_records([e['xy']], None)
    elif k == 'text':
        out += record('LAYER', _i16(e['layer'])) + record('TEXTTYPE', _i16(e['texttype']))
        if not (0 <= e['font'] <= 3 and 0 <= e['vjust'] <= 2 and 0 <= e['hjust'] <= 2):
            raise GdsError('presentation_range', 'font/vjust/hjust out of range')
        if _present(e, syn, 'presentation', ['font', 'vjust', 'hjust']):
            out += record('PRESENTATION', _u16bits((e['font'] << 4) | (e['vjust'] << 2) | e['hjust']))
        if _present(e, syn, 'pathtype', ['pathtype']):
            out += record('PATHTYPE', _i16(e['pathtype']))
        if _present(e, syn, 'width', ['width']):
            out += record('WIDTH', _i32(e['width']))
        out += _strans_block(e, syn)
        out += _xy_records([e['xy']], None)
        out += record('STRING', _ascii(e['string']))
    for attr, val in e['props']:
        out += record('PROPATTR', _i16(attr)) + record('PROPVALUE', _ascii(val))
    return out + record('ENDEL')


def encode(layout):
    out = record('HEADER', _i16(layout.get('version', 600)))
    out += record('BGNLIB', _i16(*layout.get('bgnlib', DEFAULT_TIME)))
    out += record('LIBNAME', _ascii(layout.get('libname', 'LIB')))
    if layout.get('reflibs') is not None:
        out += record('REFLIBS', layout['reflibs'])
    if layout.get('fonts') is not None:
        out += record('FONTS', layout['fonts'])
    if layout.get('attrtable') is not None:
        out += record('ATTRTABLE', _ascii(layout['attrtable']))
    if layout.get('generations') is not None:
        out += record('GENERATIONS', _i16(layout['generations']))
    if layout.get('format') is not None:
        out += record('FORMAT', _i16(layout['format']))
        if layout.get('masks'):
            for m in layout['masks']:
                out += record('MASK', _ascii(m))
            out += record('ENDMASKS')
    elif layout.get('masks'):
        raise GdsError('choice', 'MASK records need a FORMAT record')
    u, m = layout['units']
    us = layout.get('units_shift', (0, 0))
    out += record('UNITS', _r8(u, us[0]) + _r8(m, us[1]))
    for c in layout['cells']:
        out += record('BGNSTR', _i16(*c.get('bgnstr', DEFAULT_TIME)))
        out += record('STRNAME', _ascii(c['name']))
        for el in c['elements']:
            out += encode_element(el)
        out += record('ENDSTR')
    return out + record('ENDLIB')


def encoded_units(user_per_db, metres_per_db):
    """the exact values a file carries when these units are encoded (nearest real8)"""
    return (real8_decode(real8_encode(user_per_db)[0]), real8_decode(real8_encode(metres_per_db)[0]))


# ------------------------------------------------------------------------------------------------
# strict decoder
class _Cursor:
    def __init__(self, recs, strict, notes):
        self.recs = recs
        self.i = 0
        self.strict = strict
        self.notes = notes

    def peek(self):
        if self.i >= len(self.recs):
            return None
        return self.recs[self.i][1]

    def offset(self):
        if self.i >= len(self.recs):
            return None
        return self.recs[self.i][0]

    def take(self, name):
        """consume a record that must be `name`; returns the decoded payload"""
        if self.i >= len(self.recs):
            raise GdsError('grammar', 'file ends where %s is required' % name)
        off, rtype, dtype, payload = self.recs[self.i]
        if rtype != CODE[name]:
            got = RECORDS.get(rtype, ('0x%02X' % rtype,))[0]
            raise GdsError('grammar', '%s found where %s is required' % (got, name), off)
        self.i += 1
        return _payload(name, rtype, dtype, payload, off, self.strict, self.notes)

    def maybe(self, name):
        if self.peek() == CODE[name]:
            return self.take(name)
        return None


def _decode_string(name, payload, off, strict):
    """the format pads odd-length strings with exactly one NUL"""
    s = payload
    if s.endswith(b'\0'):
        s = s[:-1]
    if strict:
        if b'\0' in s:
            raise GdsError('string_padding', '%s has more than one trailing NUL or an embedded NUL' % name, off)
        if any(c < 0x20 or c > 0x7E for c in s):
            raise GdsError('string_charset', '%s contains non-printable / non-ASCII bytes' % name, off)
    return s


FIXED44 = ('REFLIBS', 'FONTS')


def _payload(name, rtype, dtype, payload, off, strict, notes):
    want = RECORDS[rtype][1]
    if dtype != want and strict:
        raise GdsError('bad_dtype', '%s carries data type %d, the format says %d' % (name, dtype, want), off)
    n = len(payload)
    if want == 0:
        if n and strict:
            raise GdsError('bad_size', '%s must not carry data (%d bytes)' % (name, n), off)
        return None
    if want in (1, 2):
        count = {'HEADER': 1, 'BGNLIB': 12, 'BGNSTR': 12, 'COLROW': 2}.get(name, 1)
        if n != 2 * count:
            raise GdsError('bad_size', '%s must carry %d bytes, has %d' % (name, 2 * count, n), off)
        vals = struct.unpack('>%d%s' % (count, 'H' if want == 1 else 'h'), payload)
        return vals if count > 1 else vals[0]
    if want == 3:
        if name == 'XY':
            if n == 0 or n % 8:
                raise GdsError('bad_size', 'XY payload of %d bytes is not a positive multiple of 8' % n, off)
            flat = struct.unpack('>%di' % (n // 4), payload)
            return [(flat[i], flat[i + 1]) for i in range(0, len(flat), 2)]
        if n != 4:
            raise GdsError('bad_size', '%s must carry 4 bytes, has %d' % (name, n), off)
        return struct.unpack('>i', payload)[0]
    if want == 5:
        count = 2 if name == 'UNITS' else 1
        if n != 8 * count:
            raise GdsError('bad_size', '%s must carry %d bytes, has %d' % (name, 8 * count, n), off)
        us = struct.unpack('>%dQ' % count, payload)
        if strict:
            for u in us:
                if not real8_normalised(u):
                    raise GdsError('real8_unnormalised', '%s real %016x is not normalised / not the canonical zero' % (name, u), off)
        vals = tuple(real8_decode(u) for u in us)
        return vals if count > 1 else vals[0]
    if want == 6:
        if name in FIXED44:
            if (n == 0 or n % 44) and strict:
                raise GdsError('bad_size', '%s payload of %d bytes is not a multiple of 44' % (name, n), off)
            return payload
        if n == 0 and strict:
            # an empty string has no legal encoding other than a zero-length payload; accept it
            return b''
        return _decode_string(name, payload, off, strict)
    raise GdsError('bad_dtype', 'unsupported data type %d' % want, off)


def _check_time(name, t, off, strict):
    if not strict:
        return
    for k in (0, 6):
        y, mo, d, h, mi, s = t[k:k + 6]
        if not (0 <= y <= 9999 and 0 <= mo <= 12 and 0 <= d <= 31 and 0 <= h <= 23 and 0 <= mi <= 59 and 0 <= s <= 60):
            raise GdsError('time_range', '%s time stamp field out of range: %r' % (name, t), off)


def _nonneg16(name, v, off, strict):
    if strict and v < 0:
        raise GdsError('range16', '%s is negative (%d): does not fit the signed 16-bit field' % (name, v), off)
    return v


def _decode_strans(cur, el, syn, strict):
    off = cur.offset()
    bits = cur.maybe('STRANS')
    syn['strans'] = bits is not None
    syn['mag'] = syn['angle'] = False
    el.update(reflect=False, absmag=False, absangle=False, mag=Fraction(1), angle=Fraction(0))
    if bits is None:
        return
    if strict and bits & ~0x8006:
        raise GdsError('reserved_bits', 'STRANS has reserved bits set: 0x%04X' % bits, off)
    el['reflect'] = bool(bits & 0x8000)
    el['absmag'] = bool(bits & 0x0004)
    el['absangle'] = bool(bits & 0x0002)
    off = cur.offset()
    m = cur.maybe('MAG')
    if m is not None:
        syn['mag'] = True
        el['mag'] = m
        if strict and m <= 0:
            raise GdsError('mag_range', 'MAG %s is not positive' % m, off)
    a = cur.maybe('ANGLE')
    if a is not None:
        syn['angle'] = True
        el['angle'] = a


def _decode_xy(cur, notes):
    pts = []
    split = []
    if cur.peek() != CODE['XY']:
        cur.take('XY')  # raises the grammar error
    while cur.peek() == CODE['XY']:
        p = cur.take('XY')
        pts += p
        split.append(len(p))
    if len(split) > 1 and notes is not None:
        notes.append('multi_record_xy:%s' % ('+'.join(map(str, split)) if len(split) < 6 else '%d records' % len(split)))
    return pts, tuple(split)


def _decode_element(cur, strict, notes):
    off = cur.offset()
    start = cur.peek()
    kind = {CODE['BOUNDARY']: 'boundary', CODE['PATH']: 'path', CODE['SREF']: 'sref', CODE['AREF']: 'aref',
            CODE['TEXT']: 'text', CODE['BOX']: 'box'}.get(start)
    if kind is None:
        got = RECORDS.get(start, ('0x%02X' % start,))[0]
        raise GdsError('grammar', '%s found where an element or ENDSTR is required' % got, off)
    cur.take(RECORDS[start][0])
    el = {'kind': kind}
    syn = {}
    el['elflags'] = cur.maybe('ELFLAGS')
    if strict and el['elflags'] is not None and el['elflags'] & ~0x0003:
        raise GdsError('reserved_bits', 'ELFLAGS has reserved bits set: 0x%04X' % el['elflags'], off)
    el['plex'] = cur.maybe('PLEX')
    if kind in ('boundary', 'box', 'path', 'text'):
        el['layer'] = _nonneg16('LAYER', cur.take('LAYER'), off, strict)
    if kind in ('boundary', 'path'):
        el['datatype'] = _nonneg16('DATATYPE', cur.take('DATATYPE'), off, strict)
    if kind == 'box':
        el['boxtype'] = _nonneg16('BOXTYPE', cur.take('BOXTYPE'), off, strict)
    if kind == 'text':
        el['texttype'] = _nonneg16('TEXTTYPE', cur.take('TEXTTYPE'), off, strict)
        poff = cur.offset()
        pres = cur.maybe('PRESENTATION')
        syn['presentation'] = pres is not None
        pres = pres or 0
        if strict and pres & ~0x003F:
            raise GdsError('reserved_bits', 'PRESENTATION has reserved bits set: 0x%04X' % pres, poff)
        el['font'], el['vjust'], el['hjust'] = (pres >> 4) & 3, (pres >> 2) & 3, pres & 3
        if strict and (el['vjust'] == 3 or el['hjust'] == 3):
            raise GdsError('presentation_range', 'PRESENTATION justification value 3 is undefined: 0x%04X' % pres, poff)
    if kind in ('path', 'text'):
        poff = cur.offset()
        pt = cur.maybe('PATHTYPE')
        syn['pathtype'] = pt is not None
        el['pathtype'] = pt or 0
        if strict and el['pathtype'] not in (0, 1, 2, 4):
            raise GdsError('pathtype_range', 'PATHTYPE %d is not one of 0, 1, 2, 4' % el['pathtype'], poff)
        w = cur.maybe('WIDTH')
        syn['width'] = w is not None
        el['width'] = w or 0
    if kind == 'path':
        b = cur.maybe('BGNEXTN')
        syn['bgnextn'] = b is not None
        el['bgnextn'] = b or 0
        e = cur.maybe('ENDEXTN')
        syn['endextn'] = e is not None
        el['endextn'] = e or 0
    if kind in ('sref', 'aref'):
        el['sname'] = cur.take('SNAME').decode('latin-1')
        if strict and not el['sname']:
            raise GdsError('empty_name', 'empty SNAME', off)
    if kind in ('sref', 'aref', 'text'):
        _decode_strans(cur, el, syn, strict)
    if kind == 'aref':
        coff = cur.offset()
        el['cols'], el['rows'] = cur.take('COLROW')
        if strict and not (0 < el['cols'] <= 32767 and 0 < el['rows'] <= 32767):
            raise GdsError('colrow_range', 'COLROW %d x %d outside 1..32767' % (el['cols'], el['rows']), coff)
    xoff = cur.offset()
    pts, split = _decode_xy(cur, notes)
    syn['xy_split'] = split
    if kind in ('boundary', 'box'):
        if pts[0] != pts[-1] or len(pts) < 2:
            raise GdsError('open_boundary', '%s is not closed: first %r last %r' % (kind.upper(), pts[0], pts[-1]), xoff)
        if kind == 'box' and len(pts) != 5:
            raise GdsError('point_count', 'BOX with %d points (5 required)' % len(pts), xoff)
        if kind == 'boundary' and len(pts) < 4:
            raise GdsError('point_count', 'BOUNDARY with %d points (at least 4 required)' % len(pts), xoff)
        if len(pts) > 8191 and notes is not None:
            notes.append('boundary_over_8191_points:%d' % len(pts))
        el['xy'] = pts[:-1]
    elif kind == 'path':
        if len(pts) < 2:
            raise GdsError('point_count', 'PATH with %d point(s)' % len(pts), xoff)
        el['xy'] = pts
    elif kind in ('sref', 'text'):
        if len(pts) != 1:
            raise GdsError('point_count', '%s with %d points (1 required)' % (kind.upper(), len(pts)), xoff)
        el['xy'] = pts[0]
    else:
        if len(pts) != 3:
            raise GdsError('point_count', 'AREF with %d points (3 required)' % len(pts), xoff)
        el['xy'] = pts
    if kind == 'text':
        el['string'] = cur.take('STRING')
        if len(el['string']) > 512 and notes is not None:
            notes.append('string_over_512:%d' % len(el['string']))
    props = []
    total = 0
    while cur.peek() == CODE['PROPATTR']:
        poff = cur.offset()
        attr = cur.take('PROPATTR')
        if strict and not 1 <= attr <= 127 and notes is not None:
            notes.append('propattr_outside_1_127:%d' % attr)
        if strict and attr < 0:
            raise GdsError('range16', 'PROPATTR is negative (%d)' % attr, poff)
        val = cur.take('PROPVALUE')
        if notes is not None and any(a == attr for a, _ in props):
            notes.append('duplicate_propattr:%d' % attr)  # the format wants distinct attribute numbers per element
        total += len(val) + (len(val) & 1) + 4
        props.append((attr, val))
    if total > 128 and notes is not None:
        notes.append('properties_over_128_bytes:%d' % total)
    el['props'] = props
    cur.take('ENDEL')
    el['syn'] = syn
    return el


def decode(data, strict=True, notes=None):
    recs = split_records(data, notes)
    if strict:
        for off, rtype, dtype, payload in recs:
            if rtype not in RECORDS:
                raise GdsError('unknown_record', 'record type 0x%02X is not part of the grammar' % rtype, off)
    cur = _Cursor(recs, strict, notes)
    lay = {}
    lay['version'] = cur.take('HEADER')
    off = cur.offset()
    lay['bgnlib'] = list(cur.take('BGNLIB'))
    _check_time('BGNLIB', lay['bgnlib'], off, strict)
    lay['libname'] = cur.take('LIBNAME').decode('latin-1')
    lay['reflibs'] = cur.maybe('REFLIBS')
    lay['fonts'] = cur.maybe('FONTS')
    lay['attrtable'] = cur.maybe('ATTRTABLE')
    lay['generations'] = cur.maybe('GENERATIONS')
    lay['format'] = cur.maybe('FORMAT')
    lay['masks'] = []
    if lay['format'] is not None:
        while cur.peek() == CODE['MASK']:
            lay['masks'].append(cur.take('MASK'))
        if lay['masks'] or cur.peek() == CODE['ENDMASKS']:
            cur.take('ENDMASKS')
    off = cur.offset()
    lay['units'] = cur.take('UNITS')
    if strict and (lay['units'][0] <= 0 or lay['units'][1] <= 0):
        raise GdsError('units_range', 'UNITS must be positive: %r' % (lay['units'],), off)
    lay['cells'] = []
    names = set()
    while cur.peek() == CODE['BGNSTR']:
        off = cur.offset()
        c = {'bgnstr': list(cur.take('BGNSTR'))}
        _check_time('BGNSTR', c['bgnstr'], off, strict)
        c['name'] = cur.take('STRNAME').decode('latin-1')
        if strict and not c['name']:
            raise GdsError('empty_name', 'empty STRNAME', off)
        if strict and c['name'] in names:
            raise GdsError('duplicate_structure', 'structure %r defined twice' % c['name'], off)
        names.add(c['name'])
        c['elements'] = []
        while cur.peek() != CODE['ENDSTR']:
            if cur.peek() is None:
                raise GdsError('grammar', 'file ends inside structure %r' % c['name'])
            c['elements'].append(_decode_element(cur, strict, notes))
        cur.take('ENDSTR')
        lay['cells'].append(c)
    cur.take('ENDLIB')
    if cur.i != len(recs):
        raise GdsError('grammar', 'records after ENDLIB', cur.offset())
    return lay


# ------------------------------------------------------------------------------------------------
# presentation helpers
def to_jsonable(o):
    if isinstance(o, Fraction):
        return '%d/%d' % (o.numerator, o.denominator) if o.denominator != 1 else o.numerator
    if isinstance(o, (bytes, bytearray)):
        return o.decode('latin-1')
    if isinstance(o, dict):
        return {str(k): to_jsonable(v) for k, v in o.items()}
    if isinstance(o, (list, tuple)):
        return [to_jsonable(v) for v in o]
    return o


def describe(data):
    """record-level listing of a byte string (never raises on grammar; framing errors end the list)"""
    lines = []
    try:
        recs = split_records(data)
    except GdsError as e:
        return 'unframeable: %s' % e
    for off, rtype, dtype, payload in recs:
        name = RECORDS.get(rtype, ('0x%02X' % rtype, None))[0]
        try:
            if dtype in (1, 2):
                val = list(struct.unpack('>%d%s' % (len(payload) // 2, 'H' if dtype == 1 else 'h'), payload))
                if dtype == 1:
                    val = ['0x%04X' % v for v in val]
            elif dtype == 3:
                val = list(struct.unpack('>%di' % (len(payload) // 4), payload))
            elif dtype == 5:
                val = ['%s (=%.17g)' % (payload[i:i + 8].hex(), float(real8_decode(struct.unpack('>Q', payload[i:i + 8])[0]))) for i in range(0, len(payload), 8)]
            elif dtype == 6:
                val = repr(payload)
            else:
                val = ''
        except struct.error:
            val = payload.hex()
        if isinstance(val, list) and len(val) > 24:
            val = '%r ... (%d values)' % (val[:24], len(val))
        lines.append('%6d  %-12s %s' % (off, name, val))
    return '\n'.join(lines)


# ------------------------------------------------------------------------------------------------
# self-test
def _selftest_alphabet():
    """the encoder's own alphabet: every element kind x every choice point (small domains)"""
    import itertools
    els = []
    tri = [(0, 0), (10, 0), (0, 7)]
    pent = [(0, 0), (10, 0), (12, 5), (5, 9), (-3, 4)]
    for pts in (tri, pent):
        n = len(pts) + 1
        for mask in range(1 << (n - 1)):
            split, run = [], 1
            for i in range(n - 1):
                if mask >> i & 1:
                    split.append(run)
                    run = 1
                else:
                    run += 1
            split.append(run)
            els.append({'kind': 'boundary', 'layer': 1, 'datatype': 2, 'xy': pts, 'syn': {'xy_split': tuple(split)}})
    els.append({'kind': 'box', 'layer': 32767, 'boxtype': 0, 'xy': [(0, 0), (4, 0), (4, 4), (0, 4)], 'syn': {'xy_split': (2, 3)}})
    for pt, w, b, e in itertools.product((None, 0, 1, 2, 4), (None, 0, 100, -100), (None, 0, 5, -5), (None, 0, 6, -6)):
        syn = {'pathtype': pt is not None, 'width': w is not None, 'bgnextn': b is not None, 'endextn': e is not None}
        els.append({'kind': 'path', 'layer': 3, 'datatype': 4, 'pathtype': pt or 0, 'width': w or 0, 'bgnextn': b or 0,
                    'endextn': e or 0, 'xy': [(0, 0), (100, 0), (100, -2 ** 31)], 'syn': syn})
    trans = [({'strans': False}, {})]
    for refl, mag, ang in itertools.product((False, True), (None, 1, Fraction(5, 2)), (None, 0, 90, 30, real8_decode(real8_encode(Fraction(-1, 3))[0]))):
        trans.append(({'strans': True, 'mag': mag is not None, 'angle': ang is not None},
                      {'reflect': refl, 'mag': 1 if mag is None else mag, 'angle': 0 if ang is None else ang}))
    for syn, vals in trans:
        els.append(dict({'kind': 'sref', 'sname': 'KID', 'xy': (5, -6), 'syn': dict(syn)}, **vals))
        els.append(dict({'kind': 'aref', 'sname': 'KIDS', 'cols': 2, 'rows': 3, 'xy': [(0, 0), (20, 0), (0, 30)], 'syn': dict(syn)}, **vals))
        for pres in (None, (0, 0, 0), (1, 2, 1), (3, 1, 2)):
            s = dict(syn)
            s['presentation'] = pres is not None
            f, v, h = pres or (0, 0, 0)
            els.append(dict({'kind': 'text', 'layer': 5, 'texttype': 6, 'font': f, 'vjust': v, 'hjust': h, 'xy': (1, 2),
                             'string': 'ab' if f else 'abc', 'syn': s}, **vals))
    extra = []
    for el in els[::7]:
        for fl, px, props in ((1, None, [(1, b'a')]), (None, 7, [(1, b'ab'), (2, b'abc')]), (2, -9, [])):
            e = dict(el)
            e.update(elflags=fl, plex=px, props=props)
            extra.append(e)
    return els + extra


def selftest(verbose=True):
    import itertools
    n = 0
    # real8: exact decimal/binary values, normalisation, nearest rounding, round trip
    for v in [0, 1, -1, Fraction(5, 2), 90, 270, 30, 1e-3, 1e-9, 1e-6, 0.5e-3, Fraction(1, 1000), Fraction(1, 10 ** 9),
              16, Fraction(1, 16), 16 ** 5, Fraction(1, 3), 2 ** 52 + 1, 123456789.125, -0.001]:
        u, exact = real8_encode(v)
        assert real8_normalised(u), v
        d = real8_decode(u)
        fv = _to_fraction(v)
        if exact:
            assert d == fv, (v, d)
        else:
            assert abs(d - fv) <= abs(fv) * Fraction(1, 2 ** 52), (v, d)
        assert real8_encode(d) == (u, True), v
        n += 1
    assert real8_encode(1)[0] == 0x4110000000000000
    assert real8_encode(Fraction(1, 1000))[0] in (0x3E4189374BC6A7EF, 0x3E4189374BC6A7F0)
    assert real8_decode(0x3E4189374BC6A7EF) - Fraction(1, 1000) < Fraction(1, 10 ** 18)
    assert not real8_normalised(0x4101000000000000) and not real8_normalised(0x4000000000000000)
    for v in (1, 16, 256, Fraction(1, 16), Fraction(1, 256), 4096, Fraction(5, 2)):
        u = real8_encode(v)[0]
        for k in (1, 2, 5):
            d = real8_denormalise(u, k)
            assert real8_decode(d) == v and not real8_normalised(d), (v, k)
            n += 1
    assert real8_encode(16)[0] == 0x4210000000000000 and real8_encode(Fraction(1, 16))[0] == 0x4010000000000000
    # layouts: encode -> strict decode == identity (semantics and choice points)
    els = _selftest_alphabet()
    units = [(Fraction(1, 1000), Fraction(1, 10 ** 9)), (1, Fraction(1, 10 ** 6)), (0.5e-3, 0.5e-9)]
    heads = list(itertools.product((None, b'A' * 44 + b'\0' * 44), (None, b'F' * 44 * 4), (None, b'attr'), (None, 3), (None, 0, 1)))
    for i, el in enumerate(els):
        h = heads[i % len(heads)]
        lay = {'libname': 'LIB' if i % 2 else 'LI', 'units': encoded_units(*units[i % 3]),
               'reflibs': h[0], 'fonts': h[1], 'attrtable': h[2], 'generations': h[3], 'format': h[4],
               'masks': [b'0-63'] if h[4] == 1 else [],
               'cells': [{'name': 'TOP', 'elements': [el]}, {'name': 'KID', 'elements': []}]}
        if i % 3 == 0:
            lay['cells'].reverse()
        data = encode(lay)
        assert len(data) % 2 == 0
        notes = []
        back = decode(data, strict=True, notes=notes)
        assert same_layout(lay, back), (i, el, back)
        for key in ('reflibs', 'fonts', 'attrtable', 'generations', 'format'):
            assert back[key] == lay[key], key
        got_syn = back['cells'][0 if i % 3 else 1]['elements'][0]['syn']
        for k, v in el.get('syn', {}).items():
            assert got_syn[k] == v, (i, k, v, got_syn)
        assert encode(back) == data, i  # decode -> encode reproduces the bytes (choice points complete)
        n += 1
    # rejection tests: each mutation of a valid file must be refused with the expected class
    good = encode({'libname': 'L', 'units': encoded_units(Fraction(1, 1000), Fraction(1, 10 ** 9)), 'cells': [
        {'name': 'T', 'elements': [{'kind': 'boundary', 'layer': 1, 'datatype': 0, 'xy': [(0, 0), (1, 0), (0, 1)]},
                                   {'kind': 'text', 'layer': 1, 'texttype': 0, 'xy': (0, 0), 'string': 'abc'}]}]})
    decode(good)

    def expect(cls, data):
        try:
            decode(data)
        except GdsError as e:
            assert e.cls == cls, (cls, e)
            return
        raise AssertionError('strict decoder accepted a file that must fail with ' + cls)
    recs = split_records(good)
    idx = {RECORDS[r[1]][0]: k for k, r in enumerate(recs)}

    def rebuild(edit):
        out = b''
        for k, (off, rtype, dtype, payload) in enumerate(recs):
            r = edit(k, rtype, dtype, payload)
            if r is None:
                continue
            rtype, dtype, payload = r
            out += struct.pack('>HBB', 4 + len(payload), rtype, dtype) + payload
        return out
    expect('odd_length', rebuild(lambda k, t, d, p: (t, d, p[:-1]) if k == idx['STRING'] else (t, d, p)))
    expect('open_boundary', rebuild(lambda k, t, d, p: (t, d, p[:-8] + struct.pack('>ii', 5, 5)) if t == 0x10 and len(p) == 32 else (t, d, p)))
    expect('bad_dtype', rebuild(lambda k, t, d, p: (t, 3, p) if k == idx['LAYER'] else (t, d, p)))
    expect('grammar', rebuild(lambda k, t, d, p: None if k == idx['DATATYPE'] else (t, d, p)))
    expect('grammar', rebuild(lambda k, t, d, p: None if k == idx['ENDLIB'] else (t, d, p)))
    expect('bad_size', rebuild(lambda k, t, d, p: (t, d, p + p) if k == idx['LAYER'] else (t, d, p)))
    expect('range16', rebuild(lambda k, t, d, p: (t, d, b'\xff\xff') if k == idx['LAYER'] else (t, d, p)))
    expect('real8_unnormalised', rebuild(lambda k, t, d, p: (t, d, b'\x41\x01' + p[2:]) if k == idx['UNITS'] else (t, d, p)))
    expect('unknown_record', rebuild(lambda k, t, d, p: (0x15, 0, b'') if k == idx['BOUNDARY'] else (t, d, p)))
    expect('string_padding', rebuild(lambda k, t, d, p: (t, d, b'a\0\0\0') if k == idx['STRING'] else (t, d, p)))
    expect('data_after_endlib', good + b'\0\1')
    expect('truncated', good[:-3])
    expect('point_count', rebuild(lambda k, t, d, p: (t, d, p[:16] + p[:8]) if t == 0x10 and len(p) == 32 else (t, d, p)))
    n += 13
    if verbose:
        print('gds_codec selftest ok: %d checks, %d element variants' % (n, len(els)))
    return n


if __name__ == '__main__':
    if '--selftest' in sys.argv:
        selftest()
    elif len(sys.argv) > 1:
        with open(sys.argv[1], 'rb') as f:
            d = f.read()
        print(describe(d))
        notes = []
        try:
            decode(d, notes=notes)
            print('strict decode: accepted', notes)
        except GdsError as e:
            print('strict decode: REJECTED', e)
    else:
        print(__doc__)
