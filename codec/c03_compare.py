"""c03_compare.py - the two oracles of C03.

d1_compare(layout, req, tol, result)  : abstract layout the independent encoder started from  vs
                                        gdstk's read_gds result (driver JSON: error + dump::library)
d2_compare(data, source, max_points)  : bytes gdstk wrote -> strict decoder -> abstract layout  vs
                                        the dump of the library that was saved

Both return a list of mismatches: (class, field, detail).  `class` is '<element kind>.<field>' so
that a known finding can be matched precisely.  Tolerances: 1e-12 relative for anything multiplied by
a unit conversion factor or converted degrees -> radians; integers, strings, flags exact.
"""
import math
from fractions import Fraction

import gds_codec as G

REL = 1e-12
END_NAME = {0: 'flush', 1: 'round', 2: 'half-width', 4: 'extended'}
ERROR_FIRST_FATAL = 9  # gdstk: ErrorCode values >= ChecksumError are errors, smaller ones warnings


def close(got, exp, rel=REL):
    if not isinstance(got, (int, float)):
        return False
    exp = float(exp)
    if exp == 0:
        return got == 0
    return abs(got - exp) <= rel * abs(exp)


def pclose(got, exp):
    return isinstance(got, list) and len(got) == 2 and close(got[0], exp[0]) and close(got[1], exp[1])


def props_of_dump(plist, out, where):
    """gdstk property list -> {attr: bytes}; GDSII values carry one terminating NUL in memory"""
    d = {}
    for p in plist:
        vals = p.get('values', [])
        if p.get('name') != 'S_GDS_PROPERTY' or len(vals) != 2 or vals[0].get('t') != 'u' or vals[1].get('t') != 's':
            out.append((where + '.properties', 'shape', 'not a GDSII property: %r' % (p,)))
            continue
        b = bytes.fromhex(vals[1]['hex'])
        if b.endswith(b'\0'):
            b = b[:-1]
        a = int(vals[0]['v'])
        if a in d:
            out.append((where + '.properties', 'duplicate', 'attribute %d twice' % a))
        d[a] = b
    return d


def cmp_props(el, got_list, out, where):
    """attribute -> value map.  A stream that repeats an attribute number inside one element is outside
    the specification (attribute numbers of one element must be distinct); gdstk documents
    set_gds_property as overwriting, a reader keeping the first value would be equally defensible.  For
    such streams the only demand is coherence: exactly one entry per attribute number, holding the
    complete first or the complete last value the stream gave for it - never a truncated or mixed one."""
    exp = {}
    for a, v in el['props']:
        exp.setdefault(a, []).append(v)
    got = props_of_dump(got_list, out, where)
    if set(got) != set(exp):
        out.append((where + '.properties', 'value', 'expected attributes %r got %r' % (sorted(exp), got)))
        return
    for a, vals in exp.items():
        if len(vals) == 1:
            if got[a] != vals[0]:
                out.append((where + '.properties', 'value', 'attribute %d: expected %r got %r' % (a, vals[0], got[a])))
        elif got[a] not in (vals[0], vals[-1]):
            out.append((where + '.properties_repeated_attr', 'value', 'attribute %d given %d times (%r): loaded value %r is neither the first nor the last' % (a, len(vals), vals, got[a])))


def lattice(el, F):
    o, p1, p2 = el['xy']
    c, r = el['cols'], el['rows']
    cv = (Fraction(p1[0] - o[0], c) * F, Fraction(p1[1] - o[1], c) * F)
    rv = (Fraction(p2[0] - o[0], r) * F, Fraction(p2[1] - o[1], r) * F)
    return [(i * cv[0] + j * rv[0], i * cv[1] + j * rv[1]) for i in range(c) for j in range(r)]


def match_points(got, exp, scale):
    """multiset equality of small point lists with an absolute slack REL*scale"""
    if len(got) != len(exp):
        return False
    left = [tuple(map(float, e)) for e in exp]
    slack = REL * max(scale, 1e-300)
    for g in got:
        hit = None
        for k, e in enumerate(left):
            if abs(g[0] - e[0]) <= slack + REL * abs(e[0]) and abs(g[1] - e[1]) <= slack + REL * abs(e[1]):
                hit = k
                break
        if hit is None:
            return False
        left.pop(hit)
    return True


def d1_compare(layout, req, tol, result):
    out = []
    err = result.get('error')
    lib = result.get('library', {})
    if err is None or err >= ERROR_FIRST_FATAL:
        out.append(('library.error', 'error_code', 'read_gds reported error class %r for a legal file' % err))
    u, m = layout['units']
    if req > 0:
        F = m / Fraction(req)
        unit = Fraction(req)
    else:
        F = u
        unit = m / u
    if lib.get('name') != layout['libname']:
        out.append(('library.name', 'name', 'expected %r got %r' % (layout['libname'], lib.get('name'))))
    if not close(lib.get('unit'), unit):
        out.append(('library.unit', 'unit', 'expected %.17g got %r' % (float(unit), lib.get('unit'))))
    if not close(lib.get('precision'), m):
        out.append(('library.precision', 'precision', 'expected %.17g got %r' % (float(m), lib.get('precision'))))
    exp_tol = tol if tol > 0 else float(m / unit)
    defined = set(c['name'] for c in layout['cells'])
    got_cells = {}
    for c in lib.get('cells', []):
        if c['name'] in got_cells:
            out.append(('library.cells', 'duplicate', 'cell %r twice' % c['name']))
        got_cells[c['name']] = c
    if [c['name'] for c in lib.get('cells', [])] != [c['name'] for c in layout['cells']]:
        out.append(('library.cells', 'names', 'expected %r got %r' % ([c['name'] for c in layout['cells']], [c['name'] for c in lib.get('cells', [])])))
    if lib.get('rawcells'):
        out.append(('library.rawcells', 'unexpected', repr(lib.get('rawcells'))))
    for c in layout['cells']:
        g = got_cells.get(c['name'])
        if g is None:
            continue
        els = [G.normalise_element(e) for e in c['elements']]
        polys = [e for e in els if e['kind'] in ('boundary', 'box')]
        paths = [e for e in els if e['kind'] == 'path']
        refs = [e for e in els if e['kind'] in ('sref', 'aref')]
        texts = [e for e in els if e['kind'] == 'text']
        for name, exp_n in (('polygons', len(polys)), ('flexpaths', len(paths)), ('references', len(refs)), ('labels', len(texts)), ('robustpaths', 0)):
            if len(g.get(name, [])) != exp_n:
                out.append(('cell.' + name, 'count', 'cell %s: expected %d got %d' % (c['name'], exp_n, len(g.get(name, [])))))
        for k, (e, p) in enumerate(zip(polys, g.get('polygons', []))):
            w = e['kind']
            tagv = [e['layer'], e['datatype'] if w == 'boundary' else e['boxtype']]
            if p['tag'] != tagv:
                out.append((w + '.tag', 'tag', 'expected %r got %r' % (tagv, p['tag'])))
            exp_pts = [(x * F, y * F) for x, y in e['xy']]
            if len(p['points']) != len(exp_pts) or not all(pclose(a, b) for a, b in zip(p['points'], exp_pts)):
                out.append((w + '.points', 'xy', 'expected %r got %r' % ([tuple(map(float, q)) for q in exp_pts][:8], p['points'][:8])))
            if p['repetition']['type'] != 'none':
                out.append((w + '.repetition', 'repetition', repr(p['repetition'])))
            cmp_props(e, p['properties'], out, w)
        for k, (e, p) in enumerate(zip(paths, g.get('flexpaths', []))):
            n = len(e['xy'])
            exp_pts = [(x * F, y * F) for x, y in e['xy']]
            if len(p['spine']) != n or not all(pclose(a, b) for a, b in zip(p['spine'], exp_pts)):
                out.append(('path.spine', 'xy', 'expected %r got %r' % ([tuple(map(float, q)) for q in exp_pts], p['spine'])))
            if not p['simple_path']:
                out.append(('path.simple_path', 'simple_path', 'false'))
            if len(p['elements']) != 1:
                out.append(('path.elements', 'count', str(len(p['elements']))))
                continue
            pe = p['elements'][0]
            if pe['tag'] != [e['layer'], e['datatype']]:
                out.append(('path.tag', 'tag', 'expected %r got %r' % ([e['layer'], e['datatype']], pe['tag'])))
            hw = abs(e['width']) * F / 2
            hwo = pe['half_width_and_offset']
            if len(hwo) != len(p['spine']) or not all(close(q[0], hw) and q[1] == 0 for q in hwo):
                out.append(('path.width', 'width', 'WIDTH %d: expected half width %.17g (offset 0) at each of %d points, got %r' % (e['width'], float(hw), n, hwo)))
            if e['width'] != 0 and p['scale_width'] != (e['width'] > 0):
                out.append(('path.scale_width', 'width_sign', 'WIDTH %d (negative = absolute): scale_width %r' % (e['width'], p['scale_width'])))
            if pe['end'] != END_NAME[e['pathtype']]:
                out.append(('path.pathtype', 'pathtype', 'PATHTYPE %d: expected %s got %s' % (e['pathtype'], END_NAME[e['pathtype']], pe['end'])))
            if e['pathtype'] == 4 and not pclose(pe['end_extensions'], (e['bgnextn'] * F, e['endextn'] * F)):
                out.append(('path.extensions', 'bgnextn/endextn', 'expected (%.17g, %.17g) got %r' % (float(e['bgnextn'] * F), float(e['endextn'] * F), pe['end_extensions'])))
            if not close(p['tolerance'], exp_tol):
                out.append(('path.tolerance', 'tolerance', 'expected %.17g got %r' % (exp_tol, p['tolerance'])))
            if p['repetition']['type'] != 'none':
                out.append(('path.repetition', 'repetition', repr(p['repetition'])))
            cmp_props(e, p['properties'], out, 'path')
        for k, (e, p) in enumerate(zip(refs, g.get('references', []))):
            w = e['kind']
            if p['target'] != e['sname']:
                out.append((w + '.sname', 'sname', 'expected %r got %r' % (e['sname'], p['target'])))
            want_kind = 'cell' if e['sname'] in defined else 'name'
            if p['kind'] != want_kind:
                out.append((w + '.resolution', 'target', 'expected a reference by %s, got by %s' % (want_kind, p['kind'])))
            o = e['xy'] if w == 'sref' else e['xy'][0]
            if not pclose(p['origin'], (o[0] * F, o[1] * F)):
                out.append((w + '.origin', 'xy', 'expected (%.17g, %.17g) got %r' % (float(o[0] * F), float(o[1] * F), p['origin'])))
            cmp_trans(e, p, out, w)
            rep = p['repetition']
            if w == 'sref':
                if rep['type'] != 'none':
                    out.append(('sref.repetition', 'repetition', repr(rep)))
            else:
                exp = lattice(e, F)
                scale = max([abs(float(c)) for q in exp for c in q] + [0.0])
                ok = rep['type'] in ('rectangular', 'regular') or (rep['type'] == 'none' and len(exp) == 1)
                if not ok or not match_points(rep['expanded'], exp, scale):
                    out.append(('aref.lattice', 'colrow/xy', 'COLROW %dx%d XY %r: expected offsets %r got %s %r' % (
                        e['cols'], e['rows'], e['xy'], [tuple(map(float, q)) for q in exp], rep['type'], rep['expanded'])))
            cmp_props(e, p['properties'], out, w)
        for k, (e, p) in enumerate(zip(texts, g.get('labels', []))):
            if p['tag'] != [e['layer'], e['texttype']]:
                out.append(('text.tag', 'tag', 'expected %r got %r' % ([e['layer'], e['texttype']], p['tag'])))
            if p['text'].encode('latin-1') != e['string']:
                out.append(('text.string', 'string', 'expected %r got %r' % (e['string'], p['text'])))
            if not pclose(p['origin'], (e['xy'][0] * F, e['xy'][1] * F)):
                out.append(('text.origin', 'xy', 'expected (%.17g, %.17g) got %r' % (float(e['xy'][0] * F), float(e['xy'][1] * F), p['origin'])))
            anchor = e['vjust'] * 4 + e['hjust']  # gdstk Anchor: NW=0 N=1 NE=2 W=4 O=5 E=6 SW=8 S=9 SE=10
            if p['anchor'] != anchor:
                out.append(('text.presentation', 'presentation', 'vertical %d horizontal %d: expected anchor %d got %d' % (e['vjust'], e['hjust'], anchor, p['anchor'])))
            cmp_trans(e, p, out, 'text')
            if p['repetition']['type'] != 'none':
                out.append(('text.repetition', 'repetition', repr(p['repetition'])))
            cmp_props(e, p['properties'], out, 'text')
    return out


def cmp_trans(e, p, out, w):
    if p['x_reflection'] != e['reflect']:
        out.append((w + '.strans', 'reflect', 'expected %r got %r' % (e['reflect'], p['x_reflection'])))
    if not close(p['magnification'], e['mag']):
        out.append((w + '.mag', 'mag', 'expected %.17g got %r' % (float(e['mag']), p['magnification'])))
    if not close(p['rotation'], float(e['angle']) * math.pi / 180):
        out.append((w + '.angle', 'angle', 'ANGLE %s degrees: expected %.17g rad got %r' % (e['angle'], float(e['angle']) * math.pi / 180, p['rotation'])))


# ------------------------------------------------------------------------------------------------
# direction 2
STAMP = [2024, 3, 5, 6, 7, 8] * 2
ANCHOR_JUST = {0: (0, 0), 1: (0, 1), 2: (0, 2), 4: (1, 0), 5: (1, 1), 6: (1, 2), 8: (2, 0), 9: (2, 1), 10: (2, 2)}
PATHTYPE_OF_END = {'flush': 0, 'round': 1, 'half-width': 2, 'extended': 4, 'smooth': 1}


def rounds_to(got, exact):
    """the documented rule: coordinate * unit/precision rounded to the nearest integer.  Near-ties
    (within the double-precision noise of the product) may go either way."""
    eps = max(1e-6, abs(float(exact)) * 1e-12)
    return abs(got - exact) <= Fraction(1, 2) + Fraction(eps)


def pt_rounds(got, exact):
    return rounds_to(got[0], exact[0]) and rounds_to(got[1], exact[1])


def fr(x):
    return Fraction(x)


def frel(got, exp, rel=1e-12):
    exp = Fraction(exp)
    return abs(Fraction(got) - exp) <= Fraction(rel) * abs(exp)


def dump_props(plist):
    d = {}
    for p in plist:
        vals = p.get('values', [])
        if p.get('name') == 'S_GDS_PROPERTY' and len(vals) == 2:
            b = bytes.fromhex(vals[1]['hex'])
            if b.endswith(b'\0'):
                b = b[:-1]
            d[int(vals[0]['v'])] = b
    return d


def take_match(pool, pred):
    for k, e in enumerate(pool):
        if pred(e):
            return pool.pop(k)
    return None


def history_model(history):
    """the judge's own model of a GDSII property list under a history of calls: set overwrites the value of
    the attribute (last write wins, with ITS length), remove deletes the attribute if present"""
    d = {}
    for op in history:
        if op[0] == 'set':
            d[int(op[1])] = op[2].encode('latin-1')
        elif op[0] == 'remove':
            d.pop(int(op[1]), None)
    return d


def centre_line(spine, d):
    """the judge's own model of a path element's centre line: the spine moved by the constant offset d to
    the LEFT of the direction of travel; consecutive offset segments meet at their intersection (miter
    point P + d*(n0+n1)/(1+n0.n1)).  Exact rational arithmetic; spine segments must be axis-parallel."""
    pts = [(fr(x), fr(y)) for x, y in spine]
    normals = []
    for (x0, y0), (x1, y1) in zip(pts, pts[1:]):
        dx, dy = x1 - x0, y1 - y0
        assert (dx == 0) != (dy == 0), 'axis-parallel segments only'
        ux, uy = (1 if dx > 0 else -1 if dx < 0 else 0), (1 if dy > 0 else -1 if dy < 0 else 0)
        normals.append((-uy, ux))
    d = fr(d)
    out = [(pts[0][0] + d * normals[0][0], pts[0][1] + d * normals[0][1])]
    for k in range(1, len(pts) - 1):
        n0, n1 = normals[k - 1], normals[k]
        den = 1 + n0[0] * n1[0] + n0[1] * n1[1]
        out.append((pts[k][0] + d * (n0[0] + n1[0]) / den, pts[k][1] + d * (n0[1] + n1[1]) / den))
    out.append((pts[-1][0] + d * normals[-1][0], pts[-1][1] + d * normals[-1][1]))
    return out


def sampled_polyline_matches(xy, model, corner_tol=1.0, seg_tol=0.71):
    """xy (integer grid) is a sampling of the polyline `model` (exact, grid units): it starts at model[0], ends
    at model[-1], visits every corner in order (each within corner_tol per coordinate) and every other vertex
    lies within seg_tol of the current segment, never moving backwards along it."""
    def near(p, q):
        return abs(p[0] - q[0]) <= corner_tol and abs(p[1] - q[1]) <= corner_tol
    if len(xy) < 2 or not near(xy[0], model[0]) or not near(xy[-1], model[-1]):
        return False
    j, last_t = 0, Fraction(0)
    for p in xy[1:]:
        if j + 1 < len(model) and near(p, model[j + 1]):
            j += 1
            last_t = Fraction(0)
            continue
        if j + 1 >= len(model):
            if not near(p, model[-1]):
                return False
            continue
        a, b = model[j], model[j + 1]
        vx, vy = b[0] - a[0], b[1] - a[1]
        L2 = vx * vx + vy * vy
        t = ((p[0] - a[0]) * vx + (p[1] - a[1]) * vy) / L2
        cross = (p[0] - a[0]) * vy - (p[1] - a[1]) * vx
        if cross * cross > Fraction(seg_tol) ** 2 * L2 or t < last_t - Fraction(1, 10 ** 6) or t > 1:
            return False
        last_t = t
    return j == len(model) - 1


def multipath_expect(spec, offsets, S):
    """expected PATH records of a multi-element simple path: one per element per repetition offset"""
    exp = []
    for el in spec['elements']:
        line = centre_line(spec['spine'], el['offset'])
        for o in offsets:
            exp.append({'tag': tuple(el['tag']), 'pathtype': PATHTYPE_OF_END[el['end']], 'wexact': fr(el['width']) * S,
                        'ext': (fr(el['ext'][0]) * S, fr(el['ext'][1]) * S),
                        'line': [((x + fr(o[0])) * S, (y + fr(o[1])) * S) for x, y in line], 'offset': o, 'el': el})
    return exp


def copies_translation_closed(pieces, offsets, S):
    """pieces written through copies of one element (the pieces of a fractured polygon, or the outline polygons of
    a non-simple path) must be the same piece set placed at EVERY offset the judge expands from the repetition's
    struct fields:  pieces == union over offsets o of (base + o*S).  The shape of the pieces is not judged here
    (region facts belong to C01).  Exact on the integer grid: the smallest remaining piece belongs to the copy at the
    smallest offset; its translates to every other offset must be present.  -> '' or a description."""
    offs = []
    for o in offsets:
        ox, oy = fr(o[0]) * S, fr(o[1]) * S
        if ox.denominator != 1 or oy.denominator != 1:
            rx, ry = round(ox), round(oy)
            if abs(ox - rx) > Fraction(1, 10 ** 6) or abs(oy - ry) > Fraction(1, 10 ** 6):
                return ''   # off-grid offsets: pieces are not exact translates; count-only
            ox, oy = rx, ry
        offs.append((int(ox), int(oy)))
    offs.sort()
    o0 = offs[0]
    # pieces may have off-grid vertices (cuts), whose rounding is taken per copy: translates agree within 1 grid unit
    index = {}
    for pc in pieces:
        index.setdefault(pc[0], []).append(pc)

    def take(t):
        for dx in (0, -1, 1):
            for dy in (0, -1, 1):
                lst = index.get((t[0][0] + dx, t[0][1] + dy))
                if not lst:
                    continue
                for k, c in enumerate(lst):
                    if len(c) == len(t) and all(abs(a[0] - b[0]) <= 1 and abs(a[1] - b[1]) <= 1 for a, b in zip(c, t)):
                        lst.pop(k)
                        if not lst:
                            del index[(t[0][0] + dx, t[0][1] + dy)]
                        return True
        return False
    remaining = len(pieces)
    while remaining:
        q = min(min(v) for v in index.values()) if len(index) < 64 else min(index[min(index)])
        base = tuple((x - o0[0], y - o0[1]) for x, y in q)
        for o in offs:
            t = tuple((x + o[0], y + o[1]) for x, y in base)
            if not take(t):
                return 'piece starting %r exists at offset %r but its translate to offset %r is missing (offsets in grid units: %r)' % (q[:3], o0, o, offs)
            remaining -= 1
    return ''


def d2_compare(data, source, max_points, counters, history=None, pathspec=None):
    """-> mismatches.  counters: dict incremented with out-of-scope / informational counts.
    history: for the prophist kind, the sequence of property calls that built the element in cell TOP*; the
    expected PROPATTR/PROPVALUE pairs then come from history_model(), not from the dump."""
    out = []
    model = history_model(history) if history is not None else None

    def src_props(plist, cellname=''):
        if model is not None and cellname.startswith('TOP'):
            return model
        return dump_props(plist)
    if model is not None:
        for sc in source['cells']:
            if sc['name'].startswith('TOP'):
                for k in ('polygons', 'flexpaths', 'labels', 'references'):
                    for e in sc[k]:
                        if dump_props(e['properties']) != model or len(e['properties']) != len(model):
                            out.append(('properties.history_model', 'set_gds_property/remove_gds_property',
                                        'after history %r the element holds %r, last-write-wins model says %r' % (history, e['properties'], model)))
    notes = []
    try:
        lay = G.decode(data, strict=True, notes=notes)
    except G.GdsError as e:
        return [('strict_reject:' + e.cls, e.cls, str(e))]
    for n in notes:
        counters['note:' + n.split(':')[0]] = counters.get('note:' + n.split(':')[0], 0) + 1
    S = fr(source['unit']) / fr(source['precision'])
    if lay['bgnlib'] != STAMP or any(c['bgnstr'] != STAMP for c in lay['cells']):
        out.append(('library.timestamp', 'bgnlib/bgnstr', 'expected %r' % STAMP))
    if lay['libname'] != source['name']:
        out.append(('library.name', 'libname', 'expected %r got %r' % (source['name'], lay['libname'])))
    if not frel(lay['units'][0], fr(source['precision']) / fr(source['unit'])) or not frel(lay['units'][1], fr(source['precision'])):
        out.append(('library.units', 'units', 'expected (%.17g, %.17g) got (%.17g, %.17g)' % (
            source['precision'] / source['unit'], source['precision'], float(lay['units'][0]), float(lay['units'][1]))))
    if [c['name'] for c in lay['cells']] != [c['name'] for c in source['cells']]:
        out.append(('library.cells', 'names', 'expected %r got %r' % ([c['name'] for c in source['cells']], [c['name'] for c in lay['cells']])))
        return out
    for sc, dc in zip(source['cells'], lay['cells']):
        pool = {k: [e for e in dc['elements'] if e['kind'] == k] for k in ('boundary', 'box', 'path', 'sref', 'aref', 'text')}
        if pool['box']:
            out.append(('cell.box', 'unexpected', 'gdstk never writes BOX'))
        fractured_tags = []
        # polygons
        for p in sc['polygons']:
            n = len(p['points'])
            if n < 3:
                continue
            offs = p['repetition']['expanded']
            if max_points > 4 and n > max_points:
                fractured_tags.append((p['tag'], offs, src_props(p['properties'], sc['name'])))
                continue
            props = src_props(p['properties'], sc['name'])
            for o in offs:
                exact = [((fr(o[0]) + fr(q[0])) * S, (fr(o[1]) + fr(q[1])) * S) for q in p['points']]
                hit = take_match(pool['boundary'], lambda e: e['layer'] == p['tag'][0] and e['datatype'] == p['tag'][1] and len(e['xy']) == n and
                                 all(pt_rounds(a, b) for a, b in zip(e['xy'], exact)) and dict(e['props']) == props and len(e['props']) == len(props))
                if hit is None:
                    out.append(('polygon.missing', 'boundary', 'no BOUNDARY for polygon tag %r offset %r props %r (first exact point %.6f, %.6f); candidates %r' % (
                        p['tag'], o, props, float(exact[0][0]), float(exact[0][1]), [(e['layer'], e['datatype'], e['xy'][:2], e['props']) for e in pool['boundary'][:3]])))
                elif n + 1 > 8190 and len(hit['syn']['xy_split']) < 2:
                    pass
        # multi-element simple paths (FlexPath / RobustPath): judged against the check's own centre-line model
        spec_here = pathspec if (pathspec and sc['name'].startswith('TOP')) else None
        if spec_here:
            src_path = (sc['flexpaths'] + sc['robustpaths'])[0]
            for x in multipath_expect(spec_here, src_path['repetition']['expanded'], S):
                def mpred(e, x=x):
                    if (e['layer'], e['datatype']) != x['tag'] or e['pathtype'] != x['pathtype']:
                        return False
                    if not rounds_to(abs(e['width']), x['wexact']) or (e['width'] != 0 and (e['width'] > 0) != spec_here['scale_width']):
                        return False
                    if x['pathtype'] == 4:
                        if not rounds_to(e['bgnextn'], x['ext'][0]) or not rounds_to(e['endextn'], x['ext'][1]):
                            return False
                    elif e['bgnextn'] or e['endextn']:
                        return False
                    if e['props']:
                        return False
                    if spec_here['type'] == 'flex':   # point for point
                        return len(e['xy']) == len(x['line']) and all(pt_rounds(a, b) for a, b in zip(e['xy'], x['line']))
                    return sampled_polyline_matches(e['xy'], x['line'])
                if take_match(pool['path'], mpred) is None:
                    out.append(('multipath.missing', 'path', 'no PATH for %s element tag %r offset %r width %r end %s at repetition offset %r: model centre line (grid units) %r; PATH records of that tag: %r' % (
                        spec_here['type'], x['tag'], x['el']['offset'], x['el']['width'], x['el']['end'], x['offset'], [(float(a), float(b)) for a, b in x['line']],
                        [{k: e[k] for k in ('pathtype', 'width', 'bgnextn', 'endextn', 'xy')} for e in pool['path'] if (e['layer'], e['datatype']) == x['tag']][:2])))
            counters['multipath_records_expected'] = counters.get('multipath_records_expected', 0) + len(spec_here['elements']) * len(src_path['repetition']['expanded'])
        # paths
        for f in ([] if spec_here else sc['flexpaths']):
            props = src_props(f['properties'], sc['name'])
            if not f['simple_path']:
                counters['out_of_scope_nonsimple_path'] = counters.get('out_of_scope_nonsimple_path', 0) + 1
                for el in f['elements']:
                    fractured_tags.append((el['tag'], f['repetition']['expanded'], props))
                continue
            for el in f['elements']:
                if any(q[1] != 0 for q in el['half_width_and_offset']):
                    counters['out_of_scope_offset_path'] = counters.get('out_of_scope_offset_path', 0) + 1
                    continue
                hw = fr(el['half_width_and_offset'][0][0])
                wexact = 2 * hw * S
                pt = PATHTYPE_OF_END[el['end']]
                for o in f['repetition']['expanded']:
                    exact = [((fr(o[0]) + fr(q[0])) * S, (fr(o[1]) + fr(q[1])) * S) for q in f['spine']]

                    def pred(e):
                        if (e['layer'], e['datatype']) != tuple(el['tag']) or e['pathtype'] != pt or len(e['xy']) != len(exact):
                            return False
                        if not rounds_to(abs(e['width']), wexact) or (e['width'] != 0 and (e['width'] > 0) != f['scale_width']):
                            return False
                        if pt == 4:
                            if not rounds_to(e['bgnextn'], fr(el['end_extensions'][0]) * S) or not rounds_to(e['endextn'], fr(el['end_extensions'][1]) * S):
                                return False
                        elif e['bgnextn'] or e['endextn']:
                            return False
                        return all(pt_rounds(a, b) for a, b in zip(e['xy'], exact)) and dict(e['props']) == props and len(e['props']) == len(props)
                    if take_match(pool['path'], pred) is None:
                        out.append(('path.missing', 'path', 'no PATH for element tag %r end %s half-width %r scale_width %r ext %r offset %r; candidates %r' % (
                            el['tag'], el['end'], el['half_width_and_offset'][0][0], f['scale_width'], el['end_extensions'], o,
                            [{k: e[k] for k in ('layer', 'datatype', 'pathtype', 'width', 'bgnextn', 'endextn', 'xy', 'props')} for e in pool['path'][:2]])))
        for f in ([] if spec_here else sc['robustpaths']):
            if not f['simple_path']:
                counters['out_of_scope_nonsimple_path'] = counters.get('out_of_scope_nonsimple_path', 0) + 1
                for el in f['elements']:
                    fractured_tags.append((el['tag'], f['repetition']['expanded'], dump_props(f['properties'])))
        if any(f['simple_path'] for f in sc['robustpaths']) and not spec_here:
            counters['out_of_scope_robustpath'] = counters.get('out_of_scope_robustpath', 0) + 1
        # labels
        for l in sc['labels']:
            props = src_props(l['properties'], sc['name'])
            vj, hj = ANCHOR_JUST.get(l['anchor'], (None, None))
            deg = fr(l['rotation']) * 180 / fr(math.pi)
            for o in l['repetition']['expanded']:
                exact = ((fr(o[0]) + fr(l['origin'][0])) * S, (fr(o[1]) + fr(l['origin'][1])) * S)

                def pred(e):
                    return ((e['layer'], e['texttype']) == tuple(l['tag']) and e['string'] == l['text'].encode('latin-1') and (e['vjust'], e['hjust']) == (vj, hj)
                            and e['font'] == 0 and e['reflect'] == l['x_reflection'] and not e['absmag'] and not e['absangle'] and frel(e['mag'], fr(l['magnification']))
                            and frel(e['angle'], deg) and pt_rounds(e['xy'], exact) and dict(e['props']) == props and len(e['props']) == len(props) and e['pathtype'] == 0 and e['width'] == 0)
                if take_match(pool['text'], pred) is None:
                    out.append(('label.missing', 'text', 'no TEXT for label %r anchor %d rot %r mag %r refl %r at exact (%.6f, %.6f) props %r; candidates %r' % (
                        l['text'], l['anchor'], l['rotation'], l['magnification'], l['x_reflection'], float(exact[0]), float(exact[1]), props,
                        [G.to_jsonable({k: e[k] for k in ('layer', 'texttype', 'font', 'vjust', 'hjust', 'reflect', 'mag', 'angle', 'xy', 'string', 'props')}) for e in pool['text'][:2]])))
        # references
        for r in sc['references']:
            props = src_props(r['properties'], sc['name'])
            deg = fr(r['rotation']) * 180 / fr(math.pi)
            rep = r['repetition']

            def common(e):
                return (e['sname'] == r['target'] and e['reflect'] == r['x_reflection'] and not e['absmag'] and not e['absangle']
                        and frel(e['mag'], fr(r['magnification'])) and frel(e['angle'], deg) and dict(e['props']) == props and len(e['props']) == len(props))
            o0 = (fr(r['origin'][0]), fr(r['origin'][1]))
            done = False
            if rep['type'] in ('rectangular', 'regular'):
                if rep['type'] == 'rectangular':
                    v1, v2 = (fr(rep['spacing'][0]), fr(0)), (fr(0), fr(rep['spacing'][1]))
                else:
                    v1, v2 = tuple(map(fr, rep['v1'])), tuple(map(fr, rep['v2']))
                C, R = rep['columns'], rep['rows']
                cands = [(C, R, v1, v2), (R, C, v2, v1)]

                def apred(e):
                    if not common(e):
                        return False
                    for c, rr, a, b in cands:
                        if (e['cols'], e['rows']) == (c, rr) and pt_rounds(e['xy'][0], (o0[0] * S, o0[1] * S)) and \
                                pt_rounds(e['xy'][1], ((o0[0] + c * a[0]) * S, (o0[1] + c * a[1]) * S)) and \
                                pt_rounds(e['xy'][2], ((o0[0] + rr * b[0]) * S, (o0[1] + rr * b[1]) * S)):
                            return True
                    return False
                hit = take_match(pool['aref'], apred)
                if hit is not None:
                    done = True
                    counters['aref_written'] = counters.get('aref_written', 0) + 1
                    # the specification places columns along the transformed x axis and rows along the transformed y axis
                    th = float(r['rotation'])
                    ca, sa = math.cos(th), math.sin(th)
                    cv = (hit['xy'][1][0] - hit['xy'][0][0], hit['xy'][1][1] - hit['xy'][0][1])
                    rv = (hit['xy'][2][0] - hit['xy'][0][0], hit['xy'][2][1] - hit['xy'][0][1])
                    if abs(cv[0] * sa - cv[1] * ca) > 1.5 or abs(rv[0] * ca + rv[1] * sa) > 1.5:
                        out.append(('reference.aref_axes', 'aref', 'AREF lattice not along the transformed axes: col %r row %r rotation %r' % (cv, rv, r['rotation'])))
            if not done:
                for o in rep['expanded']:
                    exact = ((o0[0] + fr(o[0])) * S, (o0[1] + fr(o[1])) * S)
                    if take_match(pool['sref'], lambda e: common(e) and pt_rounds(e['xy'], exact)) is None:
                        out.append(('reference.missing', 'sref/aref', 'no SREF (or AREF) for reference to %r rot %r mag %r refl %r repetition %s at exact (%.6f, %.6f); candidates %r %r' % (
                            r['target'], r['rotation'], r['magnification'], r['x_reflection'], rep['type'], float(exact[0]), float(exact[1]),
                            [G.to_jsonable({k: e[k] for k in ('sname', 'reflect', 'mag', 'angle', 'xy', 'props')}) for e in pool['sref'][:2]],
                            [G.to_jsonable({k: e[k] for k in ('sname', 'reflect', 'mag', 'angle', 'cols', 'rows', 'xy', 'props')}) for e in pool['aref'][:2]])))
                        break
        # fractured polygons / non-simple paths: region facts belong to C01; here only tag + count + size
        if fractured_tags:
            counters['out_of_scope_fractured_or_outline'] = counters.get('out_of_scope_fractured_or_outline', 0) + 1
            for tg, offs, props in fractured_tags:
                mine = [e for e in pool['boundary'] if [e['layer'], e['datatype']] == tg]
                for e in mine:
                    pool['boundary'].remove(e)
                if len(mine) < len(offs) or len(mine) % len(offs):
                    out.append(('copies.count', 'boundary', 'tag %r: %d BOUNDARY pieces for %d repetition copies' % (tg, len(mine), len(offs))))
                    continue
                if any(dict(e['props']) != props for e in mine):
                    out.append(('copies.properties', 'props', 'tag %r: a piece does not carry the properties %r' % (tg, props)))
                bad = copies_translation_closed([tuple(e['xy']) for e in mine], offs, S)
                if bad:
                    out.append(('copies.repetition', 'repetition', 'tag %r written through copies (fractured polygon / path outline), %d pieces, repetition offsets %r: %s' % (tg, len(mine), offs, bad)))
                else:
                    counters['copies_repetition_checked'] = counters.get('copies_repetition_checked', 0) + (1 if len(offs) > 1 else 0)
        left = sum(len(v) for v in pool.values())
        if left:
            out.append(('cell.extra', 'extra_elements', 'cell %s: %d decoded element(s) not accounted for by the source: %r' % (
                sc['name'], left, [(k, len(v)) for k, v in pool.items() if v])))
    return out
