#!/usr/bin/env python3
"""oas_codec.py -- independent OASIS 1.0 (SEMI P39) codec, written from DESIGN.md Appendix A.2.
No gdstk code or behaviour is used here.  Python standard library only (zlib, struct, fractions).

INTERFACE (used by c04_check.py; meant to be reused by C02 / C18)
------------------------------------------------------------------
Abstract layout ("record-faithful" model, all coordinates integers on the file grid):
  layout = {'unit': REAL, 'props': [PROP..], 'cells': [CELL..]}
  CELL   = {'name': bytes, 'props': [PROP..], 'name_props': [PROP..], 'elements': [EL..]}
  EL     = dict with 'kind' in rectangle|polygon|path|trapezoid|ctrapezoid|circle|text|placement,
           common keys 'x','y','rep' (REP or None),'props'; geometry: 'layer','datatype'; then
             rectangle : w,h,square(bool: use the S bit; requires w==h)
             polygon   : pts=[(0,0),(x1,y1)..] relative to (x,y), ptype 0..5 (point-list type to use)
             path      : hw, ext=(start,end) signed ints, ext_repr=(ss,ee) in 0..3 (0 = reuse modal),
                         pts (first (0,0)), ptype
             trapezoid : rec 23|24|25, vertical(bool), w,h,da,db
             ctrapezoid: ctype 0..25, w,h
             circle    : r
             text      : text(bytes), textlayer, texttype
             placement : cell(bytes), rec 17|18, flip(bool), angle (rec 17: 0|90|180|270; rec 18: REAL or
                         None), mag (rec 18: REAL or None)
  REP    = tuple: (1,nx,ny,dx,dy) (2,nx,dx) (3,ny,dy) (4,[xspaces]) (5,grid,[xspaces]) (6,[yspaces])
           (7,grid,[yspaces]) (8,n,m,(dx,dy),(dx,dy)) (9,n,(dx,dy)) (10,[(dx,dy)..]) (11,grid,[(dx,dy)..])
  REAL   = (0,n) +n | (1,n) -n | (2,n) 1/n | (3,n) -1/n | (4,p,q) p/q | (5,p,q) -p/q | (6,f) float32 |
           (7,f) float64
  PROP   = {'name': bytes, 'values': [VAL..], 'std': bool}
  VAL    = ('real',REAL) | ('uint',n) | ('sint',n) | ('a',bytes) | ('b',bytes) | ('n',bytes)

  encode_layout(layout, choices) -> (bytes, info)   encoder with explicit choice points (see Choices)
  decode(data)                   -> (layout, facts) strict decoder; raises OasisError on any violation
  denote(el)                     -> canonical denotation of an element (what it means geometrically)
  rep_offsets(rep)               -> list of integer offsets, (0,0) first
  ctrapezoid_vertices(t,w,h), trapezoid_vertices(vertical,w,h,da,db)
  real_fraction(REAL)            -> exact Fraction
  python3 codec/oas_codec.py --selftest
"""
import struct
import sys
import zlib
from fractions import Fraction

MAGIC = b"%SEMI-OASIS\r\n"


class OasisError(Exception):
    pass


# ============================================================================ primitive encoders
def enc_uint(n):
    if n < 0:
        raise ValueError("negative unsigned")
    out = bytearray()
    while True:
        b = n & 0x7F
        n >>= 7
        if n:
            out.append(b | 0x80)
        else:
            out.append(b)
            return bytes(out)


def enc_sint(n):
    return enc_uint((abs(n) << 1) | (1 if n < 0 else 0))


def enc_string(b):
    return enc_uint(len(b)) + bytes(b)


def enc_real(r):
    f = r[0]
    if f in (0, 1, 2, 3):
        return bytes([f]) + enc_uint(r[1])
    if f in (4, 5):
        return bytes([f]) + enc_uint(r[1]) + enc_uint(r[2])
    if f == 6:
        return b"\x06" + struct.pack("<f", r[1])
    if f == 7:
        return b"\x07" + struct.pack("<d", r[1])
    raise ValueError("real form")


def real_fraction(r):
    f = r[0]
    if f == 0:
        return Fraction(r[1])
    if f == 1:
        return Fraction(-r[1])
    if f == 2:
        return Fraction(1, r[1])
    if f == 3:
        return Fraction(-1, r[1])
    if f == 4:
        return Fraction(r[1], r[2])
    if f == 5:
        return Fraction(-r[1], r[2])
    if f == 6:
        return Fraction(struct.unpack("<f", struct.pack("<f", r[1]))[0])
    if f == 7:
        return Fraction(r[1])
    raise ValueError("real form")


_DIR8 = {(1, 0): 0, (0, 1): 1, (-1, 0): 2, (0, -1): 3, (1, 1): 4, (-1, 1): 5, (-1, -1): 6, (1, -1): 7}
_DIRV = {v: k for k, v in _DIR8.items()}


def _sgn(v):
    return (v > 0) - (v < 0)


def is_octangular(dx, dy):
    return dx == 0 or dy == 0 or abs(dx) == abs(dy)


def _dir_mag(dx, dy):
    if dx == 0 and dy == 0:
        return 0, 0
    if not is_octangular(dx, dy):
        raise ValueError("not octangular")
    return _DIR8[(_sgn(dx), _sgn(dy))], max(abs(dx), abs(dy))


def enc_1delta(d):
    return enc_sint(d)


def enc_2delta(dx, dy):
    d, m = _dir_mag(dx, dy)
    if d > 3:
        raise ValueError("2-delta must be manhattan")
    return enc_uint((m << 2) | d)


def enc_3delta(dx, dy):
    d, m = _dir_mag(dx, dy)
    return enc_uint((m << 3) | d)


def enc_gdelta(dx, dy, form=None):
    """form 1: single integer (octangular only); form 2: two integers; None: 1 when possible."""
    if form is None:
        form = 1 if is_octangular(dx, dy) else 2
    if form == 1:
        d, m = _dir_mag(dx, dy)
        return enc_uint((m << 4) | (d << 1))
    return enc_uint((abs(dx) << 2) | (2 if dx < 0 else 0) | 1) + enc_sint(dy)


def point_list_deltas(pts):
    return [(pts[i][0] - pts[i - 1][0], pts[i][1] - pts[i - 1][1]) for i in range(1, len(pts))]


def point_list_ok(ptype, pts, closed):
    """Can the vertex list (first = (0,0)) be written with this point-list type?"""
    try:
        enc_point_list(ptype, pts, closed)
        return True
    except ValueError:
        return False


def enc_point_list(ptype, pts, closed, gform=None):
    if pts[0] != (0, 0):
        raise ValueError("first vertex must be (0,0)")
    d = point_list_deltas(pts)
    out = bytearray([ptype])
    if ptype in (0, 1):
        horizontal = ptype == 0
        if closed:
            # the last vertex is implied: check that it is what orthogonal closing produces
            if len(pts) < 4 or len(pts) % 2:
                raise ValueError("manhattan polygon needs an even vertex count >= 4")
            listed = d[:-1]
        else:
            listed = d
        vals = []
        h = horizontal
        for (dx, dy) in listed:
            if h:
                if dy != 0:
                    raise ValueError("not alternating")
                vals.append(dx)
            else:
                if dx != 0:
                    raise ValueError("not alternating")
                vals.append(dy)
            h = not h
        if closed:
            last = pts[-1]
            prev = pts[-2]
            # the implied vertex continues the alternation from prev and returns to (0,0) in the other axis
            implied = (0, prev[1]) if h else (prev[0], 0)
            if implied != last:
                raise ValueError("implied closing vertex differs")
        out += enc_uint(len(vals))
        for v in vals:
            out += enc_1delta(v)
    elif ptype == 2:
        out += enc_uint(len(d))
        for dx, dy in d:
            out += enc_2delta(dx, dy)
    elif ptype == 3:
        out += enc_uint(len(d))
        for dx, dy in d:
            out += enc_3delta(dx, dy)
    elif ptype == 4:
        out += enc_uint(len(d))
        for dx, dy in d:
            out += enc_gdelta(dx, dy, gform)
    elif ptype == 5:
        out += enc_uint(len(d))
        px, py = 0, 0
        for dx, dy in d:
            out += enc_gdelta(dx - px, dy - py, gform)
            px, py = dx, dy
    else:
        raise ValueError("point-list type")
    return bytes(out)


def enc_repetition(rep, gform=None):
    t = rep[0]
    o = bytearray([t])
    if t == 0:
        pass
    elif t == 1:
        o += enc_uint(rep[1] - 2) + enc_uint(rep[2] - 2) + enc_uint(rep[3]) + enc_uint(rep[4])
    elif t in (2, 3):
        o += enc_uint(rep[1] - 2) + enc_uint(rep[2])
    elif t in (4, 6):
        o += enc_uint(len(rep[1]) - 1)
        for s in rep[1]:
            o += enc_uint(s)
    elif t in (5, 7):
        o += enc_uint(len(rep[2]) - 1) + enc_uint(rep[1])
        for s in rep[2]:
            o += enc_uint(s)
    elif t == 8:
        o += enc_uint(rep[1] - 2) + enc_uint(rep[2] - 2) + enc_gdelta(rep[3][0], rep[3][1], gform) + enc_gdelta(rep[4][0], rep[4][1], gform)
    elif t == 9:
        o += enc_uint(rep[1] - 2) + enc_gdelta(rep[2][0], rep[2][1], gform)
    elif t == 10:
        o += enc_uint(len(rep[1]) - 1)
        for dx, dy in rep[1]:
            o += enc_gdelta(dx, dy, gform)
    elif t == 11:
        o += enc_uint(len(rep[2]) - 1) + enc_uint(rep[1])
        for dx, dy in rep[2]:
            o += enc_gdelta(dx, dy, gform)
    else:
        raise ValueError("repetition type")
    return bytes(o)


def rep_offsets(rep):
    """Offsets denoted by a repetition, (0,0) first."""
    if rep is None:
        return [(0, 0)]
    t = rep[0]
    if t == 1:
        return [(i * rep[3], j * rep[4]) for i in range(rep[1]) for j in range(rep[2])]
    if t == 2:
        return [(i * rep[2], 0) for i in range(rep[1])]
    if t == 3:
        return [(0, j * rep[2]) for j in range(rep[1])]
    if t in (4, 5, 6, 7):
        g = 1 if t in (4, 6) else rep[1]
        sp = rep[1] if t in (4, 6) else rep[2]
        o, c = [(0, 0)], 0
        for s in sp:
            c += s * g
            o.append((c, 0) if t in (4, 5) else (0, c))
        return o
    if t == 8:
        return [(i * rep[3][0] + j * rep[4][0], i * rep[3][1] + j * rep[4][1]) for i in range(rep[1]) for j in range(rep[2])]
    if t == 9:
        return [(i * rep[2][0], i * rep[2][1]) for i in range(rep[1])]
    if t in (10, 11):
        g = 1 if t == 10 else rep[1]
        dl = rep[1] if t == 10 else rep[2]
        o, cx, cy = [(0, 0)], 0, 0
        for dx, dy in dl:
            cx += dx * g
            cy += dy * g
            o.append((cx, cy))
        return o
    raise ValueError("repetition type")


# ============================================================================ shapes (A.2)
def trapezoid_vertices(vertical, w, h, da, db):
    if not vertical:
        return [(max(da, 0), h), (w + min(db, 0), h), (w - max(db, 0), 0), (-min(da, 0), 0)]
    return [(0, max(da, 0)), (0, h + min(db, 0)), (w, h - max(db, 0)), (w, -min(da, 0))]


_CTRAP = {
    0: lambda w, h: [(0, 0), (w, 0), (w - h, h), (0, h)],
    1: lambda w, h: [(0, 0), (w - h, 0), (w, h), (0, h)],
    2: lambda w, h: [(0, 0), (w, 0), (w, h), (h, h)],
    3: lambda w, h: [(h, 0), (w, 0), (w, h), (0, h)],
    4: lambda w, h: [(0, 0), (w, 0), (w - h, h), (h, h)],
    5: lambda w, h: [(h, 0), (w - h, 0), (w, h), (0, h)],
    6: lambda w, h: [(0, 0), (w - h, 0), (w, h), (h, h)],
    7: lambda w, h: [(h, 0), (w, 0), (w - h, h), (0, h)],
    8: lambda w, h: [(0, 0), (w, 0), (w, h - w), (0, h)],
    9: lambda w, h: [(0, 0), (w, 0), (w, h), (0, h - w)],
    10: lambda w, h: [(0, 0), (w, w), (w, h), (0, h)],
    11: lambda w, h: [(0, w), (w, 0), (w, h), (0, h)],
    12: lambda w, h: [(0, 0), (w, w), (w, h - w), (0, h)],
    13: lambda w, h: [(0, w), (w, 0), (w, h), (0, h - w)],
    14: lambda w, h: [(0, 0), (w, w), (w, h), (0, h - w)],
    15: lambda w, h: [(0, w), (w, 0), (w, h - w), (0, h)],
    16: lambda w, h: [(0, 0), (w, 0), (0, w)],
    17: lambda w, h: [(0, 0), (w, w), (0, w)],
    18: lambda w, h: [(0, 0), (w, 0), (w, w)],
    19: lambda w, h: [(0, w), (w, 0), (w, w)],
    20: lambda w, h: [(0, 0), (2 * h, 0), (h, h)],
    21: lambda w, h: [(0, h), (h, 0), (2 * h, h)],
    22: lambda w, h: [(0, 0), (w, w), (0, 2 * w)],
    23: lambda w, h: [(0, w), (w, 0), (w, 2 * w)],
    24: lambda w, h: [(0, 0), (w, 0), (w, h), (0, h)],
    25: lambda w, h: [(0, 0), (w, 0), (w, w), (0, w)],
}
CTRAP_W_ONLY = (16, 17, 18, 19, 22, 23, 25)
CTRAP_H_ONLY = (20, 21)


def ctrapezoid_uses(t):
    """(uses_w, uses_h)"""
    return (t not in CTRAP_H_ONLY, t not in CTRAP_W_ONLY)


def ctrapezoid_valid(t, w, h):
    if t < 0 or t > 25:
        return False
    if t <= 3:
        return w >= h
    if t <= 7:
        return w >= 2 * h
    if t <= 11:
        return h >= w
    if t <= 15:
        return h >= 2 * w
    return True


def ctrapezoid_vertices(t, w, h):
    return _CTRAP[t](w, h)


def ctrapezoid_extent(t, w, h):
    """(width, height) of the bounding box"""
    if t in (16, 17, 18, 19, 25):
        return (w, w)
    if t in (20, 21):
        return (2 * h, h)
    if t in (22, 23):
        return (w, 2 * w)
    return (w, h)


# ============================================================================ record encoders (pure)
def rec_start(unit, offset_flag, table_offsets=None):
    o = bytearray(b"\x01") + enc_string(b"1.0") + enc_real(unit) + enc_uint(offset_flag)
    if offset_flag == 0:
        for fl, off in table_offsets:
            o += enc_uint(fl) + enc_uint(off)
    return bytes(o)


def rec_end(table_offsets, scheme, prefix_bytes=None, pad_byte=0):
    """END record, exactly 256 bytes.  table_offsets None when they are in START.  prefix_bytes = all
    bytes of the file before this record (needed for the signature)."""
    o = bytearray(b"\x02")
    if table_offsets is not None:
        for fl, off in table_offsets:
            o += enc_uint(fl) + enc_uint(off)
    tail = 1 + (4 if scheme else 0)
    room = 256 - len(o) - tail  # bytes available for the padding b-string (length prefix + bytes)
    # length prefix is 1 byte for L < 128, 2 bytes otherwise
    if room - 1 < 128:
        L = room - 1
    else:
        L = room - 2
    o += enc_uint(L) + bytes([pad_byte]) * L
    o += enc_uint(scheme)
    if len(o) + (4 if scheme else 0) != 256:
        raise ValueError("END size")
    if scheme:
        covered = bytes(prefix_bytes) + bytes(o)
        sig = zlib.crc32(covered) & 0xFFFFFFFF if scheme == 1 else sum(covered) & 0xFFFFFFFF
        o += struct.pack("<I", sig)
    return bytes(o)


def rec_name(kind, name, refnum=None):
    """kind: 'cellname'(3/4) 'textstring'(5/6) 'propname'(7/8) 'propstring'(9/10)"""
    base = {"cellname": 3, "textstring": 5, "propname": 7, "propstring": 9}[kind]
    if refnum is None:
        return bytes([base]) + enc_string(name)
    return bytes([base + 1]) + enc_string(name) + enc_uint(refnum)


def _interval(iv):
    # iv: (0,) all | (1,b) 0..b | (2,a) a.. | (3,a) a | (4,a,b)
    o = enc_uint(iv[0])
    for v in iv[1:]:
        o += enc_uint(v)
    return o


def rec_layername(rid, name, layer_iv, type_iv):
    return bytes([rid]) + enc_string(name) + _interval(layer_iv) + _interval(type_iv)


def rec_cell(name=None, refnum=None):
    if refnum is not None:
        return b"\x0d" + enc_uint(refnum)
    return b"\x0e" + enc_string(name)


def _cellref(cell):
    # cell: None | ('name', bytes) | ('ref', n)
    if cell is None:
        return 0, b""
    if cell[0] == "ref":
        return 0xC0, enc_uint(cell[1])
    return 0x80, enc_string(cell[1])


def rec_placement(rid, cell, x, y, rep, flip, angle=None, mag=None):
    info, body = _cellref(cell)
    if x is not None:
        info |= 0x20
    if y is not None:
        info |= 0x10
    if rep is not None:
        info |= 0x08
    if flip:
        info |= 0x01
    o = bytearray()
    if rid == 17:
        info |= {0: 0, 90: 2, 180: 4, 270: 6}[angle or 0]
        o += body
    else:
        if mag is not None:
            info |= 0x04
        if angle is not None:
            info |= 0x02
        o += body
        if mag is not None:
            o += enc_real(mag)
        if angle is not None:
            o += enc_real(angle)
    if x is not None:
        o += enc_sint(x)
    if y is not None:
        o += enc_sint(y)
    if rep is not None:
        o += enc_repetition(rep)
    return bytes([rid, info]) + bytes(o)


def rec_text(text, textlayer, texttype, x, y, rep):
    info = 0
    o = bytearray()
    if text is not None:
        info |= 0x40
        if text[0] == "ref":
            info |= 0x20
            o += enc_uint(text[1])
        else:
            o += enc_string(text[1])
    for bit, v in ((0x01, textlayer), (0x02, texttype)):
        if v is not None:
            info |= bit
            o += enc_uint(v)
    if x is not None:
        info |= 0x10
        o += enc_sint(x)
    if y is not None:
        info |= 0x08
        o += enc_sint(y)
    if rep is not None:
        info |= 0x04
        o += enc_repetition(rep)
    return bytes([19, info]) + bytes(o)


def _ld(layer, datatype):
    info, o = 0, b""
    if layer is not None:
        info |= 0x01
        o += enc_uint(layer)
    if datatype is not None:
        info |= 0x02
        o += enc_uint(datatype)
    return info, o


def _xyr(x, y, rep):
    info, o = 0, b""
    if x is not None:
        info |= 0x10
        o += enc_sint(x)
    if y is not None:
        info |= 0x08
        o += enc_sint(y)
    if rep is not None:
        info |= 0x04
        o += enc_repetition(rep)
    return info, o


def rec_rectangle(layer, datatype, w, h, square, x, y, rep):
    i1, o1 = _ld(layer, datatype)
    i2, o2 = _xyr(x, y, rep)
    info = i1 | i2 | (0x80 if square else 0)
    mid = b""
    if w is not None:
        info |= 0x40
        mid += enc_uint(w)
    if h is not None:
        if square:
            raise ValueError("square with explicit h")
        info |= 0x20
        mid += enc_uint(h)
    return bytes([20, info]) + o1 + mid + o2


def rec_polygon(layer, datatype, plist, x, y, rep):
    i1, o1 = _ld(layer, datatype)
    i2, o2 = _xyr(x, y, rep)
    info = i1 | i2
    mid = b""
    if plist is not None:
        info |= 0x20
        mid = enc_point_list(plist[0], plist[1], True)
    return bytes([21, info]) + o1 + mid + o2


def rec_path(layer, datatype, hw, ext, plist, x, y, rep):
    """ext: None (E=0) or (ss, sval, ee, eval) with ss/ee in 0..3; values only used for code 3."""
    i1, o1 = _ld(layer, datatype)
    i2, o2 = _xyr(x, y, rep)
    info = i1 | i2
    mid = b""
    if hw is not None:
        info |= 0x40
        mid += enc_uint(hw)
    if ext is not None:
        info |= 0x80
        ss, sv, ee, ev = ext
        mid += bytes([(ss << 2) | ee])
        if ss == 3:
            mid += enc_sint(sv)
        if ee == 3:
            mid += enc_sint(ev)
    if plist is not None:
        info |= 0x20
        mid += enc_point_list(plist[0], plist[1], False)
    return bytes([22, info]) + o1 + mid + o2


def rec_trapezoid(rid, layer, datatype, w, h, vertical, da, db, x, y, rep):
    i1, o1 = _ld(layer, datatype)
    i2, o2 = _xyr(x, y, rep)
    info = i1 | i2 | (0x80 if vertical else 0)
    mid = b""
    if w is not None:
        info |= 0x40
        mid += enc_uint(w)
    if h is not None:
        info |= 0x20
        mid += enc_uint(h)
    if rid in (23, 24):
        mid += enc_1delta(da)
    if rid in (23, 25):
        mid += enc_1delta(db)
    return bytes([rid, info]) + o1 + mid + o2


def rec_ctrapezoid(layer, datatype, ctype, w, h, x, y, rep):
    i1, o1 = _ld(layer, datatype)
    i2, o2 = _xyr(x, y, rep)
    info = i1 | i2
    mid = b""
    if ctype is not None:
        info |= 0x80
        mid += enc_uint(ctype)
    if w is not None:
        info |= 0x40
        mid += enc_uint(w)
    if h is not None:
        info |= 0x20
        mid += enc_uint(h)
    return bytes([26, info]) + o1 + mid + o2


def rec_circle(layer, datatype, r, x, y, rep):
    i1, o1 = _ld(layer, datatype)
    i2, o2 = _xyr(x, y, rep)
    info = i1 | i2
    mid = b""
    if r is not None:
        info |= 0x20
        mid += enc_uint(r)
    return bytes([27, info]) + o1 + mid + o2


def enc_prop_value(v, strref=None):
    """v: VAL; strref: reference number to use instead of the inline string (types 13/14/15)."""
    t = v[0]
    if t == "real":
        return enc_real(v[1])
    if t == "uint":
        return b"\x08" + enc_uint(v[1])
    if t == "sint":
        return b"\x09" + enc_sint(v[1])
    code = {"a": 10, "b": 11, "n": 12}[t]
    if strref is not None:
        return bytes([code + 3]) + enc_uint(strref)
    return bytes([code]) + enc_string(v[1])


def rec_property(name, values, std, strrefs=None, explicit_count=False):
    """name: None (C=0) | ('name', bytes) | ('ref', n); values: None (V=1) or list of VAL;
    strrefs: dict index->refnum for values given by propstring reference."""
    info = 0x01 if std else 0
    o = bytearray()
    if name is not None:
        info |= 0x04
        if name[0] == "ref":
            info |= 0x02
            o += enc_uint(name[1])
        else:
            o += enc_string(name[1])
    if values is None:
        info |= 0x08
    else:
        n = len(values)
        if n >= 15 or explicit_count:
            info |= 0xF0
            o += enc_uint(n)
        else:
            info |= n << 4
        for i, v in enumerate(values):
            o += enc_prop_value(v, (strrefs or {}).get(i))
    return bytes([28, info]) + bytes(o)


def rec_cblock(payload, level=6):
    c = zlib.compressobj(level, zlib.DEFLATED, -15)
    comp = c.compress(bytes(payload)) + c.flush()
    return b"\x22" + enc_uint(0) + enc_uint(len(payload)) + enc_uint(len(comp)) + comp


def rec_xname(attr, name, refnum=None):
    if refnum is None:
        return b"\x1e" + enc_uint(attr) + enc_string(name)
    return b"\x1f" + enc_uint(attr) + enc_string(name) + enc_uint(refnum)


def rec_xelement(attr, data):
    return b"\x20" + enc_uint(attr) + enc_string(data)


def rec_xgeometry(attr, layer, datatype, data, x, y, rep):
    i1, o1 = _ld(layer, datatype)
    i2, o2 = _xyr(x, y, rep)
    return bytes([33, i1 | i2]) + enc_uint(attr) + o1 + enc_string(data) + o2


# ============================================================================ denotation
def denote(el):
    """What an element means: polygons as absolute vertex lists, circles as centre+radius, paths as
    centre line + half-width + extensions, texts, placements (mag/angle as exact Fractions, angle in
    degrees); 'offsets' = sorted expanded repetition offsets; 'props' passed through."""
    k = el["kind"]
    x, y = el["x"], el["y"]
    base = {"offsets": tuple(sorted(rep_offsets(el.get("rep")))), "props": el.get("props", [])}
    if k in ("rectangle", "polygon", "trapezoid", "ctrapezoid"):
        if k == "rectangle":
            w, h = el["w"], el["h"]
            v = [(0, 0), (w, 0), (w, h), (0, h)]
        elif k == "polygon":
            v = el["pts"]
        elif k == "trapezoid":
            v = trapezoid_vertices(el["vertical"], el["w"], el["h"], el["da"], el["db"])
        else:
            v = ctrapezoid_vertices(el["ctype"], el["w"], el["h"])
        base.update(kind="polygon", layer=el["layer"], datatype=el["datatype"], points=[(x + a, y + b) for a, b in v], source=k)
    elif k == "circle":
        base.update(kind="circle", layer=el["layer"], datatype=el["datatype"], centre=(x, y), r=el["r"])
    elif k == "path":
        base.update(kind="path", layer=el["layer"], datatype=el["datatype"], hw=el["hw"], ext=tuple(el["ext"]),
                    points=[(x + a, y + b) for a, b in el["pts"]])
    elif k == "text":
        base.update(kind="text", layer=el["textlayer"], datatype=el["texttype"], text=el["text"], xy=(x, y))
    elif k == "placement":
        if el["rec"] == 17:
            mag, ang = Fraction(1), Fraction(el.get("angle") or 0)
        else:
            mag = real_fraction(el["mag"]) if el.get("mag") is not None else Fraction(1)
            ang = real_fraction(el["angle"]) if el.get("angle") is not None else Fraction(0)
        base.update(kind="placement", cell=el["cell"], xy=(x, y), mag=mag, angle=ang, flip=bool(el.get("flip")))
    else:
        raise ValueError(k)
    return base


# ============================================================================ layout encoder
_UNDEF = object()

DEFAULT_CHOICES = {
    "implicit": "none",   # 'none' | 'all' | iterable of keys '<cell>.<element>.<field>' (see info['eligible'])
    "xymode": "abs",      # 'abs' | 'rel' | 'rel_after1' | 'abs_after1' | [(element_index,'rel'|'abs'),..] | {cell_index: one of these}
    "cell_by": "name",    # CELL record 14 (name) or 13 (reference number)
    "plc_by": "name",     # placements name cells inline or by reference number
    "text_by": "str",     # TEXT strings inline or by reference number
    "pname_by": "str",    # property names inline or by reference number
    "pstr_by": "inline",  # string property values inline (10/11/12) or by reference (13/14/15)
    "tables": "after",    # name tables before the first cell or after the last
    "numbering": "implicit",  # 'implicit' (records 3/5/7/9) | 'explicit' (4/6/8/10, non-contiguous numbers)
    "offsets_in": "end",  # table offsets in START or END
    "strict": 0,          # 0: flags 0, offsets 0 | 1: flags 0, real offsets | 2: strict flags where legal
    "pad": 0,             # bit 1 after START, 2 before each CELL, 4 between cell-body records, 8 before END,
                          # 16 between name records
    "cblock": None,       # per cell body: None | 'one' | ('split', k) | 'cell' (CELL record inside too)
    "cb_level": 6,
    "cb_tables": False,   # wrap the name tables in a CBLOCK (forces non-strict, offsets 0)
    "validation": 0,      # 0 none, 1 CRC32, 2 CHECKSUM32
    "rec29": False,       # use record 29 when both name and value list of a property are reused
    "explicit_count": False,  # PROPERTY: UUUU=15 + explicit count even for < 15 values
    "layernames": (),     # LAYERNAME records [(11|12, name, layer_interval, type_interval)..] emitted with the name tables
    "cb_file": False,     # everything between START and END inside one CBLOCK (forces offsets 0, non-strict)
}
TABLE_KINDS = ("cellname", "textstring", "propname", "propstring", "layername", "xname")


class _Enc:
    def __init__(self, layout, choices):
        self.L = layout
        self.C = dict(DEFAULT_CHOICES)
        self.C.update(choices or {})
        imp = self.C["implicit"]
        self.imp_all = imp == "all"
        self.imp = set() if imp in ("none", "all") else set(imp)
        self.modal = {}
        self.rel = False
        self.eligible, self.taken = [], []
        self.features = set()

    # ---- modal helpers
    def want(self, key):
        return self.imp_all or key in self.imp

    def reset_cell(self):
        self.modal = {k: 0 for k in ("placement_x", "placement_y", "geometry_x", "geometry_y", "text_x", "text_y")}
        self.rel = False

    def reset_name(self):
        # after a <name> record nothing is relied upon
        self.modal = {}
        self.rel = False

    def f(self, key, mvar, value):
        legal = self.modal.get(mvar, _UNDEF) == value
        self.modal[mvar] = value
        if legal:
            self.eligible.append(key)
            if self.want(key):
                self.taken.append(key)
                self.features.add("modal")
                return None
        return value

    def fxy(self, key, mvar, value):
        old = self.modal.get(mvar, _UNDEF)
        legal = old == value
        self.modal[mvar] = value
        if legal:
            self.eligible.append(key)
            if self.want(key):
                self.taken.append(key)
                self.features.add("modal")
                return None
        if self.rel:
            if old is _UNDEF:
                raise ValueError("relative mode with undefined position")
            self.features.add("relative")
            return value - old
        return value

    def frep(self, key, rep):
        if rep is None:
            return None
        if len(rep_offsets(rep)) > 1:
            self.features.add("repetition")
        r = self.f(key + ".rep", "repetition", rep)
        return (0,) if r is None else r

    # ---- names
    def collect_names(self):
        C, L = self.C, self.L
        cells = [c["name"] for c in L["cells"]]
        cellnames = list(cells)
        texts, pnames, pstrs = [], [], []

        def props(pl):
            for p in pl:
                if p["name"] not in pnames:
                    pnames.append(p["name"])
                for v in p["values"]:
                    if v[0] in ("a", "b", "n") and v[1] not in pstrs:
                        pstrs.append(v[1])

        props(L.get("props", []))
        for c in L["cells"]:
            props(c.get("props", []))
            props(c.get("name_props", []))
            for e in c["elements"]:
                props(e.get("props", []))
                if e["kind"] == "placement" and e["cell"] not in cellnames:
                    cellnames.append(e["cell"])
                if e["kind"] == "text" and e["text"] not in texts:
                    texts.append(e["text"])
        need_cellname = C["cell_by"] == "ref" or C["plc_by"] == "ref" or any(c.get("name_props") for c in L["cells"])
        if not need_cellname:
            cellnames = []
        elif C["cell_by"] != "ref" and C["plc_by"] != "ref":
            cellnames = [c["name"] for c in L["cells"] if c.get("name_props")]
        if C["text_by"] != "ref":
            texts = []
        if C["pname_by"] != "ref":
            pnames = []
        if C["pstr_by"] != "ref":
            pstrs = []
        self.tables = {"cellname": cellnames, "textstring": texts, "propname": pnames, "propstring": pstrs}
        self.num = {}
        for kind, names in self.tables.items():
            if C["numbering"] == "explicit":
                self.num[kind] = {n: 3 * i + 2 for i, n in enumerate(names)}
            else:
                self.num[kind] = {n: i for i, n in enumerate(names)}
            if names:
                self.features.add("table_ref")

    # ---- properties
    def prop(self, key, p):
        C = self.C
        nm = self.f(key + ".name", "prop_name", p["name"])
        vals = tuple(p["values"])
        vl = self.f(key + ".val", "prop_values", vals)
        if nm is None and vl is None and C["rec29"] and self.modal.get("prop_std", _UNDEF) == bool(p.get("std")):
            return b"\x1d"
        self.modal["prop_std"] = bool(p.get("std"))
        name = None
        if nm is not None:
            name = ("ref", self.num["propname"][nm]) if C["pname_by"] == "ref" else ("name", nm)
        strrefs = None
        if vl is not None and C["pstr_by"] == "ref":
            strrefs = {i: self.num["propstring"][v[1]] for i, v in enumerate(vals) if v[0] in ("a", "b", "n")}
        return rec_property(name, None if vl is None else list(vals), p.get("std"), strrefs, C["explicit_count"])

    # ---- elements
    def element(self, ci, ei, el):
        C = self.C
        key = "%d.%d" % (ci, ei)
        k = el["kind"]
        f = lambda fn, mv, v: self.f(key + "." + fn, mv, v)
        if k == "placement":
            cell = f("cell", "placement_cell", el["cell"])
            if cell is not None:
                cell = ("ref", self.num["cellname"][cell]) if C["plc_by"] == "ref" else ("name", cell)
            x = self.fxy(key + ".x", "placement_x", el["x"])
            y = self.fxy(key + ".y", "placement_y", el["y"])
            rep = self.frep(key, el.get("rep"))
            return rec_placement(el["rec"], cell, x, y, rep, el.get("flip"), el.get("angle"), el.get("mag"))
        if k == "text":
            t = f("text", "text_string", el["text"])
            if t is not None:
                t = ("ref", self.num["textstring"][t]) if C["text_by"] == "ref" else ("str", t)
            tl = f("textlayer", "textlayer", el["textlayer"])
            tt = f("texttype", "texttype", el["texttype"])
            x = self.fxy(key + ".x", "text_x", el["x"])
            y = self.fxy(key + ".y", "text_y", el["y"])
            rep = self.frep(key, el.get("rep"))
            return rec_text(t, tl, tt, x, y, rep)
        layer = f("layer", "layer", el["layer"])
        dt = f("datatype", "datatype", el["datatype"])
        gx = lambda: self.fxy(key + ".x", "geometry_x", el["x"])
        gy = lambda: self.fxy(key + ".y", "geometry_y", el["y"])
        if k == "rectangle":
            w = f("w", "geometry_w", el["w"])
            if el.get("square"):
                if el["w"] != el["h"]:
                    raise ValueError("square with w != h")
                h = None
                self.modal["geometry_h"] = el["w"]
            else:
                h = f("h", "geometry_h", el["h"])
            x, y = gx(), gy()
            return rec_rectangle(layer, dt, w, h, bool(el.get("square")), x, y, self.frep(key, el.get("rep")))
        if k == "polygon":
            pl = f("pts", "polygon_points", tuple(el["pts"]))
            x, y = gx(), gy()
            return rec_polygon(layer, dt, None if pl is None else (el["ptype"], list(pl)), x, y, self.frep(key, el.get("rep")))
        if k == "path":
            hw = f("hw", "path_halfwidth", el["hw"])
            s, e = el["ext"]
            ss, ee = el.get("ext_repr", (3, 3))
            ls = self.modal.get("path_ext_s", _UNDEF) == s
            le = self.modal.get("path_ext_e", _UNDEF) == e
            self.modal["path_ext_s"], self.modal["path_ext_e"] = s, e
            # choice points: E bit off (both reused) | per end: scheme 0 (reuse) | 1 flush | 2 half-width | 3 explicit
            if ls and le:
                self.eligible.append(key + ".ext")
            if ls:
                self.eligible.append(key + ".ext_s")
            if le:
                self.eligible.append(key + ".ext_e")
            if ls and le and self.want(key + ".ext"):
                self.taken.append(key + ".ext")
                self.features.add("modal")
                ext = None
            else:
                def code(legal, want_code, val, sub):
                    if legal and (want_code == 0 or self.want(key + sub)):
                        self.taken.append(key + sub)
                        self.features.add("modal")
                        return 0
                    if want_code == 1 and val == 0:
                        return 1
                    if want_code == 2 and val == el["hw"]:
                        return 2
                    return 3
                ext = (code(ls, ss, s, ".ext_s"), s, code(le, ee, e, ".ext_e"), e)
            pl = f("pts", "path_points", tuple(el["pts"]))
            x, y = gx(), gy()
            return rec_path(layer, dt, hw, ext, None if pl is None else (el["ptype"], list(pl)), x, y, self.frep(key, el.get("rep")))
        if k == "trapezoid":
            w = f("w", "geometry_w", el["w"])
            h = f("h", "geometry_h", el["h"])
            x, y = gx(), gy()
            return rec_trapezoid(el["rec"], layer, dt, w, h, el["vertical"], el["da"], el["db"], x, y, self.frep(key, el.get("rep")))
        if k == "ctrapezoid":
            t = f("ctype", "ctrapezoid_type", el["ctype"])
            uw, uh = ctrapezoid_uses(el["ctype"])
            w = h = None
            if uw:
                w = f("w", "geometry_w", el["w"])
            else:
                self.modal.pop("geometry_w", None)  # A.2 is silent on the modal width after an h-only type
            if uh:
                h = f("h", "geometry_h", el["h"])
            else:
                self.modal.pop("geometry_h", None)
            x, y = gx(), gy()
            return rec_ctrapezoid(layer, dt, t, w, h, x, y, self.frep(key, el.get("rep")))
        if k == "circle":
            r = f("r", "circle_radius", el["r"])
            x, y = gx(), gy()
            return rec_circle(layer, dt, r, x, y, self.frep(key, el.get("rep")))
        raise ValueError(k)

    # ---- whole file
    def mode_switches(self, ci):
        m = self.C["xymode"]
        if isinstance(m, dict):  # per cell: {cell_index: mode}
            m = m.get(ci, "abs")
        if m == "abs":
            return {}
        if m == "rel":
            return {0: "rel"}
        if m == "rel_after1":
            return {1: "rel"}
        if m == "abs_after1":
            return {0: "rel", 1: "abs"}
        return dict(m)

    def table_records(self, kind):
        names = self.tables[kind]
        order = list(names)
        explicit = self.C["numbering"] == "explicit"
        if explicit:
            order.reverse()
        recs = []
        for n in order:
            recs.append(rec_name(kind, n, self.num[kind][n] if explicit else None))
            self.reset_name()
            if kind == "cellname":
                for c in self.L["cells"]:
                    if c["name"] == n:
                        for pi, p in enumerate(c.get("name_props", [])):
                            recs.append(self.prop("n.%s.p%d" % (n.decode("latin-1"), pi), p))
        return recs

    def build(self):
        C, L = self.C, self.L
        PAD = b"\x00"
        self.collect_names()
        pieces = []  # (tag, bytes); tags: ('table',kind) marks the first record of a table, ('cell',name)
        self.modal = {}
        fileprops = [self.prop("f.p%d" % i, p) for i, p in enumerate(L.get("props", []))]
        head = []
        if C["pad"] & 1:
            head.append(PAD)
        head += fileprops
        pieces.append((None, b"".join(head)))

        def tables():
            out = []
            body = []
            for kind in ("cellname", "textstring", "propname", "propstring"):
                recs = self.table_records(kind)
                if not recs:
                    continue
                if C["pad"] & 16:
                    j = [recs[0]]
                    for r in recs[1:]:
                        j += [PAD, r]
                    recs = j
                if C["cb_tables"]:
                    body += recs
                else:
                    out.append((("table", kind), b"".join(recs)))
            lrecs = [rec_layername(*ln) for ln in C["layernames"]]
            if lrecs:
                self.reset_name()
                if C["cb_tables"]:
                    body += lrecs
                else:
                    out.append((("table", "layername"), b"".join(lrecs)))
            if C["cb_tables"] and body:
                self.features.add("cblock")
                out.append((None, rec_cblock(b"".join(body), C["cb_level"])))
            return out

        if C["tables"] == "before":
            pieces += tables()
        for ci, c in enumerate(L["cells"]):
            if C["pad"] & 2:
                pieces.append((None, PAD))
            if C["cell_by"] == "ref":
                crec = rec_cell(refnum=self.num["cellname"][c["name"]])
            else:
                crec = rec_cell(name=c["name"])
            self.reset_cell()
            recs = [self.prop("%d.c.p%d" % (ci, i), p) for i, p in enumerate(c.get("props", []))]
            sw = self.mode_switches(ci)
            for ei, el in enumerate(c["elements"]):
                if ei in sw:
                    self.rel = sw[ei] == "rel"
                    recs.append(b"\x10" if self.rel else b"\x0f")
                recs.append(self.element(ci, ei, el))
                for pi, p in enumerate(el.get("props", [])):
                    recs.append(self.prop("%d.%d.p%d" % (ci, ei, pi), p))
            if C["pad"] & 4:
                j = []
                for r in recs:
                    j += [r, PAD]
                recs = j
            cb = C["cblock"]
            if cb is None or not recs:
                pieces.append((("cell", c["name"]), crec + b"".join(recs)))
            else:
                self.features.add("cblock")
                if cb == "one":
                    pieces.append((("cell", c["name"]), crec + rec_cblock(b"".join(recs), C["cb_level"])))
                elif cb == "cell":
                    pieces.append((("cellcb", c["name"]), rec_cblock(crec + b"".join(recs), C["cb_level"])))
                else:
                    k = max(1, min(cb[1], len(recs) - 1)) if len(recs) > 1 else 0
                    if k == 0:
                        pieces.append((("cell", c["name"]), crec + rec_cblock(b"".join(recs), C["cb_level"])))
                    else:
                        pieces.append((("cell", c["name"]), crec + rec_cblock(b"".join(recs[:k]), C["cb_level"]) +
                                       rec_cblock(b"".join(recs[k:]), C["cb_level"])))
        if C["tables"] != "before":
            pieces += tables()
        if C["pad"] & 8:
            pieces.append((None, PAD))

        # strictness: a table may be flagged strict only if nothing of its kind is given inline
        inline = {"cellname": C["cell_by"] != "ref" or (C["plc_by"] != "ref" and any(e["kind"] == "placement" for c in L["cells"] for e in c["elements"])),
                  "textstring": C["text_by"] != "ref" and any(e["kind"] == "text" for c in L["cells"] for e in c["elements"]),
                  "propname": C["pname_by"] != "ref" and self._has_props(),
                  "propstring": C["pstr_by"] != "ref" and self._has_pstr(),
                  "layername": False, "xname": False}

        if C["cb_file"]:
            self.features.add("cblock")
            pieces = [(None, rec_cblock(b"".join(b for _, b in pieces), C["cb_level"]))]

        def assemble(offsets):
            in_start = C["offsets_in"] == "start"
            data = bytearray(MAGIC + rec_start(L["unit"], 0 if in_start else 1, offsets if in_start else None))
            pos = {}
            cellpos = {}
            for tag, b in pieces:
                if tag and tag[0] == "table":
                    pos[tag[1]] = len(data)
                if tag and tag[0] == "cell":
                    cellpos[tag[1]] = len(data)
                data += b
            return data, pos, cellpos

        offsets = [(0, 0)] * 6
        for _ in range(6):
            data, pos, cellpos = assemble(offsets)
            new = []
            for kind in TABLE_KINDS:
                if C["strict"] == 0 or C["cb_tables"] or C["cb_file"]:
                    new.append((0, 0))
                elif C["strict"] == 1:
                    new.append((0, pos.get(kind, 0)))
                else:
                    new.append((0 if inline[kind] else 1, pos.get(kind, 0)))
            if new == offsets:
                break
            offsets = new
        else:
            raise ValueError("table offsets did not converge")
        end_pos = len(data)
        data += rec_end(None if C["offsets_in"] == "start" else offsets, C["validation"], data)
        info = {"eligible": self.eligible, "taken": self.taken, "features": sorted(self.features), "table_offsets": offsets,
                "table_pos": pos, "cell_pos": cellpos, "end_pos": end_pos}
        return bytes(data), info

    def _has_props(self):
        L = self.L
        return bool(L.get("props")) or any(c.get("props") or c.get("name_props") or any(e.get("props") for e in c["elements"]) for c in L["cells"])

    def _has_pstr(self):
        L = self.L
        pls = [L.get("props", [])] + [c.get("props", []) for c in L["cells"]] + [c.get("name_props", []) for c in L["cells"]] + \
              [e.get("props", []) for c in L["cells"] for e in c["elements"]]
        return any(v[0] in ("a", "b", "n") for pl in pls for p in pl for v in p["values"])


def encode_layout(layout, choices=None):
    """-> (file bytes, info).  info['eligible'] lists every '<cell>.<element>.<field>' whose info-byte
    field may legally be left implicit (modal variable defined and equal); info['taken'] those that were;
    info['features'] subset of {modal, relative, table_ref, cblock, repetition}."""
    return _Enc(layout, choices).build()


# ============================================================================ strict decoder
class _Stream:
    """File bytes plus at most one inflated CBLOCK on top."""

    def __init__(self, data):
        self.data = data
        self.pos = 0
        self.cb = None  # inflated bytes
        self.cbpos = 0
        self.max_uint = 0
        self.max_sint = 0
        self.max_string = 0
        self.nonminimal = 0

    def in_cblock(self):
        return self.cb is not None

    def byte(self):
        if self.cb is not None:
            if self.cbpos >= len(self.cb):
                raise OasisError("record runs past the end of a CBLOCK")
            b = self.cb[self.cbpos]
            self.cbpos += 1
            return b
        if self.pos >= len(self.data):
            raise OasisError("unexpected end of file")
        b = self.data[self.pos]
        self.pos += 1
        return b

    def take(self, n):
        if self.cb is not None:
            if self.cbpos + n > len(self.cb):
                raise OasisError("record runs past the end of a CBLOCK")
            b = self.cb[self.cbpos:self.cbpos + n]
            self.cbpos += n
            return bytes(b)
        if self.pos + n > len(self.data):
            raise OasisError("unexpected end of file")
        b = self.data[self.pos:self.pos + n]
        self.pos += n
        return bytes(b)

    def _uint_raw(self):
        v, sh, n = 0, 0, 0
        while True:
            b = self.byte()
            n += 1
            v |= (b & 0x7F) << sh
            sh += 7
            if not b & 0x80:
                break
            if n > 10:
                raise OasisError("integer longer than 10 bytes")
        if n > 1 and b == 0:
            self.nonminimal += 1
        return v

    def uint(self):
        v = self._uint_raw()
        if v > self.max_uint:
            self.max_uint = v
        return v

    def sint(self):
        v = self._uint_raw()
        m = v >> 1
        if m > self.max_sint:
            self.max_sint = m
        return -m if v & 1 else m

    def string(self, kind="b"):
        n = self.uint()
        s = self.take(n)
        if n > self.max_string:
            self.max_string = n
        if kind == "a" and any(c < 0x20 or c > 0x7E for c in s):
            raise OasisError("a-string with non-printable byte")
        if kind == "n" and (n == 0 or any(c < 0x21 or c > 0x7E for c in s)):
            raise OasisError("invalid n-string")
        return s

    def real(self, t=None):
        if t is None:
            t = self.uint()
        if t in (0, 1, 2, 3):
            n = self.uint()
            if t in (2, 3) and n == 0:
                raise OasisError("reciprocal of zero")
            return (t, n)
        if t in (4, 5):
            p, q = self.uint(), self.uint()
            if q == 0:
                raise OasisError("ratio with zero denominator")
            return (t, p, q)
        if t == 6:
            return (6, struct.unpack("<f", self.take(4))[0])
        if t == 7:
            return (7, struct.unpack("<d", self.take(8))[0])
        raise OasisError("real type %d" % t)

    def delta2(self):
        v = self._uint_raw()
        d, m = v & 3, v >> 2
        sx, sy = _DIRV[d]
        return sx * m, sy * m

    def delta3(self):
        v = self._uint_raw()
        d, m = v & 7, v >> 3
        sx, sy = _DIRV[d]
        return sx * m, sy * m

    def gdelta(self):
        v = self._uint_raw()
        if v & 1 == 0:
            d, m = (v >> 1) & 7, v >> 4
            sx, sy = _DIRV[d]
            return sx * m, sy * m
        x = v >> 2
        if v & 2:
            x = -x
        return x, self.sint()

    def point_list(self, closed):
        t = self.uint()
        n = self.uint()
        pts = [(0, 0)]
        if t in (0, 1):
            h = t == 0
            if closed and (n < 2 or n % 2):
                raise OasisError("manhattan polygon point list needs an even count >= 2")
            for _ in range(n):
                d = self.sint()
                x, y = pts[-1]
                pts.append((x + d, y) if h else (x, y + d))
                h = not h
            if closed:
                x, y = pts[-1]
                pts.append((0, y) if h else (x, 0))
        elif t in (2, 3, 4):
            rd = {2: self.delta2, 3: self.delta3, 4: self.gdelta}[t]
            for _ in range(n):
                dx, dy = rd()
                pts.append((pts[-1][0] + dx, pts[-1][1] + dy))
        elif t == 5:
            px = py = 0
            for _ in range(n):
                dx, dy = self.gdelta()
                px += dx
                py += dy
                pts.append((pts[-1][0] + px, pts[-1][1] + py))
        else:
            raise OasisError("point-list type %d" % t)
        if closed and len(pts) < 3:
            raise OasisError("polygon with fewer than 3 vertices")
        if not closed and len(pts) < 2:
            raise OasisError("path with fewer than 2 vertices")
        return t, pts

    def repetition(self):
        t = self.uint()
        if t == 0:
            return (0,)
        if t == 1:
            return (1, self.uint() + 2, self.uint() + 2, self.uint(), self.uint())
        if t in (2, 3):
            return (t, self.uint() + 2, self.uint())
        if t in (4, 6):
            n = self.uint() + 1
            return (t, [self.uint() for _ in range(n)])
        if t in (5, 7):
            n = self.uint() + 1
            g = self.uint()
            return (t, g, [self.uint() for _ in range(n)])
        if t == 8:
            return (8, self.uint() + 2, self.uint() + 2, self.gdelta(), self.gdelta())
        if t == 9:
            return (9, self.uint() + 2, self.gdelta())
        if t == 10:
            n = self.uint() + 1
            return (10, [self.gdelta() for _ in range(n)])
        if t == 11:
            n = self.uint() + 1
            g = self.uint()
            return (11, g, [self.gdelta() for _ in range(n)])
        raise OasisError("repetition type %d" % t)


STD_PROP_NAMES = (b"S_MAX_SIGNED_INTEGER_WIDTH", b"S_MAX_UNSIGNED_INTEGER_WIDTH", b"S_MAX_STRING_LENGTH",
                  b"S_POLYGON_MAX_VERTICES", b"S_PATH_MAX_VERTICES", b"S_TOP_CELL", b"S_BOUNDING_BOXES_AVAILABLE",
                  b"S_BOUNDING_BOX", b"S_CELL_OFFSET", b"S_GDS_PROPERTY")


def decode(data, strict=True):
    """Strict decoder.  -> (layout, facts).  facts:
      end_pos, file_size, offset_flag, table_offsets [(flag, offset)x6], table_first {kind: file offset of the
      first record of that kind (None inside a CBLOCK)}, table_contiguous {kind: bool}, inline_names {kind: n uses},
      cell_pos {name: file offset of the CELL record or None if inside a CBLOCK}, validation (scheme, stored, computed),
      records [(file_offset|None, record id)], cblocks n, max_uint, max_sint, max_string, polygon_max_vertices,
      path_max_vertices, nonminimal_integers, xrecords n, pads n, max_string_before_end (END padding excluded)."""
    data = bytes(data)
    if data[:13] != MAGIC:
        raise OasisError("bad magic")
    S = _Stream(data)
    S.pos = 13
    if S.byte() != 1:
        raise OasisError("START record expected")
    if S.string("a") != b"1.0":
        raise OasisError("version is not 1.0")
    unit = S.real()
    if real_fraction(unit) <= 0:
        raise OasisError("unit must be positive")
    oflag = S.uint()
    if oflag not in (0, 1):
        raise OasisError("offset-flag must be 0 or 1")
    toffs = None
    if oflag == 0:
        toffs = [(S.uint(), S.uint()) for _ in range(6)]

    layout = {"unit": unit, "props": [], "cells": []}
    facts = {"offset_flag": oflag, "records": [], "cblocks": 0, "xrecords": 0, "pads": 0, "cell_pos": {},
             "table_first": {}, "table_contiguous": {k: True for k in TABLE_KINDS}, "inline_names": {k: 0 for k in TABLE_KINDS},
             "polygon_max_vertices": 0, "path_max_vertices": 0, "file_size": len(data)}
    tables = {k: {} for k in ("cellname", "textstring", "propname", "propstring")}
    numbering = {}       # kind -> 'implicit'|'explicit'
    table_props = {k: {} for k in tables}  # refnum -> props list
    closed_tables = set()   # kinds whose run of records has ended
    last_kind = None        # kind of the previous name record run
    pending = []         # (setter, kind, refnum) resolved at END
    modal = {}
    rel = [False]
    cur_cell = [None]
    prop_target = [layout["props"]]
    cells_by_ref = []    # (cell dict, refnum)

    def mget(k):
        if k not in modal:
            raise OasisError("modal variable %s used while undefined" % k)
        return modal[k]

    def reset_cell():
        modal.clear()
        for k in ("placement_x", "placement_y", "geometry_x", "geometry_y", "text_x", "text_y"):
            modal[k] = 0
        rel[0] = False

    def getxy(info, xbit, ybit, prefix):
        for bit, ax in ((xbit, "_x"), (ybit, "_y")):
            if info & bit:
                v = S.sint()
                modal[prefix + ax] = mget(prefix + ax) + v if rel[0] else v
        return mget(prefix + "_x"), mget(prefix + "_y")

    def getrep(info, bit):
        if not info & bit:
            return None
        r = S.repetition()
        if r == (0,):
            return mget("repetition")
        modal["repetition"] = r
        return r

    def ld(info):
        if info & 1:
            modal["layer"] = S.uint()
        if info & 2:
            modal["datatype"] = S.uint()
        return mget("layer"), mget("datatype")

    def need_cell(what):
        if cur_cell[0] is None:
            raise OasisError(what + " outside a cell")
        return cur_cell[0]

    def add(el):
        el["props"] = []
        need_cell(el["kind"])["elements"].append(el)
        prop_target[0] = el["props"]

    def name_record(kind, rid, base):
        nonlocal last_kind
        s = S.string("b" if kind == "propstring" else ("a" if kind == "textstring" else "n"))
        mode = "implicit" if rid == base else "explicit"
        if numbering.setdefault(kind, mode) != mode:
            raise OasisError("%s records mix implicit and explicit numbering" % kind)
        num = len(tables[kind]) if mode == "implicit" else S.uint()
        if num in tables[kind]:
            raise OasisError("duplicate %s reference number %d" % (kind, num))
        if kind == "cellname" and s in tables[kind].values():
            raise OasisError("duplicate cell name in CELLNAME records")
        tables[kind][num] = s
        table_props[kind][num] = []
        prop_target[0] = table_props[kind][num]
        cur_cell[0] = None
        modal.clear()
        rel[0] = False

    KIND_OF = {3: "cellname", 4: "cellname", 5: "textstring", 6: "textstring", 7: "propname", 8: "propname",
               9: "propstring", 10: "propstring", 11: "layername", 12: "layername", 30: "xname", 31: "xname"}
    end_pos = None
    while True:
        if S.cb is not None and S.cbpos == len(S.cb):
            S.cb = None
        fpos = None if S.cb is not None else S.pos
        rid = S.byte()
        facts["records"].append((fpos, rid))
        kind = KIND_OF.get(rid)
        if kind:
            if kind not in facts["table_first"]:
                facts["table_first"][kind] = fpos
            if kind in closed_tables:
                facts["table_contiguous"][kind] = False
        if rid not in (0, 28, 29, 34) and last_kind and last_kind != kind:
            closed_tables.add(last_kind)
        if rid not in (0, 28, 29, 34):
            last_kind = kind
        if rid == 0:
            facts["pads"] += 1
        elif rid == 1:
            raise OasisError("second START record")
        elif rid == 2:
            if S.cb is not None:
                raise OasisError("END inside a CBLOCK")
            end_pos = fpos
            break
        elif rid in (3, 4):
            name_record("cellname", rid, 3)
        elif rid in (5, 6):
            name_record("textstring", rid, 5)
        elif rid in (7, 8):
            name_record("propname", rid, 7)
        elif rid in (9, 10):
            name_record("propstring", rid, 9)
        elif rid in (11, 12):
            S.string("n")
            for _ in range(2):
                t = S.uint()
                if t > 4:
                    raise OasisError("interval type")
                for _ in range({0: 0, 1: 1, 2: 1, 3: 1, 4: 2}[t]):
                    S.uint()
            cur_cell[0] = None
            modal.clear()
            prop_target[0] = []
        elif rid in (13, 14):
            c = {"name": None, "props": [], "name_props": [], "elements": []}
            if rid == 13:
                num = S.uint()
                cells_by_ref.append((c, num))
            else:
                c["name"] = S.string("n")
                facts["inline_names"]["cellname"] += 1
            c["_pos"] = fpos
            layout["cells"].append(c)
            cur_cell[0] = c
            prop_target[0] = c["props"]
            reset_cell()
        elif rid == 15:
            need_cell("XYABSOLUTE")
            rel[0] = False
        elif rid == 16:
            need_cell("XYRELATIVE")
            rel[0] = True
        elif rid in (17, 18):
            info = S.byte()
            if info & 0x80:
                if info & 0x40:
                    modal["placement_cell"] = ("ref", S.uint())
                else:
                    modal["placement_cell"] = ("name", S.string("n"))
                    facts["inline_names"]["cellname"] += 1
            elif info & 0x40:
                raise OasisError("PLACEMENT: N set without C")
            cell = mget("placement_cell")
            el = {"kind": "placement", "rec": rid, "flip": bool(info & 1), "cell": cell}
            if rid == 17:
                el["angle"] = {0: 0, 2: 90, 4: 180, 6: 270}[info & 6]
            else:
                el["mag"] = S.real() if info & 4 else None
                el["angle"] = S.real() if info & 2 else None
                if el["mag"] is not None and real_fraction(el["mag"]) <= 0:
                    raise OasisError("non-positive magnification")
            el["x"], el["y"] = getxy(info, 0x20, 0x10, "placement")
            el["rep"] = getrep(info, 0x08)
            add(el)
            if cell[0] == "ref":
                pending.append((el, "cell", "cellname", cell[1]))
            else:
                el["cell"] = cell[1]
        elif rid == 19:
            info = S.byte()
            if info & 0x80:
                raise OasisError("TEXT: reserved bit set")
            if info & 0x40:
                if info & 0x20:
                    modal["text_string"] = ("ref", S.uint())
                else:
                    modal["text_string"] = ("str", S.string("a"))
                    facts["inline_names"]["textstring"] += 1
            elif info & 0x20:
                raise OasisError("TEXT: N set without C")
            t = mget("text_string")
            if info & 1:
                modal["textlayer"] = S.uint()
            if info & 2:
                modal["texttype"] = S.uint()
            el = {"kind": "text", "textlayer": mget("textlayer"), "texttype": mget("texttype"), "text": t}
            el["x"], el["y"] = getxy(info, 0x10, 0x08, "text")
            el["rep"] = getrep(info, 0x04)
            add(el)
            if t[0] == "ref":
                pending.append((el, "text", "textstring", t[1]))
            else:
                el["text"] = t[1]
        elif rid == 20:
            info = S.byte()
            layer, dt = ld(info)
            if info & 0x40:
                modal["geometry_w"] = S.uint()
            if info & 0x80:
                if info & 0x20:
                    raise OasisError("RECTANGLE: S and H both set")
                modal["geometry_h"] = mget("geometry_w")
            elif info & 0x20:
                modal["geometry_h"] = S.uint()
            el = {"kind": "rectangle", "layer": layer, "datatype": dt, "w": mget("geometry_w"), "h": mget("geometry_h"), "square": bool(info & 0x80)}
            el["x"], el["y"] = getxy(info, 0x10, 0x08, "geometry")
            el["rep"] = getrep(info, 0x04)
            add(el)
        elif rid == 21:
            info = S.byte()
            if info & 0xC0:
                raise OasisError("POLYGON: reserved bits set")
            layer, dt = ld(info)
            if info & 0x20:
                modal["polygon_points"] = S.point_list(True)
            pt, pts = mget("polygon_points")
            el = {"kind": "polygon", "layer": layer, "datatype": dt, "ptype": pt, "pts": list(pts)}
            el["x"], el["y"] = getxy(info, 0x10, 0x08, "geometry")
            el["rep"] = getrep(info, 0x04)
            facts["polygon_max_vertices"] = max(facts["polygon_max_vertices"], len(pts))
            add(el)
        elif rid == 22:
            info = S.byte()
            layer, dt = ld(info)
            if info & 0x40:
                modal["path_halfwidth"] = S.uint()
            hw = mget("path_halfwidth")
            repr_ = (0, 0)
            if info & 0x80:
                sch = S.byte()
                if sch & 0xF0:
                    raise OasisError("PATH: reserved extension-scheme bits set")
                ss, ee = (sch >> 2) & 3, sch & 3
                repr_ = (ss, ee)
                for code, var in ((ss, "path_ext_s"), (ee, "path_ext_e")):
                    if code == 1:
                        modal[var] = 0
                    elif code == 2:
                        modal[var] = hw
                    elif code == 3:
                        modal[var] = S.sint()
            ext = (mget("path_ext_s"), mget("path_ext_e"))
            if info & 0x20:
                modal["path_points"] = S.point_list(False)
            pt, pts = mget("path_points")
            el = {"kind": "path", "layer": layer, "datatype": dt, "hw": hw, "ext": ext, "ext_repr": repr_, "ptype": pt, "pts": list(pts)}
            el["x"], el["y"] = getxy(info, 0x10, 0x08, "geometry")
            el["rep"] = getrep(info, 0x04)
            facts["path_max_vertices"] = max(facts["path_max_vertices"], len(pts))
            add(el)
        elif rid in (23, 24, 25):
            info = S.byte()
            layer, dt = ld(info)
            if info & 0x40:
                modal["geometry_w"] = S.uint()
            if info & 0x20:
                modal["geometry_h"] = S.uint()
            da = S.sint() if rid in (23, 24) else 0
            db = S.sint() if rid in (23, 25) else 0
            el = {"kind": "trapezoid", "rec": rid, "layer": layer, "datatype": dt, "vertical": bool(info & 0x80),
                  "w": mget("geometry_w"), "h": mget("geometry_h"), "da": da, "db": db}
            el["x"], el["y"] = getxy(info, 0x10, 0x08, "geometry")
            el["rep"] = getrep(info, 0x04)
            add(el)
        elif rid == 26:
            info = S.byte()
            layer, dt = ld(info)
            if info & 0x80:
                modal["ctrapezoid_type"] = S.uint()
            t = mget("ctrapezoid_type")
            if t > 25:
                raise OasisError("ctrapezoid type %d" % t)
            if info & 0x40:
                modal["geometry_w"] = S.uint()
            if info & 0x20:
                modal["geometry_h"] = S.uint()
            uw, uh = ctrapezoid_uses(t)
            w = mget("geometry_w") if uw else None
            h = mget("geometry_h") if uh else None
            # A.2 does not say what the unused dimension's modal variable holds afterwards: never rely on it
            if not uw:
                modal.pop("geometry_w", None)
            if not uh:
                modal.pop("geometry_h", None)
            ew, eh = ctrapezoid_extent(t, w, h)
            if not ctrapezoid_valid(t, w if uw else ew, h if uh else eh):
                raise OasisError("ctrapezoid type %d with inconsistent w/h" % t)
            el = {"kind": "ctrapezoid", "layer": layer, "datatype": dt, "ctype": t, "w": w if uw else ew, "h": h if uh else eh}
            el["x"], el["y"] = getxy(info, 0x10, 0x08, "geometry")
            el["rep"] = getrep(info, 0x04)
            add(el)
        elif rid == 27:
            info = S.byte()
            if info & 0xC0:
                raise OasisError("CIRCLE: reserved bits set")
            layer, dt = ld(info)
            if info & 0x20:
                modal["circle_radius"] = S.uint()
            el = {"kind": "circle", "layer": layer, "datatype": dt, "r": mget("circle_radius")}
            el["x"], el["y"] = getxy(info, 0x10, 0x08, "geometry")
            el["rep"] = getrep(info, 0x04)
            add(el)
        elif rid in (28, 29):
            if rid == 29:
                name, vals, std = mget("prop_name"), mget("prop_values"), mget("prop_std")
            else:
                info = S.byte()
                std = bool(info & 1)
                if info & 0x04:
                    if info & 0x02:
                        modal["prop_name"] = ("ref", S.uint())
                    else:
                        modal["prop_name"] = ("name", S.string("n"))
                        facts["inline_names"]["propname"] += 1
                elif info & 0x02:
                    raise OasisError("PROPERTY: N set without C")
                name = mget("prop_name")
                if info & 0x08:
                    if info & 0xF0:
                        raise OasisError("PROPERTY: V set with non-zero UUUU")
                    vals = mget("prop_values")
                else:
                    n = info >> 4
                    if n == 15:
                        n = S.uint()
                    vals = []
                    for _ in range(n):
                        t = S.uint()
                        if t <= 7:
                            vals.append(("real", S.real(t)))
                        elif t == 8:
                            vals.append(("uint", S.uint()))
                        elif t == 9:
                            vals.append(("sint", S.sint()))
                        elif t in (10, 11, 12):
                            k = "abn"[t - 10]
                            vals.append((k, S.string(k)))
                            facts["inline_names"]["propstring"] += 1
                        elif t in (13, 14, 15):
                            vals.append(("ref" + "abn"[t - 13], S.uint()))
                        else:
                            raise OasisError("property value type %d" % t)
                    modal["prop_values"] = vals
                modal["prop_std"] = std
            p = {"name": name, "values": list(vals), "std": std}
            prop_target[0].append(p)
            if name[0] == "ref":
                pending.append((p, "name", "propname", name[1]))
            else:
                p["name"] = name[1]
            for i, v in enumerate(p["values"]):
                if v[0].startswith("ref"):
                    pending.append((p, ("value", i, v[0][3]), "propstring", v[1]))
        elif rid in (30, 31):
            S.uint()
            S.string("b")
            if rid == 31:
                S.uint()
            facts["xrecords"] += 1
            cur_cell[0] = None
            modal.clear()
            prop_target[0] = []
        elif rid == 32:
            S.uint()
            S.string("b")
            facts["xrecords"] += 1
            prop_target[0] = []
        elif rid == 33:
            info = S.byte()
            S.uint()
            ld(info)
            S.string("b")
            getxy(info, 0x10, 0x08, "geometry")
            getrep(info, 0x04)
            facts["xrecords"] += 1
            prop_target[0] = []
        elif rid == 34:
            if S.cb is not None:
                raise OasisError("nested CBLOCK")
            if S.uint() != 0:
                raise OasisError("CBLOCK compression type")
            usize, csize = S.uint(), S.uint()
            comp = S.take(csize)
            d = zlib.decompressobj(-15)
            try:
                raw = d.decompress(comp) + d.flush()
            except zlib.error as e:
                raise OasisError("CBLOCK does not inflate: %s" % e)
            if not d.eof or d.unused_data:
                raise OasisError("CBLOCK deflate stream does not end exactly at comp-byte-count")
            if len(raw) != usize:
                raise OasisError("CBLOCK uncomp-byte-count %d != %d" % (usize, len(raw)))
            facts["cblocks"] += 1
            if raw:
                S.cb, S.cbpos = raw, 0
        else:
            raise OasisError("record id %d" % rid)

    # ---- END record
    facts["max_string_before_end"] = S.max_string
    if oflag == 1:
        toffs = [(S.uint(), S.uint()) for _ in range(6)]
    for fl, off in toffs:
        if fl not in (0, 1):
            raise OasisError("table strict flag not 0/1")
    S.string("b")
    scheme = S.uint()
    if scheme not in (0, 1, 2):
        raise OasisError("validation scheme %d" % scheme)
    covered = data[:S.pos]
    stored = computed = None
    if scheme:
        stored = struct.unpack("<I", S.take(4))[0]
        computed = (zlib.crc32(covered) & 0xFFFFFFFF) if scheme == 1 else (sum(covered) & 0xFFFFFFFF)
        if strict and stored != computed:
            raise OasisError("signature mismatch: stored %08x computed %08x" % (stored, computed))
    if S.pos != len(data):
        raise OasisError("%d bytes after the END record" % (len(data) - S.pos))
    if S.pos - end_pos != 256:
        raise OasisError("END record is %d bytes, not 256" % (S.pos - end_pos))

    # ---- resolve references
    for c, num in cells_by_ref:
        if num not in tables["cellname"]:
            raise OasisError("CELL reference number %d has no CELLNAME" % num)
        c["name"] = tables["cellname"][num]
        c["name_props"] = table_props["cellname"][num]
    for c in layout["cells"]:
        if not c["name_props"]:
            for num, nm in tables["cellname"].items():
                if nm == c["name"]:
                    c["name_props"] = table_props["cellname"][num]
    for obj, field, kind, num in pending:
        if num not in tables[kind]:
            raise OasisError("%s reference number %d undefined" % (kind, num))
        s = tables[kind][num]
        if field == "cell" or field == "text" or field == "name":
            obj[field] = s
        else:
            _, i, k = field
            if k == "a" and any(ch < 0x20 or ch > 0x7E for ch in s):
                raise OasisError("a-string reference to a non-printable PROPSTRING")
            if k == "n" and (not s or any(ch < 0x21 or ch > 0x7E for ch in s)):
                raise OasisError("n-string reference to an invalid PROPSTRING")
            obj["values"][i] = (k, s)
    names = [c["name"] for c in layout["cells"]]
    if len(set(names)) != len(names):
        raise OasisError("duplicate cell")
    for c in layout["cells"]:
        facts["cell_pos"][c["name"]] = c.pop("_pos")
    facts.update(end_pos=end_pos, table_offsets=toffs, validation=(scheme, stored, computed), max_uint=S.max_uint,
                 max_sint=S.max_sint, max_string=S.max_string, nonminimal_integers=S.nonminimal,
                 tables={k: dict(v) for k, v in tables.items()}, table_props=table_props)
    return layout, facts


# ============================================================================ canonical form / self-test
def canon_props(pl):
    out = []
    for p in pl:
        vals = []
        for v in p["values"]:
            if v[0] == "real":
                vals.append(("real", real_fraction(v[1])))
            else:
                vals.append((v[0], v[1]))
        out.append((p["name"], tuple(vals), bool(p.get("std"))))
    return out


def canon_layout(layout):
    """Canonical comparable form of a layout (hints such as ptype/square/ext_repr dropped)."""
    cells = []
    for c in layout["cells"]:
        els = []
        for e in c["elements"]:
            d = denote(e)
            d["props"] = canon_props(d["props"])
            els.append(sorted(d.items()))
        cells.append((c["name"], canon_props(c.get("props", [])), canon_props(c.get("name_props", [])), els))
    return (real_fraction(layout["unit"]), canon_props(layout.get("props", [])), cells)


def selftest_layouts():
    """A small alphabet exercising every record kind, repetition type, point-list type and value type."""
    reps = [None, (1, 2, 3, 5, 7), (2, 3, 4), (3, 2, 9), (4, [3, 5]), (5, 2, [1, 4]), (6, [2, 2, 2]), (7, 3, [1]),
            (8, 2, 2, (3, 1), (-2, 5)), (9, 4, (-3, -3)), (10, [(1, 2), (-5, 0)]), (11, 4, [(0, 1), (2, -3)])]
    P = lambda n, vals, std=False: {"name": n, "values": vals, "std": std}
    allvals = [("real", (0, 5)), ("real", (1, 7)), ("real", (2, 4)), ("real", (3, 8)), ("real", (4, 3, 7)), ("real", (5, 2, 9)),
               ("real", (6, 0.5)), ("real", (7, 0.1)), ("uint", 300), ("sint", -70), ("a", b"a b"), ("b", b"\x00\xff"), ("n", b"nm")]
    polys = [(0, [(0, 0), (4, 0), (4, 3), (0, 3)]), (1, [(0, 0), (0, 3), (4, 3), (4, 0)]), (2, [(0, 0), (4, 0), (4, 3), (0, 3), (0, 1)]),
             (3, [(0, 0), (3, 3), (3, 6), (0, 6)]), (4, [(0, 0), (5, 1), (2, 7)]), (5, [(0, 0), (5, 1), (7, 4), (2, 7)])]
    els = []
    g = dict(layer=1, datatype=2, x=10, y=-20)
    els.append(dict(g, kind="rectangle", w=5, h=7, square=False))
    els.append(dict(g, kind="rectangle", w=5, h=5, square=True))
    for pt, pts in polys:
        els.append(dict(g, kind="polygon", ptype=pt, pts=pts))
    for pt, pts in polys:
        for ss in (1, 2, 3):
            for ee in (1, 2, 3):
                hw = 2
                ext = ({1: 0, 2: hw, 3: -1}[ss], {1: 0, 2: hw, 3: 4}[ee])
                els.append(dict(g, kind="path", hw=hw, ext=ext, ext_repr=(ss, ee), ptype=pt, pts=pts))
    for rec in (23, 24, 25):
        for vert in (False, True):
            for da in ((-2, 0, 2) if rec != 25 else (0,)):
                for db in ((-1, 0, 1) if rec != 24 else (0,)):
                    els.append(dict(g, kind="trapezoid", rec=rec, vertical=vert, w=9, h=8, da=da, db=db))
    for t in range(26):
        w, h = (12, 5) if t < 8 or t >= 16 else (5, 12)
        ew, eh = ctrapezoid_extent(t, w, h)
        els.append(dict(g, kind="ctrapezoid", ctype=t, w=ew, h=eh))
    els.append(dict(g, kind="circle", r=6))
    els.append(dict(kind="text", text=b"hello world", textlayer=3, texttype=4, x=1, y=2))
    for ang in (0, 90, 180, 270):
        for fl in (False, True):
            els.append(dict(kind="placement", cell=b"LEAF", rec=17, angle=ang, flip=fl, x=3, y=-4))
    for mag in (None, (0, 2), (2, 2), (4, 3, 2), (6, 1.5), (7, 2.5)):
        for ang in (None, (0, 90), (1, 90), (3, 2), (5, 45, 2), (6, 22.5), (7, 33.3)):
            els.append(dict(kind="placement", cell=b"LEAF", rec=18, mag=mag, angle=ang, flip=False, x=0, y=0))
    out = []
    for i, e in enumerate(els):
        e = dict(e)
        e["rep"] = reps[i % len(reps)]
        e["props"] = [P(b"pn%d" % (i % 3), allvals[i % len(allvals):][:2])] if i % 2 else []
        out.append(e)
    return out


def _selftest():
    import itertools
    n = 0
    # --- primitives
    for v in [0, 1, 127, 128, 16383, 16384, 2**31, 2**63 - 1, 2**64 - 1]:
        s = _Stream(enc_uint(v))
        assert s.uint() == v and s.pos == len(s.data)
    for v in [0, 1, -1, 63, -64, 64, 8191, -8192, 2**40, -(2**62)]:
        s = _Stream(enc_sint(v))
        assert s.sint() == v
    for dx, dy in itertools.product((-130, -3, 0, 3, 130), repeat=2):
        for form in (1, 2):
            if form == 1 and not is_octangular(dx, dy):
                continue
            s = _Stream(enc_gdelta(dx, dy, form))
            assert s.gdelta() == (dx, dy) and s.pos == len(s.data)
        if is_octangular(dx, dy):
            assert _Stream(enc_3delta(dx, dy)).delta3() == (dx, dy)
        if dx == 0 or dy == 0:
            assert _Stream(enc_2delta(dx, dy)).delta2() == (dx, dy)
    for r in [(0, 5), (1, 5), (2, 5), (3, 5), (4, 5, 3), (5, 5, 3), (6, 0.25), (7, 0.1)]:
        assert _Stream(enc_real(r)).real() == r
    # spot values written down by hand from A.2 (not produced by this codec)
    assert enc_uint(300) == bytes([0xAC, 0x02]) and enc_sint(-5) == bytes([0x0B]) and enc_sint(5) == bytes([0x0A])
    assert enc_2delta(-3, 0) == bytes([(3 << 2) | 2]) and enc_3delta(-2, -2) == bytes([(2 << 3) | 6])
    assert enc_gdelta(0, -4, 1) == bytes([(4 << 4) | (3 << 1)]) and enc_gdelta(-3, 5, 2) == bytes([(3 << 2) | 3, 10])
    # --- CTRAPEZOID table sanity (structural facts, independent of any implementation)
    for t in range(26):
        for (w, h) in ((12, 5), (5, 12), (10, 5), (5, 10), (7, 7)):
            ew, eh = ctrapezoid_extent(t, w, h)
            uw, uh = ctrapezoid_uses(t)
            W, H = (w if uw else ew), (h if uh else eh)
            if t < 16 and not ctrapezoid_valid(t, W, H):
                continue
            v = ctrapezoid_vertices(t, W, H)
            assert len(v) == (3 if 16 <= t <= 23 else 4)
            xs, ys = [p[0] for p in v], [p[1] for p in v]
            assert min(xs) == 0 and min(ys) == 0 and (max(xs), max(ys)) == ctrapezoid_extent(t, W, H), (t, v)
            area2 = 0
            for i in range(len(v)):
                (x0, y0), (x1, y1) = v[i], v[(i + 1) % len(v)]
                dx, dy = x1 - x0, y1 - y0
                assert (dx, dy) == (0, 0) or is_octangular(dx, dy), ("edge not at a multiple of 45 degrees", t, v)
                area2 += x0 * y1 - x1 * y0
            assert area2 != 0 or W == 0 or H == 0 or (t < 16 and (W == H or W == 2 * H or H == 2 * W)), (t, v)
            ndiag = sum(1 for i in range(len(v)) if abs(v[i][0] - v[(i + 1) % len(v)][0]) == abs(v[i][1] - v[(i + 1) % len(v)][1]) != 0)
            want = 0 if t in (24, 25) else (1 if t in (0, 1, 2, 3, 8, 9, 10, 11) else (2 if t < 16 else (1 if t < 20 else 2)))
            assert ndiag == want or W in (H, 2 * H) or H == 2 * W, (t, v, ndiag)
            n += 1
    # all 26 shapes are pairwise distinct for generic w,h
    seen = {}
    for t in range(26):
        w, h = (12, 5) if t < 8 or t >= 16 else (5, 12)
        ew, eh = ctrapezoid_extent(t, w, h)
        key = tuple(sorted(ctrapezoid_vertices(t, ew if t >= 16 else w, eh if t >= 16 else h)))
        assert key not in seen or {t, seen[key]} == {24, 25}, (t, seen.get(key))
        seen[key] = t
    # trapezoid: delta-a = P-R and delta-b = Q-S on the two parallel sides, parallel sides on the bounding box;
    # vertical = horizontal transposed and reflected (the top side of the horizontal form maps to the left side)
    for da, db in itertools.product((-2, 0, 3), repeat=2):
        hv = trapezoid_vertices(False, 9, 7, da, db)
        vv = trapezoid_vertices(True, 7, 9, da, db)
        assert sorted((7 - y, x) for x, y in hv) == sorted(vv), (da, db)
        assert hv[0][0] - hv[3][0] == da and hv[1][0] - hv[2][0] == db and {p[1] for p in hv} == {0, 7}
        assert vv[0][1] - vv[3][1] == da and vv[1][1] - vv[2][1] == db and {p[0] for p in vv} == {0, 7}
        assert min(p[0] for p in hv) == 0 and max(p[0] for p in hv) == 9
    # --- encode -> strict decode identity over the alphabet and the serialisation choices
    els = selftest_layouts()
    P = lambda nm, vals, std=False: {"name": nm, "values": vals, "std": std}
    variants = []
    for xymode in ("abs", "rel", "rel_after1", "abs_after1"):
        for imp in ("none", "all"):
            variants.append(dict(xymode=xymode, implicit=imp))
    for cb in ("one", ("split", 1), ("split", 2), "cell"):
        variants.append(dict(cblock=cb, implicit="all"))
        variants.append(dict(cblock=cb, cb_level=0))
    for tb, nb, by in itertools.product(("before", "after"), ("implicit", "explicit"), (0, 1)):
        for strict, oin in ((0, "end"), (1, "start"), (2, "end"), (2, "start")):
            variants.append(dict(tables=tb, numbering=nb, cell_by="ref" if by else "name", plc_by="ref", text_by="ref" if by else "str",
                                 pname_by="ref", pstr_by="ref" if by else "inline", strict=strict, offsets_in=oin, implicit="all", rec29=bool(by)))
    for pad in (1, 2, 4, 8, 16, 31):
        variants.append(dict(pad=pad, implicit="all", text_by="ref", cb_tables=pad == 31))
    for val in (1, 2):
        variants.append(dict(validation=val, cblock="one"))
    units = [(0, 1000), (2, 2), (4, 2000, 3), (6, 1000.0), (7, 1e3)]
    for i in range(0, len(els) - 2):
        trip = [dict(els[i]), dict(els[i + 1]), dict(els[i]), dict(els[i + 2])]
        layout = {"unit": units[i % len(units)], "props": [P(b"fileprop", [("uint", i)]), P(b"fileprop", [("uint", i)])],
                  "cells": [{"name": b"TOP", "props": [P(b"cp", [("a", b"x y")])], "name_props": [], "elements": trip},
                            {"name": b"LEAF", "props": [], "name_props": [], "elements": [dict(els[(i * 7) % len(els)]), dict(els[(i * 7) % len(els)])]}]}
        want = canon_layout(layout)
        for ch in variants[i % 3::3] if i > 8 else variants:
            data, info = encode_layout(layout, ch)
            try:
                got, facts = decode(data)
            except OasisError as e:
                raise AssertionError("strict decoder rejects own encoding: %s choices=%r hex=%s" % (e, ch, data.hex()))
            assert canon_layout(got) == want, (ch, data.hex())
            assert facts["end_pos"] == len(data) - 256 == info["end_pos"]
            assert facts["table_offsets"] == info["table_offsets"]
            for kind, (fl, off) in zip(TABLE_KINDS, facts["table_offsets"]):
                if off:
                    assert facts["table_first"].get(kind) == off, (kind, facts["table_first"], off)
                if fl:
                    assert facts["table_contiguous"][kind] and facts["inline_names"][kind] == 0
            for nm, pos in info["cell_pos"].items():
                assert facts["cell_pos"][nm] == pos
            if ch.get("implicit") == "all":
                assert info["taken"], "nothing implicit in a layout with repeated elements"
            n += 1
    # name_props and modal reuse counts
    layout = {"unit": (0, 1000), "props": [], "cells": [{"name": b"A", "props": [], "name_props": [P(b"S_CELL_OFFSET", [("uint", 5)], True)],
                                                             "elements": [dict(els[0]), dict(els[0])]}]}
    for ch in (dict(), dict(cell_by="ref", tables="before"), dict(cell_by="ref", tables="after", numbering="explicit")):
        data, info = encode_layout(layout, ch)
        got, facts = decode(data)
        assert canon_layout(got) == canon_layout(layout)
        n += 1
    data, info = encode_layout(layout, dict(implicit="all"))
    assert set(k.split(".", 2)[2] for k in info["taken"] if k.startswith("0.1.")) >= {"layer", "datatype", "w", "h", "x", "y"}
    # strictness: corrupted files must be rejected
    good, _ = encode_layout(layout, dict(validation=1))
    bad = bytearray(good)
    bad[20] ^= 1
    for blob, why in ((bytes(bad), "signature"), (good[:-1], "size"), (good + b"\0", "size")):
        try:
            decode(blob)
        except OasisError:
            pass
        else:
            raise AssertionError("strict decoder accepted a corrupted file (%s)" % why)
    print("oas_codec selftest OK: %d checks" % n)


if __name__ == "__main__":
    if "--selftest" in sys.argv:
        _selftest()
    else:
        print(__doc__)
