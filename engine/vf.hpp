// vf.hpp — shared machinery of the bounded-exhaustive checks (see DESIGN.md section 1.2).
//
//  * Run            : result channel (JSONL, one write(2) per record, O_APPEND so forked workers
//                     can share it), counters, samples, distinct-outcome set, deadline.
//  * parallel_for   : engine E2 — exhaustive enumeration of an index space sharded over forked
//                     workers; a worker crash / sanitizer report / watchdog expiry becomes a
//                     violation *of that index* and the worker is restarted behind it.
//  * bfs            : engine E1 — breadth-first search over operation histories; a state is the
//                     history that reaches it, replayed on a fresh real object; de-duplication on
//                     a canonical string chosen by the harness; each level is expanded through
//                     parallel_for so that a crash is attributed to one (history, op).
//
// Nothing here knows about gdstk.
#pragma once
#include <errno.h>
#include <fcntl.h>
#include <signal.h>
#include <stdarg.h>
#include <stdint.h>
#include <stdio.h>
#include <stdlib.h>
#include <string.h>
#include <sys/mman.h>
#include <sys/prctl.h>
#include <sys/stat.h>
#include <sys/types.h>
#include <sys/wait.h>
#include <time.h>
#include <unistd.h>

#include <algorithm>
#include <functional>
#include <map>
#include <set>
#include <string>
#include <unordered_set>
#include <utility>
#include <vector>

namespace vf {

inline double now() {
    struct timespec ts;
    clock_gettime(CLOCK_MONOTONIC, &ts);
    return ts.tv_sec + 1e-9 * ts.tv_nsec;
}

// ---------------------------------------------------------------- JSON (write-only) helpers
inline std::string jstr(const std::string& s) {
    std::string o = "\"";
    for (unsigned char c : s) {
        switch (c) {
            case '"': o += "\\\""; break;
            case '\\': o += "\\\\"; break;
            case '\n': o += "\\n"; break;
            case '\r': o += "\\r"; break;
            case '\t': o += "\\t"; break;
            default:
                if (c < 0x20 || c >= 0x7f) {
                    char b[8];
                    snprintf(b, sizeof b, "\\u%04x", c);
                    o += b;
                } else
                    o += (char)c;
        }
    }
    return o + "\"";
}
inline std::string jnum(double v) {
    char b[40];
    if (v != v) return "\"nan\"";
    if (v > 1.7e308) return "\"inf\"";
    if (v < -1.7e308) return "\"-inf\"";
    if (v == (double)(int64_t)v && v > -1e15 && v < 1e15)
        snprintf(b, sizeof b, "%lld", (long long)v);
    else
        snprintf(b, sizeof b, "%.17g", v);
    return b;
}
inline std::string jint(int64_t v) { return std::to_string(v); }
inline std::string juint(uint64_t v) { return std::to_string(v); }
inline std::string jbool(bool b) { return b ? "true" : "false"; }
inline std::string jarr(const std::vector<std::string>& items) {
    std::string o = "[";
    for (size_t i = 0; i < items.size(); i++) {
        if (i) o += ",";
        o += items[i];
    }
    return o + "]";
}
typedef std::vector<std::pair<std::string, std::string>> JFields;
inline std::string jobj(const JFields& f) {
    std::string o = "{";
    for (size_t i = 0; i < f.size(); i++) {
        if (i) o += ",";
        o += jstr(f[i].first) + ":" + f[i].second;
    }
    return o + "}";
}
inline std::string fmt(const char* f, ...) {
    char b[2048];
    va_list ap;
    va_start(ap, f);
    vsnprintf(b, sizeof b, f, ap);
    va_end(ap);
    return b;
}
template <class T>
inline std::string jnums(const std::vector<T>& v) {
    std::vector<std::string> s;
    for (auto& x : v) s.push_back(jnum((double)x));
    return jarr(s);
}

// 128-bit-ish hash of a canonical string (two independent FNV-style 64-bit hashes).
inline std::string hash128(const std::string& s) {
    uint64_t a = 0xcbf29ce484222325ull, b = 0x9e3779b97f4a7c15ull;
    for (unsigned char c : s) {
        a = (a ^ c) * 0x100000001b3ull;
        b = (b + c) * 0xff51afd7ed558ccdull;
        b ^= b >> 29;
    }
    char o[40];
    snprintf(o, sizeof o, "%016llx%016llx", (unsigned long long)a, (unsigned long long)b);
    return o;
}

// ---------------------------------------------------------------- Run
struct Run {
    std::string prop, tier = "quick", out_path, replay_args, scratch;
    int fd = -1;
    double t0 = now(), deadline_s = 100;
    long seed = 0;
    int workers = 16;
    bool deadline_was_hit = false;
    std::map<std::string, int64_t> counters;       // deltas not yet flushed
    std::map<std::string, int> viol_emitted;       // per class, this process
    std::map<std::string, int> samples_emitted;    // per sub-check, this process
    std::unordered_set<std::string> outcomes_sent; // this process
    double last_flush = now();
    int max_viol_per_class = 3, max_samples_per_sub = 3;

    Run(const char* property, int argc, char** argv) : prop(property) {
        for (int i = 1; i < argc; i++) {
            std::string a = argv[i];
            if (a == "--tier" && i + 1 < argc) tier = argv[++i];
            else if (a == "--out" && i + 1 < argc) out_path = argv[++i];
            else if (a == "--replay-args" && i + 1 < argc) replay_args = argv[++i];
            else if (a == "--scratch" && i + 1 < argc) scratch = argv[++i];
        }
        const char* e;
        if ((e = getenv("VERIF_SEED"))) seed = atol(e);
        if ((e = getenv("VERIF_WORKERS"))) workers = atoi(e);
        if (workers < 1) workers = 1;
        deadline_s = thorough() ? 3000 : 300;
        if ((e = getenv("VERIF_DEADLINE_S"))) deadline_s = atof(e);
        if (out_path.empty()) out_path = "/dev/stdout";
        fd = open(out_path.c_str(), O_WRONLY | O_CREAT | O_APPEND, 0644);
        if (fd < 0) { perror("open out"); exit(2); }
        if (scratch.empty()) scratch = "/verif/build/scratch/" + prop + "." + std::to_string(getpid());
        mkdir("/verif/build", 0755);
        mkdir("/verif/build/scratch", 0755);
        mkdir(scratch.c_str(), 0755);
    }
    bool thorough() const { return tier == "thorough"; }
    bool replaying() const { return !replay_args.empty(); }
    double elapsed() const { return now() - t0; }
    double time_left() const { return deadline_s - elapsed(); }
    bool out_of_time() {
        if (time_left() <= 0) { deadline_was_hit = true; return true; }
        return false;
    }
    // value of key in "--replay-args 'k=v k2=v2'" ("" if absent)
    std::string rarg(const std::string& key) const {
        size_t p = 0;
        while (p < replay_args.size()) {
            size_t e = replay_args.find(' ', p);
            if (e == std::string::npos) e = replay_args.size();
            std::string kv = replay_args.substr(p, e - p);
            size_t q = kv.find('=');
            if (q != std::string::npos && kv.substr(0, q) == key) return kv.substr(q + 1);
            p = e + 1;
        }
        return "";
    }
    void emit(const std::string& line) {
        std::string l = line + "\n";
        const char* p = l.data();
        size_t n = l.size();
        while (n) {
            ssize_t w = write(fd, p, n);
            if (w < 0) { if (errno == EINTR) continue; break; }
            p += w; n -= w;
        }
    }
    void count(const std::string& name, int64_t n = 1) { counters[name] += n; }
    void flush_counters() {
        if (counters.empty()) return;
        JFields f;
        for (auto& kv : counters) f.push_back({kv.first, jint(kv.second)});
        emit(jobj({{"type", jstr("counters")}, {"c", jobj(f)}}));
        counters.clear();
        last_flush = now();
    }
    void maybe_flush() { if (now() - last_flush > 0.5) flush_counters(); }
    // A violation: sub = sub-check id, cls = failure class within it (used to cap output and for
    // known-finding matching together with tags), replay = args that re-execute exactly this case.
    void violation(const std::string& sub, const std::string& cls, const JFields& tags,
                   const std::string& case_json, const std::string& detail,
                   const std::string& replay) {
        std::string key = sub + "/" + cls;
        count("violations_total");
        count("viol:" + key);
        // cap the output per (sub-check, class, tag values) so that one failure class cannot hide another
        if (viol_emitted[key + "/" + jobj(tags)]++ >= max_viol_per_class) return;
        if (viol_emitted["*total*"]++ >= 400) return;
        emit(jobj({{"type", jstr("violation")}, {"sub_check", jstr(sub)}, {"class", jstr(cls)},
                   {"tags", jobj(tags)}, {"case", case_json}, {"detail", jstr(detail)},
                   {"replay_args", jstr(replay)}}));
    }
    void sample(const std::string& sub, const std::string& case_json) {
        if (samples_emitted[sub]++ >= max_samples_per_sub) return;
        emit(jobj({{"type", jstr("sample")}, {"sub_check", jstr(sub)}, {"case", case_json}}));
    }
    // distinct observed outcomes (vacuity guard): the orchestrator unions them over workers
    void outcome(const std::string& sub, const std::string& what) {
        std::string k = sub + "|" + what;
        if (outcomes_sent.size() > 20000 || !outcomes_sent.insert(k).second) return;
        emit(jobj({{"type", jstr("outcome")}, {"sub_check", jstr(sub)}, {"h", jstr(hash128(what).substr(0, 16))}}));
    }
    // one line per completed (or capped) sub-search
    void bound(const std::string& sub, const std::string& bound_desc, bool complete, int64_t cases,
               const JFields& extra = {}) {
        JFields f = {{"type", jstr("bound")}, {"sub_check", jstr(sub)}, {"bound", jstr(bound_desc)},
                     {"complete", jbool(complete)}, {"cases", jint(cases)}};
        for (auto& e : extra) f.push_back(e);
        emit(jobj(f));
    }
    void note(const std::string& text) { emit(jobj({{"type", jstr("note")}, {"text", jstr(text)}})); }
    // harness-internal inconsistency (replay divergence etc.): not a violation, a broken check
    void internal_error(const std::string& text) {
        emit(jobj({{"type", jstr("internal_error")}, {"text", jstr(text)}}));
        fprintf(stderr, "INTERNAL ERROR: %s\n", text.c_str());
    }
    int finish() {
        flush_counters();
        emit(jobj({{"type", jstr("done")}, {"wall_s", jnum(elapsed())},
                   {"deadline_hit", jbool(deadline_was_hit)}}));
        std::string cmd = "rm -rf '" + scratch + "'";
        if (system(cmd.c_str())) {}
        return 0;
    }
};

// ---------------------------------------------------------------- E2: parallel_for
struct PFOptions {
    double case_timeout_s = 5;   // watchdog per case; re-run alone with 20x before a hang verdict
    std::string sub = "enum";    // sub-check id used for crash/hang violations
    bool isolate = true;         // fork workers (false: run in-process, for replay)
    // optional: describe / replay a crash using the sub-position the body marked with pf_mark()
    std::function<std::string(int64_t, int64_t)> describe_sub, replay_sub;
    std::function<JFields(int64_t, int64_t)> tags_sub;
};
struct PFSlot {
    volatile int64_t cur;        // index being executed (-1: none)
    volatile double started;     // when
    volatile int64_t done;       // cases completed by this worker (all incarnations)
    volatile int64_t stopped_at; // first index NOT processed because of the deadline (-1: none)
    volatile int64_t sub;        // optional finer position inside the case (set by the body through g_slot)
};
static PFSlot* g_slot = NULL;    // slot of the current worker (NULL outside parallel_for children)
inline void pf_mark(int64_t sub) { if (g_slot) g_slot->sub = sub; }

// body(i) executes case i (emitting violations itself); describe(i) renders the case for crash
// reports; replay_of(i) gives the replay args.  Returns true iff every index was executed.
inline bool parallel_for(Run& run, int64_t n, const std::function<void(int64_t)>& body,
                         const std::function<std::string(int64_t)>& describe,
                         const std::function<std::string(int64_t)>& replay_of,
                         PFOptions opt = PFOptions()) {
    if (n <= 0) return true;
    if (!opt.isolate) {
        for (int64_t i = 0; i < n; i++) {
            if (run.out_of_time()) return false;
            body(i);
        }
        return true;
    }
    int W = (int)std::min<int64_t>(run.workers, n);
    PFSlot* slots = (PFSlot*)mmap(NULL, sizeof(PFSlot) * W, PROT_READ | PROT_WRITE,
                                  MAP_SHARED | MAP_ANONYMOUS, -1, 0);
    std::vector<pid_t> pid(W, -1);
    std::vector<int64_t> next(W);
    std::vector<bool> finished(W, false);
    run.flush_counters();
    auto errfile = [&](int k) { return run.scratch + "/w" + std::to_string(k) + ".err"; };
    auto spawn = [&](int k, int64_t from, int64_t only, double limit_scale) {
        slots[k].cur = -1;
        slots[k].started = now();
        pid_t p = fork();
        if (p < 0) { perror("fork"); exit(2); }
        if (p == 0) {
            prctl(PR_SET_PDEATHSIG, SIGKILL);  // never outlive the harness (hard timeouts, crashes of the parent)
            g_slot = &slots[k];
            int efd = open(errfile(k).c_str(), O_WRONLY | O_CREAT | O_TRUNC, 0644);
            if (efd >= 0) { dup2(efd, 2); close(efd); }
            run.counters.clear();
            run.viol_emitted.clear();
            (void)limit_scale;
            for (int64_t i = from; i < n; i += W) {
                if (run.time_left() <= 0) { slots[k].stopped_at = i; break; }
                slots[k].started = now();
                slots[k].sub = -1;
                slots[k].cur = i;
                body(i);
                slots[k].cur = -1;
                slots[k].done++;
                run.maybe_flush();
                if (only >= 0) break;
            }
            run.flush_counters();
            fflush(NULL);
            _exit(0);
        }
        pid[k] = p;
    };
    auto read_err = [&](int k) {
        std::string s;
        FILE* f = fopen(errfile(k).c_str(), "r");
        if (f) {
            char buf[4096];
            size_t r;
            while ((r = fread(buf, 1, sizeof buf, f)) > 0 && s.size() < 200000) s.append(buf, r);
            fclose(f);
        }
        // keep the informative part: first ~1500 bytes of the sanitizer summary
        size_t p = s.find("ERROR: AddressSanitizer");
        if (p != std::string::npos) s = s.substr(p);
        if (s.size() > 1500) s.resize(1500);
        return s;
    };
    auto crash_class = [&](const std::string& err, int status) {
        if (err.find("AddressSanitizer") != std::string::npos) {
            size_t p = err.find("AddressSanitizer: ");
            if (p != std::string::npos) {
                size_t e = err.find_first_of(" \n", p + 18);
                return "asan:" + err.substr(p + 18, e - (p + 18));
            }
            return std::string("asan");
        }
        if (WIFSIGNALED(status)) return "signal:" + std::to_string(WTERMSIG(status));
        return "exit:" + std::to_string(WEXITSTATUS(status));
    };
    for (int k = 0; k < W; k++) {
        slots[k].done = 0;
        slots[k].stopped_at = -1;
        next[k] = k;
        spawn(k, k, -1, 1);
    }
    int live = W;
    bool complete = true;
    // per worker: is it currently re-running one index alone with the long limit?
    std::vector<int64_t> solo(W, -1);
    while (live > 0) {
        bool progressed = false;
        for (int k = 0; k < W; k++) {
            if (finished[k]) continue;
            int status = 0;
            pid_t r = waitpid(pid[k], &status, WNOHANG);
            if (r == pid[k]) {
                progressed = true;
                int64_t cur = slots[k].cur;
                bool ok = WIFEXITED(status) && WEXITSTATUS(status) == 0;
                if (ok && cur < 0) {
                    if (solo[k] >= 0) {  // slow case completed under the long limit: not a hang
                        run.count("slow_cases");
                        int64_t nx = solo[k] + W;
                        solo[k] = -1;
                        if (nx < n) { spawn(k, nx, -1, 1); continue; }
                    }
                    if (slots[k].stopped_at >= 0) complete = false;
                    finished[k] = true;
                    live--;
                    continue;
                }
                // abnormal end while executing index cur
                if (cur < 0) {
                    run.internal_error("worker died outside a case: " + read_err(k));
                    complete = false; finished[k] = true; live--; continue;
                }
                std::string err = read_err(k);
                std::string cls = crash_class(err, status);
                int64_t sp = slots[k].sub;
                JFields ctags = {{"crash", jstr(cls)}};
                if (sp >= 0 && opt.tags_sub) for (auto& t : opt.tags_sub(cur, sp)) ctags.push_back(t);
                run.violation(opt.sub, "crash:" + cls, ctags, (sp >= 0 && opt.describe_sub) ? opt.describe_sub(cur, sp) : describe(cur), err,
                              (sp >= 0 && opt.replay_sub) ? opt.replay_sub(cur, sp) : replay_of(cur));
                solo[k] = -1;
                if (cur + W < n) spawn(k, cur + W, -1, 1);
                else { finished[k] = true; live--; }
                continue;
            }
            // watchdog
            int64_t cur = slots[k].cur;
            double limit = opt.case_timeout_s * (solo[k] >= 0 ? 20 : 1);
            if (cur >= 0 && now() - slots[k].started > limit) {
                kill(pid[k], SIGKILL);
                waitpid(pid[k], &status, 0);
                progressed = true;
                if (solo[k] >= 0) {
                    run.violation(opt.sub, "hang", {{"crash", jstr("hang")}}, describe(cur),
                                  fmt("case did not finish within %.0f s when re-run alone", limit),
                                  replay_of(cur));
                    solo[k] = -1;
                    if (cur + W < n) spawn(k, cur + W, -1, 1);
                    else { finished[k] = true; live--; }
                } else {
                    solo[k] = cur;
                    spawn(k, cur, cur, 20);
                }
            }
        }
        if (!progressed) usleep(2000);
    }
    munmap(slots, sizeof(PFSlot) * W);
    if (!complete) run.deadline_was_hit = true;
    return complete;
}

// ---------------------------------------------------------------- E1: bfs over histories
// Sys must provide:
//   typedef ... Obj;                       real object(s) + reference model, owned by the harness
//   Obj* make();  void destroy(Obj*);      fresh initial state
//   int nops();                            size of the operation alphabet (ops are 0..nops-1)
//   bool apply(Obj&, int op, const std::vector<int>& hist_before, bool check);
//        -> false if op is not enabled in this state; when check is true it compares the real
//           call with the model and the invariants, emitting violations through Run itself and
//           setting Obj-specific "poisoned" state if exploration below must stop
//   bool poisoned(Obj&);                   a violation was found on this path: do not expand
//   std::string canon(Obj&);               canonical, future-determining state
//   std::string op_name(int op);
struct BfsResult {
    int64_t states = 0, transitions = 0, histories = 0;
    int depth_completed = 0;
    bool closed = false, complete = true;
};
inline std::string hist_str(const std::vector<int>& h) {
    std::string s;
    for (size_t i = 0; i < h.size(); i++) s += (i ? "," : "") + std::to_string(h[i]);
    return s;
}
inline std::vector<int> parse_hist(const std::string& s) {
    std::vector<int> h;
    size_t p = 0;
    while (p < s.size()) {
        size_t e = s.find(',', p);
        if (e == std::string::npos) e = s.size();
        if (e > p) h.push_back(atoi(s.substr(p, e - p).c_str()));
        p = e + 1;
    }
    return h;
}
template <class Sys>
std::string describe_hist(Sys& sys, const std::vector<int>& h) {
    std::vector<std::string> names;
    for (int op : h) names.push_back(jstr(sys.op_name(op)));
    return jarr(names);
}
template <class Sys>
void replay_hist(Run& run, Sys& sys, const std::string& sub, const std::vector<int>& h) {
    typename Sys::Obj* o = sys.make();
    std::vector<int> pre;
    for (int op : h) {
        bool en = sys.apply(*o, op, pre, true);
        fprintf(stderr, "  %s%s -> %s\n", sys.op_name(op).c_str(), en ? "" : " (not enabled)",
                sys.canon(*o).c_str());
        pre.push_back(op);
    }
    sys.destroy(o);
    (void)run; (void)sub;
}
// replay of "expand=<hist>": re-run the history with checks, then try every operation from there
template <class Sys>
void expand_inprocess(Run& run, Sys& sys, const std::vector<int>& h) {
    fprintf(stderr, "replaying history, then expanding every enabled operation in-process:\n");
    replay_hist(run, sys, "", h);
    for (int op = 0; op < sys.nops(); op++) {
        typename Sys::Obj* o = sys.make();
        std::vector<int> pre;
        for (int x : h) { sys.apply(*o, x, pre, false); pre.push_back(x); }
        fprintf(stderr, "  + %s\n", sys.op_name(op).c_str());
        bool en = sys.apply(*o, op, h, true);
        if (en) fprintf(stderr, "      -> %s%s\n", sys.canon(*o).c_str(), sys.poisoned(*o) ? "   ** VIOLATION **" : "");
        sys.destroy(o);
    }
}
template <class Sys>
BfsResult bfs(Run& run, Sys& sys, const std::string& sub, int max_depth, double case_timeout_s = 10) {
    BfsResult res;
    std::unordered_set<std::string> seen;
    struct Node { std::vector<int> hist; std::string key; };
    std::vector<Node> frontier;
    {
        typename Sys::Obj* o = sys.make();
        std::string k = hash128(sys.canon(*o));
        sys.destroy(o);
        seen.insert(k);
        frontier.push_back({{}, k});
        res.states = 1;
    }
    const int nops = sys.nops();
    for (int depth = 1; depth <= max_depth; depth++) {
        if (frontier.empty()) { res.closed = true; break; }
        if (run.out_of_time()) { res.complete = false; break; }
        std::string resfile = run.scratch + "/bfs." + sub + "." + std::to_string(depth);
        int rfd = open(resfile.c_str(), O_WRONLY | O_CREAT | O_TRUNC | O_APPEND, 0644);
        int64_t ncase = (int64_t)frontier.size();
        auto body = [&](int64_t i) {
            const Node& nd = frontier[i];
            std::string out;
            for (int op = 0; op < nops; op++) {
                pf_mark(op);
                typename Sys::Obj* o = sys.make();
                std::vector<int> pre;
                for (int h : nd.hist) { sys.apply(*o, h, pre, false); pre.push_back(h); }
                if (op == 0) {
                    std::string k = hash128(sys.canon(*o));
                    if (k != nd.key)
                        run.internal_error("replay divergence at history " + hist_str(nd.hist));
                }
                bool en = sys.apply(*o, op, nd.hist, true);
                if (en) {
                    run.count("bfs_transitions:" + sub);
                    bool bad = sys.poisoned(*o);
                    std::string c = sys.canon(*o);
                    run.outcome(sub, c);
                    out += fmt("%lld %d %d ", (long long)i, op, bad ? 1 : 0) + hash128(c) + "\n";
                }
                sys.destroy(o);
            }
            if (!out.empty()) { if (write(rfd, out.data(), out.size()) < 0) {} }
        };
        auto describe = [&](int64_t i) {
            return jobj({{"history", describe_hist(sys, frontier[i].hist)},
                         {"then", jstr("one of the enabled operations (crash while expanding this state)")}});
        };
        auto replay_of = [&](int64_t i) { return "sub=" + sub + " expand=" + hist_str(frontier[i].hist); };
        PFOptions opt;
        opt.sub = sub;
        opt.case_timeout_s = case_timeout_s;
        opt.describe_sub = [&](int64_t i, int64_t op) {
            std::vector<int> h = frontier[i].hist;
            h.push_back((int)op);
            return jobj({{"history", describe_hist(sys, h)}, {"note", jstr("crashed while executing the last operation (or while replaying the history before it)")}});
        };
        opt.replay_sub = [&](int64_t i, int64_t op) { std::vector<int> h = frontier[i].hist; h.push_back((int)op); return "sub=" + sub + " hist=" + hist_str(h); };
        opt.tags_sub = [&](int64_t, int64_t op) { return JFields{{"op", jstr(sys.op_name((int)op))}}; };
        bool ok = parallel_for(run, ncase, body, describe, replay_of, opt);
        close(rfd);
        // merge deterministically: order by (frontier index, op)
        struct Rec { int64_t i; int op; int bad; std::string key; };
        std::vector<Rec> recs;
        FILE* f = fopen(resfile.c_str(), "r");
        if (f) {
            long long i; int op, bad; char key[64];
            while (fscanf(f, "%lld %d %d %40s", &i, &op, &bad, key) == 4) recs.push_back({i, op, bad, key});
            fclose(f);
        }
        unlink(resfile.c_str());
        std::sort(recs.begin(), recs.end(), [](const Rec& a, const Rec& b) {
            return a.i != b.i ? a.i < b.i : a.op < b.op;
        });
        std::vector<Node> nextf;
        for (auto& r : recs) {
            res.transitions++;
            if (seen.insert(r.key).second) {
                res.states++;
                if (!r.bad) {
                    Node nn;
                    nn.hist = frontier[r.i].hist;
                    nn.hist.push_back(r.op);
                    nn.key = r.key;
                    nextf.push_back(std::move(nn));
                }
            }
        }
        res.histories += ncase;
        if (!ok) { res.complete = false; break; }
        res.depth_completed = depth;
        if (run.samples_emitted[sub] < run.max_samples_per_sub && !nextf.empty())
            run.sample(sub, jobj({{"history", describe_hist(sys, nextf[nextf.size() / 2].hist)}}));
        frontier.swap(nextf);
    }
    if (frontier.empty()) res.closed = true;
    run.bound(sub, fmt("depth<=%d", res.depth_completed), res.complete, res.histories,
              {{"states", jint(res.states)}, {"transitions", jint(res.transitions)},
               {"closed", jbool(res.closed)}, {"frontier_left", jint((int64_t)frontier.size())}});
    run.count("states", res.states);
    run.count("transitions", res.transitions);
    run.count("histories_executed_on_impl", res.histories);
    return res;
}

// mixed-radix decoding of a case index
struct Radix {
    std::vector<int64_t> dims;
    int64_t total() const { int64_t t = 1; for (auto d : dims) t *= d; return t; }
    std::vector<int> decode(int64_t idx) const {
        std::vector<int> v(dims.size());
        for (size_t k = dims.size(); k-- > 0;) { v[k] = (int)(idx % dims[k]); idx /= dims[k]; }
        return v;
    }
};

}  // namespace vf
