// exactgeom.hpp — exact integer geometry kernel shared by the geometric checks (DESIGN.md 1.3).
// All coordinates are int64 multiples of a common unit chosen by the harness; predicates use
// __int128 and are exact; distances (guard bands only) use long double.
#pragma once
#include <math.h>
#include <stdint.h>

#include <algorithm>
#include <vector>

namespace eg {
typedef __int128 i128;
struct P {
    int64_t x, y;
    bool operator==(const P& o) const { return x == o.x && y == o.y; }
    bool operator!=(const P& o) const { return !(*this == o); }
    bool operator<(const P& o) const { return x != o.x ? x < o.x : y < o.y; }
};
typedef std::vector<P> Poly;

inline i128 cross(P a, P b, P c) { return (i128)(b.x - a.x) * (c.y - a.y) - (i128)(b.y - a.y) * (c.x - a.x); }
inline i128 dot(P a, P b, P c) { return (i128)(b.x - a.x) * (c.x - a.x) + (i128)(b.y - a.y) * (c.y - a.y); }
inline int sgn(i128 v) { return v > 0 ? 1 : v < 0 ? -1 : 0; }

// q on the closed segment ab (a==b allowed)
inline bool on_segment(P a, P b, P q) {
    if (cross(a, b, q) != 0) return false;
    return std::min(a.x, b.x) <= q.x && q.x <= std::max(a.x, b.x) && std::min(a.y, b.y) <= q.y && q.y <= std::max(a.y, b.y);
}
inline bool on_boundary(const Poly& p, P q) {
    size_t n = p.size();
    if (n == 0) return false;
    for (size_t i = 0; i < n; i++)
        if (on_segment(p[i], p[(i + 1) % n], q)) return true;
    return false;
}
// winding number of the closed vertex list about q (q must not be on the boundary)
inline int winding(const Poly& p, P q) {
    int w = 0;
    size_t n = p.size();
    for (size_t i = 0; i < n; i++) {
        P a = p[i], b = p[(i + 1) % n];
        if (a.y <= q.y) {
            if (b.y > q.y && cross(a, b, q) > 0) w++;
        } else {
            if (b.y <= q.y && cross(a, b, q) < 0) w--;
        }
    }
    return w;
}
inline bool covers(const Poly& p, P q) { return on_boundary(p, q) || winding(p, q) != 0; }
inline int cover_count(const std::vector<Poly>& g, P q) {
    int c = 0;
    for (auto& p : g) if (covers(p, q)) c++;
    return c;
}
inline bool covered(const std::vector<Poly>& g, P q) {
    for (auto& p : g) if (covers(p, q)) return true;
    return false;
}
// twice the signed shoelace area
inline i128 area2(const Poly& p) {
    i128 a = 0;
    size_t n = p.size();
    for (size_t i = 0; i < n; i++) {
        P u = p[i], v = p[(i + 1) % n];
        a += (i128)u.x * v.y - (i128)v.x * u.y;
    }
    return a;
}
inline long double dist_seg(P a, P b, P q) {
    long double ax = a.x, ay = a.y, bx = b.x, by = b.y, qx = q.x, qy = q.y;
    long double dx = bx - ax, dy = by - ay, l2 = dx * dx + dy * dy;
    long double t = l2 > 0 ? ((qx - ax) * dx + (qy - ay) * dy) / l2 : 0;
    t = t < 0 ? 0 : t > 1 ? 1 : t;
    long double ex = ax + t * dx - qx, ey = ay + t * dy - qy;
    return sqrtl(ex * ex + ey * ey);
}
inline long double dist_boundary(const Poly& p, P q) {
    long double d = INFINITY;
    size_t n = p.size();
    for (size_t i = 0; i < n; i++) d = std::min(d, dist_seg(p[i], p[(i + 1) % n], q));
    return d;
}
inline long double dist_boundary(const std::vector<Poly>& g, P q) {
    long double d = INFINITY;
    for (auto& p : g) d = std::min(d, dist_boundary(p, q));
    return d;
}

// proper or improper intersection of closed segments ab and cd
inline bool segments_touch(P a, P b, P c, P d) {
    int o1 = sgn(cross(a, b, c)), o2 = sgn(cross(a, b, d)), o3 = sgn(cross(c, d, a)), o4 = sgn(cross(c, d, b));
    if (o1 != o2 && o3 != o4) return true;
    if (o1 == 0 && on_segment(a, b, c)) return true;
    if (o2 == 0 && on_segment(a, b, d)) return true;
    if (o3 == 0 && on_segment(c, d, a)) return true;
    if (o4 == 0 && on_segment(c, d, b)) return true;
    return false;
}
// simple polygon: no zero-length edge, non-adjacent edges disjoint, adjacent edges meet only in
// their common vertex (no fold-back), non-zero area.  Collinear consecutive vertices allowed iff
// allow_collinear.
inline bool is_simple(const Poly& p, bool allow_collinear) {
    size_t n = p.size();
    if (n < 3) return false;
    for (size_t i = 0; i < n; i++) {
        P a = p[i], b = p[(i + 1) % n], c = p[(i + 2) % n];
        if (a == b) return false;
        i128 cr = cross(a, b, c);
        if (cr == 0) {
            if (!allow_collinear) return false;
            if (dot(b, a, c) > 0) return false;  // fold-back
        }
    }
    for (size_t i = 0; i < n; i++)
        for (size_t j = i + 1; j < n; j++) {
            if (j == i + 1 || (i == 0 && j == n - 1)) continue;
            if (segments_touch(p[i], p[(i + 1) % n], p[j], p[(j + 1) % n])) return false;
        }
    return area2(p) != 0;
}
// every simple polygon with nmin..nmax vertices on the g x g integer lattice {0..g-1}^2.
// fix_start: keep only the rotation that starts at the lexicographically smallest vertex
// (both orientations are always kept).
inline void enumerate_simple_polygons(int g, int nmin, int nmax, bool fix_start, bool allow_collinear, std::vector<Poly>& out) {
    int npts = g * g;
    for (int n = nmin; n <= nmax; n++) {
        std::vector<int> idx(n, 0);
        int64_t total = 1;
        for (int i = 0; i < n; i++) total *= npts;
        for (int64_t c = 0; c < total; c++) {
            int64_t t = c;
            bool ok = true;
            for (int i = 0; i < n; i++) { idx[i] = (int)(t % npts); t /= npts; }
            if (fix_start) for (int i = 1; i < n && ok; i++) if (idx[i] <= idx[0]) ok = false;
            if (!ok) continue;
            // distinct vertices (necessary for simplicity); cheap pre-filter
            for (int i = 0; i < n && ok; i++) for (int j = 0; j < i; j++) if (idx[i] == idx[j]) { ok = false; break; }
            if (!ok) continue;
            Poly p(n);
            for (int i = 0; i < n; i++) p[i] = {idx[i] / g, idx[i] % g};  // idx order == lexicographic (x,y)
            if (is_simple(p, allow_collinear)) out.push_back(p);
        }
    }
}

// double -> grid; false if v*unit is not within 1e-6 of an integer (the value is not on the grid)
inline bool to_grid(double v, double unit, int64_t& out) {
    double s = v * unit;
    double r = nearbyint(s);
    out = (int64_t)r;
    return fabs(s - r) <= 1e-6 * std::max(1.0, fabs(s)) * 1e-3 + 1e-6;
}

}  // namespace eg
