"""Per-property configuration of ./check (sources, level, evidence rule text)."""

REGISTRY = {
    "C20": {
        "sources": ["harness/c20.cpp"],
        "level": "model_checking",
        "rule": ("E1: breadth-first search over operation histories on the real Map/Set/TagMap/StyleMap/property-list/Array code "
                 "with a lock-step std:: reference model; a state is the history that reaches it, canonicalised by the full slot "
                 "layout (tables), serialised list (properties) or items+capacity (Array); every transition checks return values, "
                 "all look-ups, iteration, to_array and the open-addressing probe-chain invariant.  E2: every key sequence / binary "
                 "array / family member listed in bounds_completed through sort(), heap_sort and depth-limited intro_sort, ascending "
                 "and descending.  'cases' = transitions checked + arrays sorted; non-trivial = table histories containing a "
                 "relocating delete, a wrapped probe or growth after a delete; property histories removing a first/last/only/all "
                 "entry; array histories through insert/remove; arrays with duplicate keys or length > 16."),
        "assumptions": ["keys/values are drawn from the stated alphabets; 128-bit hash of the canonical string used for de-duplication",
                        "ASan reports, crashes and hangs in a worker are violations of the case being executed"],
        "nontrivial_floor": {"quick": 1000, "thorough": 1000},
    },
}
