"""Per-property configuration of ./check: one JSON fragment per property in harness/<cxx>.reg.json.

Fields: sources (C++ files linked against the rebuilt gdstk), level (evidence level), rule (how cases are
enumerated / what counts as non-trivial), assumptions, nontrivial_floor {quick,thorough}, optional flavor
("asan" default | "fast"), optional script (Python orchestrator run as: python3 <script> --exe <built exe>
--tier T --out FILE [--replay-args S]; it must speak the same JSONL protocol as vf::Run), optional
deadline {quick,thorough} seconds (soft, passed as VERIF_DEADLINE_S) and hard_timeout {quick,thorough}.
"""
import glob, json, os

_here = os.path.dirname(os.path.abspath(__file__))
REGISTRY = {}
for _p in sorted(glob.glob(os.path.join(_here, "harness", "*.reg.json"))):
    with open(_p) as _f:
        _cfg = json.load(_f)
    REGISTRY[_cfg["property"]] = _cfg
