// gds_driver.cpp - batch driver that runs gdstk's GDSII reader / writer on command from the Python
// orchestrators (C03; reusable by C17 / C18 / C01).  Linked against the rebuilt gdstk by ./check.
//
// USAGE
//   gds_driver <jobfile> <resultfile>      process every job line, append one JSON line per job to
//                                          <resultfile> (flushed after every job, so after an abnormal
//                                          exit the first job without a result line is the culprit)
//   gds_driver --family                    print the direction-2 family description (one JSON line)
//
// JOB LINES (space separated, no spaces inside fields)
//   read  <id> <path> <unit> <tolerance>
//         Library l = read_gds(path, unit, tolerance, NULL, &err)  with error_logger == NULL
//         -> {"id":..,"job":"read","error":<int ErrorCode>,"library":<dump::library>}
//   write <id> <path> <max_points> <libcfg> <kind> <p0,p1,...>
//         builds member (libcfg, kind, params) of the fixed library family below, dumps it (dump.hpp,
//         struct walk) BEFORE writing, then write_gds(path, max_points, fixed timestamp 2024-03-05
//         06:07:08) -> {"id":..,"job":"write","error":<int>,"history":[...],"source":<dump::library>}
//         ("history": for kind prophist the sequence of property calls that built the element, else [];
//          "pathspec": for kind multipath the spine / per-element tag, width, offset, end of the path, else null)
//   units <id> <path>                      gds_units -> {"id":..,"job":"units","error":..,"unit":..,"precision":..}
//   To add a job kind: add a branch in run_job(); keep one JSON line per job.
//
// FAMILY (direction 2 of C03: everything gdstk writes must satisfy the strict decoder)
//   libcfg = u + 3*(parity + 2*order):  u: (unit,precision) in {(1e-6,1e-9),(1e-3,1e-6),(1,1e-3)};
//            parity: 0 even-length names LIB0/TOPC/KIDC, 1 odd-length LIB/TOP/KID; order: 0 KID cell
//            first, 1 TOP first (references then point forward in the file).
//   kind / params: see family_json() - every parameter is an index into a small explicit domain.
//   The element under test lives in cell TOP; KID holds one triangle.
//
// The driver never interprets results; all judging is done by the Python side with its own codec.
#include <math.h>
#include <stdio.h>
#include <stdlib.h>
#include <string.h>
#include <time.h>

#include <gdstk/gdstk.hpp>
#include <string>
#include <vector>

#include "dump.hpp"

using namespace gdstk;

static std::vector<std::string> split(const std::string& s, char sep) {
    std::vector<std::string> out;
    size_t p = 0;
    while (p <= s.size()) {
        size_t e = s.find(sep, p);
        if (e == std::string::npos) e = s.size();
        if (e > p) out.push_back(s.substr(p, e - p));
        p = e + 1;
    }
    return out;
}

// ------------------------------------------------------------------------------------------- family
struct Dim { const char* name; int size; const char* values; };
struct Kind { const char* name; std::vector<Dim> dims; };

static const std::vector<Kind>& kinds() {
    static const std::vector<Kind> k = {
        {"polygon", {{"nv", 6, "3,4,5,9,50,250 vertices (convex, parabola)"},
                     {"coords", 3, "db-grid; +0.3 db unit; +0.7 db unit shifted to -2.146e9 db units"},
                     {"rep", 6, "none; rect 2x2; regular 2x2; explicit(2); explicit_x(2); explicit_y(2)"},
                     {"props", 6, "none; (1,'a'); (2,'ab'); (1,'abc')+(127,'abcd'); raw bytes without NUL (6,'abc'); raw (7,'abcd')"},
                     {"tag", 3, "(0,0); (32767,32767); (5,7)"}}},
        {"bigpolygon", {{"nv", 4, "8189,8190,8191,8200 vertices on a circle"},
                        {"rep", 2, "none; rect 2x1"},
                        {"props", 2, "none; (1,'a')"}}},
        {"flexpath", {{"npts", 4, "2 points; 3 points with a corner; 3 collinear points; 4 points zigzag"},
                      {"end", 5, "flush; round; half-width; extended; smooth"},
                      {"width", 4, "0; 0.1; 0.0013; 2"},
                      {"scale_width", 2, "true; false"},
                      {"ext", 3, "(0.05,0.02); (-0.03,0); (0,-0.01)  (used by end=extended)"},
                      {"nel", 2, "1 element; 2 elements (zero offsets, different tags/widths)"},
                      {"rep", 3, "none; rect 2x1; explicit(2)"},
                      {"props", 2, "none; (3,'xyz')"}}},
        // non-simple paths are written as the polygons of to_polygons(), each carrying a COPY of the path's repetition
        {"nonsimple", {{"end", 2, "flush; round"}, {"nel", 2, "1; 2 elements with offsets"},
                       {"class", 2, "FlexPath; RobustPath"},
                       {"rep", 6, "none; rect 2x2; regular 2x2 oblique; explicit(2); explicit_x(2); explicit_y(2)"}}},
        {"label", {{"anchor", 9, "NW,N,NE,W,O,E,SW,S,SE"},
                   {"rot", 5, "0; pi/2; 0.3; pi; -pi/2"},
                   {"mag", 3, "1; 2.5; 0.5"},
                   {"refl", 2, "false; true"},
                   {"textlen", 3, "1; 2; 3 characters"},
                   {"rep", 2, "none; rect 2x1"},
                   {"props", 2, "none; (4,'lp')"},
                   {"tag", 2, "(1,2); (32767,32767)"}}},
        {"reference", {{"target", 2, "by pointer to KID; by name to an absent cell"},
                       {"rot", 5, "0; pi/2; pi; 3pi/2; 0.3"},
                       {"refl", 2, "false; true"},
                       {"mag", 3, "1; 0.5; 3"},
                       {"rep", 10, "none; rect 2x3; rect 1x1; regular aligned with the rotated axes; regular aligned, axes swapped; regular skew; explicit(2); rect 3x1 negative spacing; rect 1x4; regular 1x3 with zero v1"},
                       {"props", 2, "none; (5,'rp')"},
                       {"origin", 2, "db-grid; off-grid (+0.3,+0.7 db unit)"}}},
        {"bigarray", {{"cols", 4, "32767; 32768; 65535; 65536 columns x 1 row, spacing 1 db unit"}}},
        // GDSII properties built by a HISTORY of set_gds_property / remove_gds_property calls on one element.
        // op: 0 nothing; 1-4 set attribute 1 to V[op-1]; 5-8 set attribute 2 to V[op-5]; 9 remove attribute 1;
        // 10 remove attribute 2;  V = {"", "ab", "abcdefg", "xy"}.  The result line echoes the history; the
        // judge applies its own last-write-wins model to it (not the dump).
        // boundary values of the 8-byte real format: exact powers of 16 in MAG / ANGLE (degrees) / UNITS
        {"real8", {{"element", 2, "label; reference"},
                   {"mag", 8, "1; 16; 256; 4096; 1/16; 1/256; 65536; 1/4096"},
                   {"deg", 7, "rotation whose value in degrees, r*(180/pi), is exactly 0; 1; 16; 256; 1/16; -1; -256 (neighbouring doubles searched)"}}},
        {"units16", {{"pair", 7, "(unit,precision) = (1,1); (1e-6,1e-6); (1,1/16); (1/16,1/256); (16,1); (1/256,1/65536); (1e-3,1e-3/16)"},
                     {"element", 3, "polygon; label with magnification 16; reference array 2x3"}}},
        // multi-element SIMPLE paths of both kinds (each element becomes its own PATH record, per repetition offset).
        // elements i = 0..2: tag (10+i, 20+i), width {0.2, 0.4, 0.1}, offset {-1.5, 0.5, 2.25} (left of travel),
        // extensions (0.05+0.01i, 0.02i) when extended.  The result line echoes the construction as "pathspec".
        {"multipath", {{"type", 2, "FlexPath; RobustPath"},
                       {"nel", 2, "2; 3 elements"},
                       {"spine", 3, "straight (1,-2)->(11,-2); L ...->(11,6); 3 segments ...->(3,6)"},
                       {"end", 5, "flush; round; half-width; extended; smooth"},
                       {"scale_width", 2, "true; false"},
                       {"rep", 2, "none; rect 2x1 spacing (12.5,3)"}}},
        // long records written by gdstk: one XY record of up to 8190 pairs, names / texts up to the 65530-byte maximum
        {"longrec", {{"what", 4, "polygon with N vertices; library name of N bytes; cell name of N bytes + a reference to it; label text of N bytes"},
                     {"size", 6, "polygon N = 4094,4095,4096,4097,8188,8189 vertices (+1 closing pair); strings N = 32763,32764,32766,40000,65529,65530"}}},
        {"prophist", {{"element", 4, "polygon; simple path; label; reference"},
                      {"op1", 11, "see above"}, {"op2", 11, "see above"}, {"op3", 11, "see above"}, {"op4", 11, "see above"}}},
    };
    return k;
}

static std::string family_json() {
    std::vector<std::string> ks;
    for (auto& k : kinds()) {
        std::vector<std::string> ds;
        for (auto& d : k.dims) ds.push_back(vf::jobj({{"name", vf::jstr(d.name)}, {"size", vf::jint(d.size)}, {"values", vf::jstr(d.values)}}));
        ks.push_back(vf::jobj({{"kind", vf::jstr(k.name)}, {"dims", vf::jarr(ds)}}));
    }
    return vf::jobj({{"job", vf::jstr("family")}, {"libcfgs", vf::jint(12)}, {"kinds", vf::jarr(ks)}});
}

static const double DB = 0.001;  // one database unit in user units (all three unit configurations)

static void add_props(Property*& props, int which, int base) {
    switch (which) {
        case 0: break;
        case 1: set_gds_property(props, (uint16_t)base, "a"); break;
        case 2: set_gds_property(props, (uint16_t)(base + 1), "ab"); break;
        case 3: set_gds_property(props, (uint16_t)base, "abc"); set_gds_property(props, 127, "abcd"); break;
        // GDSII properties whose value bytes carry no terminating NUL (as other producers of the list create them)
        case 4: set_property(props, "S_GDS_PROPERTY", (const uint8_t*)"abc", 3, true); set_property(props, "S_GDS_PROPERTY", (uint64_t)6, false); break;
        case 5: set_property(props, "S_GDS_PROPERTY", (const uint8_t*)"abcd", 4, true); set_property(props, "S_GDS_PROPERTY", (uint64_t)7, false); break;
    }
}

static void set_rep(Repetition& r, int which) {
    r = Repetition{};
    switch (which) {
        case 0: break;
        case 1: r.type = RepetitionType::Rectangular; r.columns = 2; r.rows = 2; r.spacing = Vec2{30, 20}; break;
        case 2: r.type = RepetitionType::Regular; r.columns = 2; r.rows = 2; r.v1 = Vec2{10, 5}; r.v2 = Vec2{-3, 8}; break;
        case 3: r.type = RepetitionType::Explicit; r.offsets.append(Vec2{7, 1}); r.offsets.append(Vec2{-2, 9}); break;
        case 4: r.type = RepetitionType::ExplicitX; r.coords.append(5); r.coords.append(11); break;
        case 5: r.type = RepetitionType::ExplicitY; r.coords.append(4); r.coords.append(-6); break;
        case 6: r.type = RepetitionType::Rectangular; r.columns = 2; r.rows = 1; r.spacing = Vec2{12.5, 3}; break;
    }
}

static Tag tag_of(int which) {
    switch (which) {
        case 0: return make_tag(0, 0);
        case 1: return make_tag(32767, 32767);
        default: return make_tag(5, 7);
    }
}

static bool build_family(Library& lib, int libcfg, const std::string& kind, const std::vector<int>& p, std::string& err) {
    const Kind* K = NULL;
    for (auto& k : kinds()) if (kind == k.name) K = &k;
    if (!K) { err = "unknown kind " + kind; return false; }
    if (p.size() != K->dims.size()) { err = "wrong number of parameters for " + kind; return false; }
    for (size_t i = 0; i < p.size(); i++) if (p[i] < 0 || p[i] >= K->dims[i].size) { err = std::string("parameter out of range: ") + K->dims[i].name; return false; }
    if (libcfg < 0 || libcfg >= 12) { err = "libcfg out of range"; return false; }
    int u = libcfg % 3, parity = (libcfg / 3) % 2, order = (libcfg / 6) % 2;
    static const double units[3][2] = {{1e-6, 1e-9}, {1e-3, 1e-6}, {1, 1e-3}};
    lib = Library{};
    lib.init(parity ? "LIB" : "LIB0", units[u][0], units[u][1]);
    Cell* top = (Cell*)allocate_clear(sizeof(Cell));
    top->name = copy_string(parity ? "TOP" : "TOPC", NULL);
    Cell* kid = (Cell*)allocate_clear(sizeof(Cell));
    kid->name = copy_string(parity ? "KID" : "KIDC", NULL);
    {
        Polygon* t = (Polygon*)allocate_clear(sizeof(Polygon));
        t->tag = make_tag(9, 9);
        t->point_array.append(Vec2{0, 0});
        t->point_array.append(Vec2{2, 0});
        t->point_array.append(Vec2{0, 1});
        kid->polygon_array.append(t);
    }
    if (order == 0) { lib.cell_array.append(kid); lib.cell_array.append(top); }
    else { lib.cell_array.append(top); lib.cell_array.append(kid); }

    if (kind == "polygon" || kind == "bigpolygon") {
        Polygon* g = (Polygon*)allocate_clear(sizeof(Polygon));
        if (kind == "polygon") {
            static const int nvs[] = {3, 4, 5, 9, 50, 250};
            int nv = nvs[p[0]];
            double dx = p[1] == 0 ? 0 : p[1] == 1 ? 0.3 : 0.7, shift = p[1] == 2 ? -2146000000.0 : 0;
            for (int i = 0; i < nv; i++) g->point_array.append(Vec2{(1000.0 * i + dx + shift) * DB, (100.0 * i * i - 7 * i - dx) * DB});
            set_rep(g->repetition, p[2]);
            add_props(g->properties, p[3], 1);
            g->tag = tag_of(p[4]);
        } else {
            static const int nvs[] = {8189, 8190, 8191, 8200};
            int nv = nvs[p[0]];
            for (int i = 0; i < nv; i++) {
                double a = 2 * M_PI * i / nv;
                g->point_array.append(Vec2{round(1e6 * cos(a)) * DB, round(1e6 * sin(a)) * DB});
            }
            set_rep(g->repetition, p[1] ? 6 : 0);
            add_props(g->properties, p[2], 1);
            g->tag = make_tag(2, 3);
        }
        top->polygon_array.append(g);
    } else if (kind == "nonsimple" && p[2] == 1) {
        RobustPath* r = (RobustPath*)allocate_clear(sizeof(RobustPath));
        int nel = p[1] + 1;
        double w[2] = {0.2, 0.1}, off[2] = {0, 0};
        if (nel == 2) { off[0] = -0.3; off[1] = 0.3; }
        Tag tags[2] = {make_tag(3, 4), make_tag(32767, 0)};
        r->init(Vec2{1.0, -2.0}, (uint64_t)nel, w, off, 0.01, 1000, tags);
        r->segment(Vec2{11.0, -2.0}, NULL, NULL, false);
        r->segment(Vec2{11.0, 5.5}, NULL, NULL, false);
        r->simple_path = false;
        r->scale_width = true;
        for (int i = 0; i < nel; i++) r->elements[i].end_type = p[0] ? EndType::Round : EndType::Flush;
        set_rep(r->repetition, p[3]);
        top->robustpath_array.append(r);
    } else if (kind == "flexpath" || kind == "nonsimple") {
        FlexPath* f = (FlexPath*)allocate_clear(sizeof(FlexPath));
        bool simple = kind == "flexpath";
        int npts = simple ? p[0] : 1, end = simple ? p[1] : (p[0] ? 1 : 0), nel = simple ? p[5] + 1 : p[1] + 1;
        static const double widths[] = {0, 0.1, 0.0013, 2};
        double w[2] = {simple ? widths[p[2]] : 0.2, simple ? widths[p[2]] * 2 + 0.002 : 0.1};
        double off[2] = {0, 0};
        if (!simple && nel == 2) { off[0] = -0.3; off[1] = 0.3; }
        Tag tags[2] = {make_tag(3, 4), make_tag(32767, 0)};
        f->init(Vec2{1.0, -2.0}, (uint64_t)nel, w, off, 0.01, tags);
        if (npts == 0) {
            f->segment(Vec2{11.0, -2.0}, NULL, NULL, false);
        } else if (npts == 1) {
            f->segment(Vec2{11.0, -2.0}, NULL, NULL, false);
            f->segment(Vec2{11.0, 5.5}, NULL, NULL, false);
        } else if (npts == 2) {
            f->segment(Vec2{6.0, 0.5}, NULL, NULL, false);
            f->segment(Vec2{11.0, 3.0}, NULL, NULL, false);
        } else {
            f->segment(Vec2{11.0, -2.0}, NULL, NULL, false);
            f->segment(Vec2{11.0, 5.5}, NULL, NULL, false);
            f->segment(Vec2{-4.25, 5.5}, NULL, NULL, false);
        }
        f->simple_path = simple;
        f->scale_width = simple ? p[3] == 0 : true;
        static const EndType ends[] = {EndType::Flush, EndType::Round, EndType::HalfWidth, EndType::Extended, EndType::Smooth};
        static const double exts[3][2] = {{0.05, 0.02}, {-0.03, 0}, {0, -0.01}};
        for (int i = 0; i < nel; i++) {
            f->elements[i].end_type = ends[end];
            if (simple) f->elements[i].end_extensions = Vec2{exts[p[4]][0], exts[p[4]][1] + 0.001 * i};
        }
        if (!simple) set_rep(f->repetition, p[3]);
        if (simple) {
            set_rep(f->repetition, p[6] == 0 ? 0 : p[6] == 1 ? 6 : 3);
            if (p[7]) set_gds_property(f->properties, 3, "xyz");
        }
        top->flexpath_array.append(f);
    } else if (kind == "label") {
        Label* l = (Label*)allocate_clear(sizeof(Label));
        static const Anchor anchors[] = {Anchor::NW, Anchor::N, Anchor::NE, Anchor::W, Anchor::O, Anchor::E, Anchor::SW, Anchor::S, Anchor::SE};
        static const double rots[] = {0, M_PI / 2, 0.3, M_PI, -M_PI / 2};
        static const char* texts[] = {"T", "Tx", "Txt"};
        l->anchor = anchors[p[0]];
        l->rotation = rots[p[1]];
        l->magnification = p[2] == 0 ? 1 : p[2] == 1 ? 2.5 : 0.5;
        l->x_reflection = p[3] != 0;
        l->text = copy_string(texts[p[4]], NULL);
        set_rep(l->repetition, p[5] ? 6 : 0);
        if (p[6]) set_gds_property(l->properties, 4, "lp");
        l->tag = p[7] ? make_tag(32767, 32767) : make_tag(1, 2);
        l->origin = Vec2{-1.5, 2.25};
        top->label_array.append(l);
    } else if (kind == "reference" || kind == "bigarray") {
        Reference* r = (Reference*)allocate_clear(sizeof(Reference));
        r->magnification = 1;
        if (kind == "bigarray") {
            static const uint64_t cols[] = {32767, 32768, 65535, 65536};
            r->type = ReferenceType::Cell;
            r->cell = kid;
            r->repetition.type = RepetitionType::Rectangular;
            r->repetition.columns = cols[p[0]];
            r->repetition.rows = 1;
            r->repetition.spacing = Vec2{DB, DB};
        } else {
            static const double rots[] = {0, M_PI / 2, M_PI, 3 * M_PI / 2, 0.3};
            if (p[0] == 0) { r->type = ReferenceType::Cell; r->cell = kid; }
            else { r->type = ReferenceType::Name; r->name = copy_string(parity ? "ABSENT" : "ABSENTX", NULL); }
            r->rotation = rots[p[1]];
            r->x_reflection = p[2] != 0;
            r->magnification = p[3] == 0 ? 1 : p[3] == 1 ? 0.5 : 3;
            double ca = cos(r->rotation), sa = sin(r->rotation);
            Repetition& rep = r->repetition;
            switch (p[4]) {
                case 0: break;
                case 1: rep.type = RepetitionType::Rectangular; rep.columns = 2; rep.rows = 3; rep.spacing = Vec2{30, 20}; break;
                case 2: rep.type = RepetitionType::Rectangular; rep.columns = 1; rep.rows = 1; rep.spacing = Vec2{30, 20}; break;
                case 3: rep.type = RepetitionType::Regular; rep.columns = 2; rep.rows = 3; rep.v1 = Vec2{10 * ca, 10 * sa}; rep.v2 = Vec2{-7 * sa, 7 * ca}; break;
                case 4: rep.type = RepetitionType::Regular; rep.columns = 2; rep.rows = 3; rep.v1 = Vec2{-7 * sa, 7 * ca}; rep.v2 = Vec2{10 * ca, 10 * sa}; break;
                case 5: rep.type = RepetitionType::Regular; rep.columns = 2; rep.rows = 2; rep.v1 = Vec2{10, 5}; rep.v2 = Vec2{-3, 8}; break;
                case 6: rep.type = RepetitionType::Explicit; rep.offsets.append(Vec2{7, 1}); rep.offsets.append(Vec2{-2, 9}); break;
                case 7: rep.type = RepetitionType::Rectangular; rep.columns = 3; rep.rows = 1; rep.spacing = Vec2{-12, -4}; break;
                case 8: rep.type = RepetitionType::Rectangular; rep.columns = 1; rep.rows = 4; rep.spacing = Vec2{30, 20}; break;
                case 9: rep.type = RepetitionType::Regular; rep.columns = 1; rep.rows = 3; rep.v1 = Vec2{0, 0}; rep.v2 = Vec2{-7 * sa, 7 * ca}; break;
            }
            if (p[5]) set_gds_property(r->properties, 5, "rp");
            r->origin = p[6] ? Vec2{4 + 0.3 * DB, -3 + 0.7 * DB} : Vec2{4, -3};
        }
        top->reference_array.append(r);
    } else if (kind == "real8" || kind == "units16") {
        static const double mags[] = {1, 16, 256, 4096, 1.0 / 16, 1.0 / 256, 65536, 1.0 / 4096};
        static const double degs[] = {0, 1, 16, 256, 1.0 / 16, -1, -256};
        int element = kind == "real8" ? p[0] + 1 : p[1];  // 0 polygon, 1 label, 2 reference
        double mag = kind == "real8" ? mags[p[1]] : 16, rot = 0;
        if (kind == "real8") {
            // a double r whose degree value r*(180/pi), as the writer computes it, is exactly degs[k]
            double want = degs[p[2]], r0 = want * (M_PI / 180.0);
            rot = r0;
            double lo = r0, hi = r0;
            for (int i = 0; i < 16 && rot * (180.0 / M_PI) != want; i++) {
                lo = nextafter(lo, -1e300);
                hi = nextafter(hi, 1e300);
                if (lo * (180.0 / M_PI) == want) rot = lo;
                else if (hi * (180.0 / M_PI) == want) rot = hi;
            }
        } else {
            static const double up[7][2] = {{1, 1}, {1e-6, 1e-6}, {1, 1.0 / 16}, {1.0 / 16, 1.0 / 256}, {16, 1}, {1.0 / 256, 1.0 / 65536}, {1e-3, 1e-3 / 16}};
            lib.unit = up[p[0]][0];
            lib.precision = up[p[0]][1];
        }
        if (element == 0) {
            Polygon* g = (Polygon*)allocate_clear(sizeof(Polygon));
            g->tag = make_tag(1, 2);
            g->point_array.append(Vec2{0, 0});
            g->point_array.append(Vec2{3, 0});
            g->point_array.append(Vec2{0, 4});
            top->polygon_array.append(g);
        } else if (element == 1) {
            Label* l = (Label*)allocate_clear(sizeof(Label));
            l->magnification = mag;
            l->rotation = rot;
            l->text = copy_string("R8", NULL);
            l->origin = Vec2{1, 2};
            top->label_array.append(l);
        } else {
            Reference* r = (Reference*)allocate_clear(sizeof(Reference));
            r->type = ReferenceType::Cell;
            r->cell = kid;
            r->magnification = kind == "real8" ? mag : 1;
            r->rotation = rot;
            r->origin = Vec2{2, 3};
            if (kind == "units16") {
                r->repetition.type = RepetitionType::Rectangular;
                r->repetition.columns = 2;
                r->repetition.rows = 3;
                r->repetition.spacing = Vec2{5, 7};
            }
            top->reference_array.append(r);
        }
    } else if (kind == "longrec") {
        static const int NV[] = {4094, 4095, 4096, 4097, 8188, 8189}, NS[] = {32763, 32764, 32766, 40000, 65529, 65530};
        if (p[0] == 0) {
            Polygon* g = (Polygon*)allocate_clear(sizeof(Polygon));
            g->tag = make_tag(2, 3);
            int nv = NV[p[1]];
            for (int i = 0; i < nv; i++) {
                double a = 2 * M_PI * i / nv;
                g->point_array.append(Vec2{round(1e6 * cos(a)) * DB, round(1e6 * sin(a)) * DB});
            }
            top->polygon_array.append(g);
        } else {
            std::string body;
            std::string unit = "N" + std::to_string(NS[p[1]]) + "_";
            while ((int)body.size() < NS[p[1]]) body += unit;
            body.resize(NS[p[1]]);
            if (p[0] == 1) {
                free_allocation(lib.name);
                lib.name = copy_string(body.c_str(), NULL);
            } else if (p[0] == 2) {
                free_allocation(kid->name);
                kid->name = copy_string(body.c_str(), NULL);
                Reference* r = (Reference*)allocate_clear(sizeof(Reference));
                r->type = ReferenceType::Cell;
                r->cell = kid;
                r->magnification = 1;
                r->origin = Vec2{2, 3};
                top->reference_array.append(r);
            } else {
                Label* l = (Label*)allocate_clear(sizeof(Label));
                l->magnification = 1;
                l->text = copy_string(body.c_str(), NULL);
                l->origin = Vec2{1, 1};
                top->label_array.append(l);
            }
        }
    } else if (kind == "multipath") {
        int nel = p[1] + 2, nseg = p[2] + 1;
        static const double W[] = {0.2, 0.4, 0.1}, O[] = {-1.5, 0.5, 2.25};
        static const Vec2 P[] = {{11, -2}, {11, 6}, {3, 6}};
        static const EndType ends[] = {EndType::Flush, EndType::Round, EndType::HalfWidth, EndType::Extended, EndType::Smooth};
        Tag tags[3] = {make_tag(10, 20), make_tag(11, 21), make_tag(12, 22)};
        if (p[0] == 0) {
            FlexPath* f = (FlexPath*)allocate_clear(sizeof(FlexPath));
            f->init(Vec2{1, -2}, (uint64_t)nel, W, O, 0.01, tags);
            for (int i = 0; i < nseg; i++) f->segment(P[i], NULL, NULL, false);
            f->simple_path = true;
            f->scale_width = p[4] == 0;
            for (int i = 0; i < nel; i++) {
                f->elements[i].end_type = ends[p[3]];
                f->elements[i].end_extensions = Vec2{0.05 + 0.01 * i, 0.02 * i};
            }
            set_rep(f->repetition, p[5] ? 6 : 0);
            top->flexpath_array.append(f);
        } else {
            RobustPath* r = (RobustPath*)allocate_clear(sizeof(RobustPath));
            r->init(Vec2{1, -2}, (uint64_t)nel, W, O, 0.01, 1000, tags);
            for (int i = 0; i < nseg; i++) r->segment(P[i], NULL, NULL, false);
            r->simple_path = true;
            r->scale_width = p[4] == 0;
            for (int i = 0; i < nel; i++) {
                r->elements[i].end_type = ends[p[3]];
                r->elements[i].end_extensions = Vec2{0.05 + 0.01 * i, 0.02 * i};
            }
            set_rep(r->repetition, p[5] ? 6 : 0);
            top->robustpath_array.append(r);
        }
    } else if (kind == "prophist") {
        Property** props = NULL;
        if (p[0] == 0) {
            Polygon* g = (Polygon*)allocate_clear(sizeof(Polygon));
            g->tag = make_tag(1, 2);
            g->point_array.append(Vec2{0, 0});
            g->point_array.append(Vec2{3, 0});
            g->point_array.append(Vec2{0, 4});
            top->polygon_array.append(g);
            props = &g->properties;
        } else if (p[0] == 1) {
            FlexPath* f = (FlexPath*)allocate_clear(sizeof(FlexPath));
            f->init(Vec2{0, 0}, 1, 0.5, 0, 0.01, make_tag(3, 4));
            f->segment(Vec2{10, 0}, NULL, NULL, false);
            f->simple_path = true;
            f->scale_width = true;
            top->flexpath_array.append(f);
            props = &f->properties;
        } else if (p[0] == 2) {
            Label* l = (Label*)allocate_clear(sizeof(Label));
            l->magnification = 1;
            l->text = copy_string("L", NULL);
            l->origin = Vec2{1, 1};
            top->label_array.append(l);
            props = &l->properties;
        } else {
            Reference* r = (Reference*)allocate_clear(sizeof(Reference));
            r->type = ReferenceType::Cell;
            r->cell = kid;
            r->magnification = 1;
            r->origin = Vec2{2, 3};
            top->reference_array.append(r);
            props = &r->properties;
        }
        static const char* V[] = {"", "ab", "abcdefg", "xy"};
        for (int i = 1; i <= 4; i++) {
            int op = p[i];
            if (op >= 1 && op <= 4) set_gds_property(*props, 1, V[op - 1]);
            else if (op >= 5 && op <= 8) set_gds_property(*props, 2, V[op - 5]);
            else if (op == 9) remove_gds_property(*props, 1);
            else if (op == 10) remove_gds_property(*props, 2);
        }
    }
    return true;
}

// the construction of a multipath member, echoed for the judge (inputs only, nothing computed by gdstk)
static std::string pathspec_json(const std::string& kind, const std::vector<int>& p) {
    if (kind != "multipath" || p.size() != 6) return "null";
    static const double W[] = {0.2, 0.4, 0.1}, O[] = {-1.5, 0.5, 2.25};
    static const double P[4][2] = {{1, -2}, {11, -2}, {11, 6}, {3, 6}};
    static const char* ends[] = {"flush", "round", "half-width", "extended", "smooth"};
    std::vector<std::string> sp, els;
    for (int i = 0; i <= p[2] + 1; i++) sp.push_back("[" + vf::jnum(P[i][0]) + "," + vf::jnum(P[i][1]) + "]");
    for (int i = 0; i < p[1] + 2; i++)
        els.push_back(vf::jobj({{"tag", "[" + vf::jint(10 + i) + "," + vf::jint(20 + i) + "]"}, {"width", vf::jnum(W[i])}, {"offset", vf::jnum(O[i])},
                                {"end", vf::jstr(ends[p[3]])}, {"ext", "[" + vf::jnum(0.05 + 0.01 * i) + "," + vf::jnum(0.02 * i) + "]"}}));
    return vf::jobj({{"type", vf::jstr(p[0] ? "robust" : "flex")}, {"spine", vf::jarr(sp)}, {"scale_width", vf::jbool(p[4] == 0)}, {"elements", vf::jarr(els)}});
}

// the history of a prophist member, echoed for the judge: [["set",1,"ab"],["remove",2], ...]
static std::string history_json(const std::string& kind, const std::vector<int>& p) {
    std::vector<std::string> h;
    if (kind == "prophist") {
        static const char* V[] = {"", "ab", "abcdefg", "xy"};
        for (size_t i = 1; i < p.size(); i++) {
            int op = p[i];
            if (op >= 1 && op <= 4) h.push_back(vf::jarr({vf::jstr("set"), "1", vf::jstr(V[op - 1])}));
            else if (op >= 5 && op <= 8) h.push_back(vf::jarr({vf::jstr("set"), "2", vf::jstr(V[op - 5])}));
            else if (op == 9) h.push_back(vf::jarr({vf::jstr("remove"), "1"}));
            else if (op == 10) h.push_back(vf::jarr({vf::jstr("remove"), "2"}));
        }
    }
    return vf::jarr(h);
}

// --------------------------------------------------------------------------------------------- jobs
static std::string run_job(const std::vector<std::string>& t) {
    using vf::jint; using vf::jobj; using vf::jstr; using vf::jnum;
    if (t.size() < 2) return jobj({{"job", jstr("bad")}, {"detail", jstr("empty job line")}});
    const std::string& job = t[0];
    const std::string& id = t[1];
    if (job == "read" && t.size() == 5) {
        ErrorCode err = ErrorCode::NoError;
        Library lib = read_gds(t[2].c_str(), atof(t[3].c_str()), atof(t[4].c_str()), NULL, &err);
        std::string d = dump::library(lib);
        lib.free_all();
        return jobj({{"id", jstr(id)}, {"job", jstr("read")}, {"error", jint((int)err)}, {"library", d}});
    }
    if (job == "units" && t.size() == 3) {
        double unit = 0, precision = 0;
        ErrorCode err = gds_units(t[2].c_str(), unit, precision);
        return jobj({{"id", jstr(id)}, {"job", jstr("units")}, {"error", jint((int)err)}, {"unit", jnum(unit)}, {"precision", jnum(precision)}});
    }
    if (job == "write" && t.size() == 7) {
        std::vector<int> p;
        for (auto& s : split(t[6], ',')) p.push_back(atoi(s.c_str()));
        Library lib;
        std::string err;
        if (!build_family(lib, atoi(t[4].c_str()), t[5], p, err))
            return jobj({{"id", jstr(id)}, {"job", jstr("bad")}, {"detail", jstr(err)}});
        std::string src = dump::library(lib);
        tm stamp = {};
        stamp.tm_year = 124; stamp.tm_mon = 2; stamp.tm_mday = 5; stamp.tm_hour = 6; stamp.tm_min = 7; stamp.tm_sec = 8;
        ErrorCode e = lib.write_gds(t[2].c_str(), (uint64_t)atoll(t[3].c_str()), &stamp);
        lib.free_all();
        return jobj({{"id", jstr(id)}, {"job", jstr("write")}, {"error", jint((int)e)}, {"history", history_json(t[5], p)}, {"pathspec", pathspec_json(t[5], p)}, {"source", src}});
    }
    return jobj({{"id", jstr(id)}, {"job", jstr("bad")}, {"detail", jstr("unknown job or wrong argument count: " + job)}});
}

int main(int argc, char** argv) {
    error_logger = NULL;
    if (argc == 2 && std::string(argv[1]) == "--family") {
        puts(family_json().c_str());
        return 0;
    }
    if (argc != 3) {
        fprintf(stderr, "usage: gds_driver <jobfile> <resultfile> | --family\n");
        return 2;
    }
    FILE* in = fopen(argv[1], "r");
    FILE* out = fopen(argv[2], "a");
    if (!in || !out) { perror("gds_driver: open"); return 2; }
    std::string line;
    int c;
    while (true) {
        line.clear();
        while ((c = fgetc(in)) != EOF && c != '\n') line += (char)c;
        if (!line.empty()) {
            std::string r = run_job(split(line, ' '));
            fputs(r.c_str(), out);
            fputc('\n', out);
            fflush(out);
        }
        if (c == EOF) break;
    }
    fclose(in);
    fclose(out);
    return 0;
}
