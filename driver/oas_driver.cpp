// oas_driver.cpp -- batch OASIS I/O server linked against the rebuilt gdstk (used by C04; reusable by C02/C18).
//
//   oas_driver --jobs FILE [--scratch DIR]        one job per line of FILE; one JSON result line per job
//                                                  on stdout (flushed after every job, in job order)
// Jobs (tokens separated by blanks):
//   read <path> [unit [tolerance]]       -> {"job":i,"kind":"read","err":E,"lib":<dump::library>}
//   readhex <hex> [unit [tolerance]]     -> same; the bytes are first written to <scratch>/in.<pid>.oas
//   validate <path>                      -> {"job":i,"kind":"validate","ok":bool,"sig":u32,"err":E}
//   precision <path>                     -> {"job":i,"kind":"precision","precision":double,"err":E}
//   write <path> <level> <flags> <circle_tolerance> ; <cmd> ; <cmd> ...
//                                        -> {"job":i,"kind":"write","err":E,"src":<dump of the library before
//                                            write_oas>}   (the file is left at <path>)
//     library-building commands (coordinates are doubles in library units; names are blank-free tokens;
//     texts / string values are hex):
//       lib NAME UNIT PRECISION            (default LIB 1e-6 1e-9)
//       cell NAME | xcell NAME             cell added to the library | cell kept outside the library
//       poly L T x,y x,y ...
//       fpath SIMPLE SCALEW NPTS x,y.. NEL {L T HALFWIDTH OFFSET END EXTU EXTV}    END: flush|half|ext|round|smooth
//       rpath SIMPLE SCALEW NPTS x,y.. NEL {L T WIDTH OFFSET END EXTU EXTV}        straight segments
//       label L T x,y HEXTEXT [ANCHOR ROT MAG XREFL]
//       ref NAME x,y ROT MAG XREFL         by pointer when a (x)cell NAME exists in the job, else by name
//       refname NAME x,y ROT MAG XREFL     always by name
//       rep rect C R SX SY | rep reg C R V1X V1Y V2X V2Y | rep ex N x,y.. | rep exx N c.. | rep exy N c..
//       prop NAME v..  (v = u:N | i:N | r:DOUBLE | s:HEX)  attaches to the last element/cell; libprop NAME v..
//       xf scale M CX,CY | xf mirror X0,Y0 X1,Y1 | xf rotate ANGLE CX,CY | xf transform MAG XREFL ROT OX,OY
//                                          applies the gdstk transformation to the last element (polygon, flexpath, robustpath;
//                                          label and reference: transform only) -- a transformation history before the save
//     Property lists and value lists keep the order given.
//   history <prefix> <circle_tolerance> ; <cmd> ; <cmd> ... | <op> | <op> ...     one Library object through a save history
//     ops:  write LEVEL FLAGS          write_oas to <prefix>.<k>.oas (k = 0,1,.. per write); the library is dumped first
//           addref PARENT CHILD x,y    add a by-pointer reference (cells looked up by name in the current library)
//           rmcell NAME                take the cell out of the library (it stays alive: pointers to it keep working)
//           reload                     read_oas the last written file and continue from the loaded library
//                                        -> {"job":i,"kind":"history","writes":[{"path":..,"level":..,"flags":..,"err":E,"src":<dump>}..],
//                                            "ops":[text of what each op did]}
// Error codes are gdstk::ErrorCode values.  error_logger is NULL.  A crash kills the process: the caller
// attributes it to the first job without a result line.
#include <gdstk/gdstk.hpp>

#include <map>
#include <sstream>
#include <string>
#include <vector>

#include "dump.hpp"

using namespace gdstk;

static std::vector<std::string> split(const std::string& s, char sep) {
    std::vector<std::string> out;
    std::string cur;
    for (char c : s) {
        if (c == sep) { out.push_back(cur); cur.clear(); } else cur += c;
    }
    out.push_back(cur);
    return out;
}
static std::vector<std::string> tokens(const std::string& s) {
    std::vector<std::string> out;
    std::istringstream is(s);
    std::string t;
    while (is >> t) out.push_back(t);
    return out;
}
static std::vector<uint8_t> unhex(const std::string& h) {
    std::vector<uint8_t> b;
    for (size_t i = 0; i + 1 < h.size(); i += 2) b.push_back((uint8_t)strtoul(h.substr(i, 2).c_str(), NULL, 16));
    return b;
}
static Vec2 vec(const std::string& t) {
    size_t c = t.find(',');
    return Vec2{strtod(t.substr(0, c).c_str(), NULL), strtod(t.substr(c + 1).c_str(), NULL)};
}
static EndType end_of(const std::string& s) {
    if (s == "half") return EndType::HalfWidth;
    if (s == "ext") return EndType::Extended;
    if (s == "round") return EndType::Round;
    if (s == "smooth") return EndType::Smooth;
    return EndType::Flush;
}

struct Builder {
    Library lib = {};
    std::map<std::string, Cell*> pool;
    std::vector<Cell*> outside;
    Cell* cur = NULL;
    Repetition* last_rep = NULL;
    Property** last_props = NULL;
    char last_kind = 0;  // p polygon, f flexpath, r robustpath, l label, R reference
    void* last_obj = NULL;
    struct Pending { Reference* ref; std::string name; bool force_name; };
    std::vector<Pending> pending;
    std::string error;

    Builder() {
        lib.name = copy_string("LIB", NULL);
        lib.unit = 1e-6;
        lib.precision = 1e-9;
    }
    void add_prop(Property** head, const std::vector<std::string>& t) {
        Property* p = (Property*)allocate_clear(sizeof(Property));
        p->name = copy_string(t[1].c_str(), NULL);
        PropertyValue** next = &p->value;
        for (size_t i = 2; i < t.size(); i++) {
            PropertyValue* v = (PropertyValue*)allocate_clear(sizeof(PropertyValue));
            std::string body = t[i].substr(2);
            switch (t[i][0]) {
                case 'u': v->type = PropertyType::UnsignedInteger; v->unsigned_integer = strtoull(body.c_str(), NULL, 10); break;
                case 'i': v->type = PropertyType::Integer; v->integer = strtoll(body.c_str(), NULL, 10); break;
                case 'r': v->type = PropertyType::Real; v->real = strtod(body.c_str(), NULL); break;
                default: {
                    std::vector<uint8_t> b = unhex(body);
                    v->type = PropertyType::String;
                    v->count = b.size();
                    v->bytes = (uint8_t*)allocate(b.size() ? b.size() : 1);
                    memcpy(v->bytes, b.data(), b.size());
                }
            }
            *next = v;
            next = &v->next;
        }
        while (*head) head = &(*head)->next;
        *head = p;
    }
    bool command(const std::vector<std::string>& t) {
        if (t.empty()) return true;
        const std::string& c = t[0];
        auto need = [&](size_t n) { if (t.size() < n) { error = "too few arguments for " + c; return false; } return true; };
        if (c == "lib") {
            if (!need(4)) return false;
            free_allocation(lib.name);
            lib.name = copy_string(t[1].c_str(), NULL);
            lib.unit = strtod(t[2].c_str(), NULL);
            lib.precision = strtod(t[3].c_str(), NULL);
        } else if (c == "cell" || c == "xcell") {
            if (!need(2)) return false;
            cur = (Cell*)allocate_clear(sizeof(Cell));
            cur->name = copy_string(t[1].c_str(), NULL);
            pool[t[1]] = cur;
            if (c == "cell") lib.cell_array.append(cur); else outside.push_back(cur);
            last_rep = NULL;
            last_obj = NULL;
            last_props = &cur->properties;
        } else if (c == "libprop") {
            if (!need(2)) return false;
            add_prop(&lib.properties, t);
        } else if (c == "prop") {
            if (!need(2) || !last_props) { error = "prop without target"; return false; }
            add_prop(last_props, t);
        } else if (c == "rep") {
            if (!need(2) || !last_rep) { error = "rep without element"; return false; }
            Repetition& r = *last_rep;
            r.clear();
            if (t[1] == "rect" && need(6)) {
                r.type = RepetitionType::Rectangular;
                r.columns = strtoull(t[2].c_str(), NULL, 10); r.rows = strtoull(t[3].c_str(), NULL, 10);
                r.spacing = Vec2{strtod(t[4].c_str(), NULL), strtod(t[5].c_str(), NULL)};
            } else if (t[1] == "reg" && need(8)) {
                r.type = RepetitionType::Regular;
                r.columns = strtoull(t[2].c_str(), NULL, 10); r.rows = strtoull(t[3].c_str(), NULL, 10);
                r.v1 = Vec2{strtod(t[4].c_str(), NULL), strtod(t[5].c_str(), NULL)};
                r.v2 = Vec2{strtod(t[6].c_str(), NULL), strtod(t[7].c_str(), NULL)};
            } else if (t[1] == "ex" && need(3)) {
                r.type = RepetitionType::Explicit;
                for (size_t i = 3; i < t.size(); i++) r.offsets.append(vec(t[i]));
            } else if ((t[1] == "exx" || t[1] == "exy") && need(3)) {
                r.type = t[1] == "exx" ? RepetitionType::ExplicitX : RepetitionType::ExplicitY;
                for (size_t i = 3; i < t.size(); i++) r.coords.append(strtod(t[i].c_str(), NULL));
            } else { error = "bad rep"; return false; }
        } else if (c == "xf") {
            if (!need(4) || !last_obj) { error = "xf without element"; return false; }
            const std::string& op = t[1];
            if (op == "scale") {
                double m = strtod(t[2].c_str(), NULL);
                Vec2 ce = vec(t[3]);
                if (last_kind == 'p') ((Polygon*)last_obj)->scale(Vec2{m, m}, ce);
                else if (last_kind == 'f') ((FlexPath*)last_obj)->scale(m, ce);
                else if (last_kind == 'r') ((RobustPath*)last_obj)->scale(m, ce);
                else { error = "xf scale on this element kind"; return false; }
            } else if (op == "mirror" && need(4)) {
                Vec2 a = vec(t[2]), b2 = vec(t[3]);
                if (last_kind == 'p') ((Polygon*)last_obj)->mirror(a, b2);
                else if (last_kind == 'f') ((FlexPath*)last_obj)->mirror(a, b2);
                else if (last_kind == 'r') ((RobustPath*)last_obj)->mirror(a, b2);
                else { error = "xf mirror on this element kind"; return false; }
            } else if (op == "rotate") {
                double a = strtod(t[2].c_str(), NULL);
                Vec2 ce = vec(t[3]);
                if (last_kind == 'p') ((Polygon*)last_obj)->rotate(a, ce);
                else if (last_kind == 'f') ((FlexPath*)last_obj)->rotate(a, ce);
                else if (last_kind == 'r') ((RobustPath*)last_obj)->rotate(a, ce);
                else { error = "xf rotate on this element kind"; return false; }
            } else if (op == "transform" && need(6)) {
                double m = strtod(t[2].c_str(), NULL), rot = strtod(t[4].c_str(), NULL);
                bool xr = t[3] != "0";
                Vec2 o = vec(t[5]);
                if (last_kind == 'p') ((Polygon*)last_obj)->transform(m, xr, rot, o);
                else if (last_kind == 'f') ((FlexPath*)last_obj)->transform(m, xr, rot, o);
                else if (last_kind == 'r') ((RobustPath*)last_obj)->transform(m, xr, rot, o);
                else if (last_kind == 'l') ((Label*)last_obj)->transform(m, xr, rot, o);
                else ((Reference*)last_obj)->transform(m, xr, rot, o);
            } else { error = "bad xf"; return false; }
        } else if (!cur) {
            error = "element outside a cell";
            return false;
        } else if (c == "poly") {
            if (!need(4)) return false;
            Polygon* p = (Polygon*)allocate_clear(sizeof(Polygon));
            p->tag = make_tag((uint32_t)strtoul(t[1].c_str(), NULL, 10), (uint32_t)strtoul(t[2].c_str(), NULL, 10));
            for (size_t i = 3; i < t.size(); i++) p->point_array.append(vec(t[i]));
            cur->polygon_array.append(p);
            last_kind = 'p'; last_obj = p;
            last_rep = &p->repetition; last_props = &p->properties;
        } else if (c == "fpath" || c == "rpath") {
            if (!need(5)) return false;
            bool simple = t[1] != "0", scalew = t[2] != "0";
            size_t n = strtoul(t[3].c_str(), NULL, 10), k = 4;
            if (!need(k + n + 1)) return false;
            std::vector<Vec2> pts;
            for (size_t i = 0; i < n; i++) pts.push_back(vec(t[k++]));
            size_t nel = strtoul(t[k++].c_str(), NULL, 10);
            if (!need(k + 7 * nel) || n < 1 || nel < 1) { error = "bad path"; return false; }
            std::vector<double> w(nel), off(nel), eu(nel), ev(nel);
            std::vector<Tag> tg(nel);
            std::vector<EndType> en(nel);
            for (size_t e = 0; e < nel; e++) {
                tg[e] = make_tag((uint32_t)strtoul(t[k].c_str(), NULL, 10), (uint32_t)strtoul(t[k + 1].c_str(), NULL, 10));
                w[e] = strtod(t[k + 2].c_str(), NULL); off[e] = strtod(t[k + 3].c_str(), NULL);
                en[e] = end_of(t[k + 4]); eu[e] = strtod(t[k + 5].c_str(), NULL); ev[e] = strtod(t[k + 6].c_str(), NULL);
                k += 7;
            }
            double tol = 1e-5;  // curve tolerance (library units); also the merge distance of remove_overlapping_points
            if (c == "fpath") {
                FlexPath* fp = (FlexPath*)allocate_clear(sizeof(FlexPath));
                for (auto& x : w) x *= 2;  // init takes full widths
                fp->init(pts[0], nel, w.data(), off.data(), tol, tg.data());
                for (size_t i = 1; i < n; i++) fp->segment(pts[i], NULL, NULL, false);
                fp->simple_path = simple; fp->scale_width = scalew;
                for (size_t e = 0; e < nel; e++) { fp->elements[e].end_type = en[e]; fp->elements[e].end_extensions = Vec2{eu[e], ev[e]}; }
                cur->flexpath_array.append(fp);
                last_kind = 'f'; last_obj = fp;
                last_rep = &fp->repetition; last_props = &fp->properties;
            } else {
                RobustPath* rp = (RobustPath*)allocate_clear(sizeof(RobustPath));
                rp->init(pts[0], nel, w.data(), off.data(), tol, 1000, tg.data());
                for (size_t i = 1; i < n; i++) rp->segment(pts[i], NULL, NULL, false);
                rp->simple_path = simple; rp->scale_width = scalew;
                for (size_t e = 0; e < nel; e++) { rp->elements[e].end_type = en[e]; rp->elements[e].end_extensions = Vec2{eu[e], ev[e]}; }
                cur->robustpath_array.append(rp);
                last_kind = 'r'; last_obj = rp;
                last_rep = &rp->repetition; last_props = &rp->properties;
            }
        } else if (c == "label") {
            if (!need(5)) return false;
            Label* l = (Label*)allocate_clear(sizeof(Label));
            l->tag = make_tag((uint32_t)strtoul(t[1].c_str(), NULL, 10), (uint32_t)strtoul(t[2].c_str(), NULL, 10));
            l->origin = vec(t[3]);
            std::vector<uint8_t> b = unhex(t[4]);
            b.push_back(0);
            l->text = copy_string((const char*)b.data(), NULL);
            l->magnification = 1;
            l->anchor = Anchor::SW;
            if (t.size() >= 9) {
                l->anchor = (Anchor)atoi(t[5].c_str()); l->rotation = strtod(t[6].c_str(), NULL);
                l->magnification = strtod(t[7].c_str(), NULL); l->x_reflection = t[8] != "0";
            }
            cur->label_array.append(l);
            last_kind = 'l'; last_obj = l;
            last_rep = &l->repetition; last_props = &l->properties;
        } else if (c == "ref" || c == "refname") {
            if (!need(6)) return false;
            Reference* r = (Reference*)allocate_clear(sizeof(Reference));
            r->origin = vec(t[2]);
            r->rotation = strtod(t[3].c_str(), NULL);
            r->magnification = strtod(t[4].c_str(), NULL);
            r->x_reflection = t[5] != "0";
            r->type = ReferenceType::Name;
            r->name = copy_string(t[1].c_str(), NULL);
            pending.push_back({r, t[1], c == "refname"});
            cur->reference_array.append(r);
            last_kind = 'R'; last_obj = r;
            last_rep = &r->repetition; last_props = &r->properties;
        } else {
            error = "unknown command " + c;
            return false;
        }
        return error.empty();
    }
    void finish() {
        for (auto& p : pending) {
            auto it = pool.find(p.name);
            if (!p.force_name && it != pool.end()) {
                free_allocation(p.ref->name);
                p.ref->type = ReferenceType::Cell;
                p.ref->cell = it->second;
            }
        }
    }
    void destroy() {
        for (Cell* c : outside) { c->free_all(); free_allocation(c); }
        outside.clear();
        lib.free_all();
    }
    Cell* find(const std::string& name) {
        for (uint64_t i = 0; i < lib.cell_array.count; i++)
            if (name == lib.cell_array[i]->name) return lib.cell_array[i];
        return NULL;
    }
};

static std::string scratch = "/verif/build/scratch";

static std::string do_read(const std::string& path, double unit, double tol) {
    ErrorCode err = ErrorCode::NoError;
    Library lib = read_oas(path.c_str(), unit, tol, &err);
    std::string out = "\"err\":" + std::to_string((int)err) + ",\"lib\":" + dump::library(lib);
    lib.free_all();
    return out;
}

int main(int argc, char** argv) {
    std::string jobs;
    for (int i = 1; i < argc; i++) {
        std::string a = argv[i];
        if (a == "--jobs" && i + 1 < argc) jobs = argv[++i];
        else if (a == "--scratch" && i + 1 < argc) scratch = argv[++i];
    }
    set_error_logger(NULL);
    FILE* f = jobs.empty() ? stdin : fopen(jobs.c_str(), "r");
    if (!f) { perror("jobs"); return 2; }
    std::string tmp = scratch + "/in." + std::to_string(getpid()) + ".oas";
    char* line = NULL;
    size_t cap = 0;
    long idx = 0;
    while (getline(&line, &cap, f) > 0) {
        std::string s(line);
        while (!s.empty() && (s.back() == '\n' || s.back() == '\r')) s.pop_back();
        if (s.empty()) continue;
        std::vector<std::string> parts = split(s, ';');
        std::vector<std::string> t = tokens(parts[0]);
        std::string res = "{\"job\":" + std::to_string(idx);
        if (t.empty()) {
            res += ",\"kind\":\"bad\",\"error\":\"empty job\"";
        } else if (t[0] == "read" || t[0] == "readhex") {
            double unit = t.size() > 2 ? strtod(t[2].c_str(), NULL) : 0;
            double tol = t.size() > 3 ? strtod(t[3].c_str(), NULL) : 0;
            std::string path = t.size() > 1 ? t[1] : "";
            if (t[0] == "readhex") {
                std::vector<uint8_t> b = unhex(path);
                FILE* o = fopen(tmp.c_str(), "wb");
                if (!o) { perror("scratch"); return 2; }
                fwrite(b.data(), 1, b.size(), o);
                fclose(o);
                path = tmp;
            }
            res += ",\"kind\":\"read\"," + do_read(path, unit, tol);
        } else if (t[0] == "validate" && t.size() > 1) {
            uint32_t sig = 0;
            ErrorCode err = ErrorCode::NoError;
            bool ok = oas_validate(t[1].c_str(), &sig, &err);
            res += ",\"kind\":\"validate\",\"ok\":" + vf::jbool(ok) + ",\"sig\":" + std::to_string(sig) + ",\"err\":" + std::to_string((int)err);
        } else if (t[0] == "precision" && t.size() > 1) {
            double p = 0;
            ErrorCode err = oas_precision(t[1].c_str(), p);
            res += ",\"kind\":\"precision\",\"precision\":" + vf::jnum(p) + ",\"err\":" + std::to_string((int)err);
        } else if (t[0] == "history" && t.size() >= 3) {
            std::vector<std::string> segs = split(s, '|');
            std::vector<std::string> bparts = split(segs[0], ';');
            Builder b;
            bool ok = true;
            for (size_t i = 1; i < bparts.size() && ok; i++) ok = b.command(tokens(bparts[i]));
            if (!ok) {
                res += ",\"kind\":\"bad\",\"error\":" + vf::jstr(b.error);
            } else {
                b.finish();
                double ctol = strtod(t[2].c_str(), NULL);
                std::vector<std::string> writes, opsdone;
                std::string last;
                int k = 0;
                for (size_t i = 1; i < segs.size(); i++) {
                    std::vector<std::string> o = tokens(segs[i]);
                    if (o.empty()) continue;
                    if (o[0] == "write" && o.size() >= 3) {
                        last = t[1] + "." + std::to_string(k++) + ".oas";
                        std::string src = dump::library(b.lib);
                        ErrorCode err = b.lib.write_oas(last.c_str(), ctol, (uint8_t)atoi(o[1].c_str()), (uint16_t)strtoul(o[2].c_str(), NULL, 0));
                        writes.push_back("{\"path\":" + vf::jstr(last) + ",\"level\":" + o[1] + ",\"flags\":" + std::to_string(strtoul(o[2].c_str(), NULL, 0)) +
                                         ",\"err\":" + std::to_string((int)err) + ",\"src\":" + src + "}");
                        opsdone.push_back(vf::jstr("write"));
                    } else if (o[0] == "addref" && o.size() >= 4) {
                        Cell* pa = b.find(o[1]);
                        Cell* ch = b.find(o[2]);
                        if (pa && ch && pa != ch) {
                            Reference* r = (Reference*)allocate_clear(sizeof(Reference));
                            r->type = ReferenceType::Cell;
                            r->cell = ch;
                            r->origin = vec(o[3]);
                            r->magnification = 1;
                            pa->reference_array.append(r);
                            opsdone.push_back(vf::jstr("addref"));
                        } else opsdone.push_back(vf::jstr("addref:skipped"));
                    } else if (o[0] == "rmcell" && o.size() >= 2) {
                        Cell* c = b.find(o[1]);
                        if (c) {
                            b.lib.cell_array.remove_item(c);
                            b.outside.push_back(c);
                            opsdone.push_back(vf::jstr("rmcell"));
                        } else opsdone.push_back(vf::jstr("rmcell:skipped"));
                    } else if (o[0] == "reload") {
                        if (last.empty()) { opsdone.push_back(vf::jstr("reload:skipped")); continue; }
                        ErrorCode err = ErrorCode::NoError;
                        Library nl = read_oas(last.c_str(), 0, 0, &err);
                        b.destroy();
                        b.lib = nl;
                        opsdone.push_back(vf::jstr("reload:err" + std::to_string((int)err)));
                    } else opsdone.push_back(vf::jstr("unknown:" + o[0]));
                }
                res += ",\"kind\":\"history\",\"writes\":" + vf::jarr(writes) + ",\"ops\":" + vf::jarr(opsdone);
            }
            b.destroy();
        } else if (t[0] == "write" && t.size() >= 5) {
            Builder b;
            bool ok = true;
            for (size_t i = 1; i < parts.size() && ok; i++) ok = b.command(tokens(parts[i]));
            if (!ok) {
                res += ",\"kind\":\"bad\",\"error\":" + vf::jstr(b.error);
            } else {
                b.finish();
                std::string src = dump::library(b.lib);
                ErrorCode err = b.lib.write_oas(t[1].c_str(), strtod(t[4].c_str(), NULL), (uint8_t)atoi(t[2].c_str()), (uint16_t)strtoul(t[3].c_str(), NULL, 0));
                res += ",\"kind\":\"write\",\"err\":" + std::to_string((int)err) + ",\"src\":" + src;
            }
            b.destroy();
        } else {
            res += ",\"kind\":\"bad\",\"error\":\"unknown job\"";
        }
        res += "}\n";
        fwrite(res.data(), 1, res.size(), stdout);
        fflush(stdout);
        idx++;
    }
    unlink(tmp.c_str());
    return 0;
}
