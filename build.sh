#!/bin/bash
# Rebuild gdstk from /repo's *working tree* into /verif/build/lib-<hash>/ (ASan, NDEBUG like the
# shipped RelWithDebInfo).  Prints the directory.  Cached by content hash of src/include/external.
set -e
REPO=${VERIF_REPO:-/repo}
VERIF=$(cd "$(dirname "$0")" && pwd)
FLAVOR=${1:-asan}
case "$FLAVOR" in
  asan) CXXFLAGS="-O1 -g -fsanitize=address -fno-omit-frame-pointer" ;;
  fast) CXXFLAGS="-O2 -g" ;;
  *) echo "unknown flavor $FLAVOR" >&2; exit 2 ;;
esac
HASH=$( (cd "$REPO" && find src include external -type f \( -name '*.cpp' -o -name '*.hpp' -o -name '*.h' \) -print0 | sort -z | xargs -0 sha1sum; echo "$FLAVOR $CXXFLAGS GDSTK_VERIF") | sha1sum | cut -c1-16)
OUT="$VERIF/build/lib-$FLAVOR-$HASH"
if [ -f "$OUT/libgdstk.a" ]; then echo "$OUT"; exit 0; fi
# prune old caches of this flavor (keep the 40 most recent and anything younger than 2 h)
ls -dt "$VERIF"/build/lib-$FLAVOR-* 2>/dev/null | tail -n +41 | while read d; do if [ -n "$(find "$d" -maxdepth 0 -mmin +120)" ]; then rm -rf "$d"; fi; done || true
TMP="$OUT.tmp.$$"
rm -rf "$TMP"; mkdir -p "$TMP"
SRCS=$(ls "$REPO"/src/*.cpp "$REPO"/external/clipper/clipper.cpp)
fail=0
pids=()
for s in $SRCS; do
  o="$TMP/$(basename "$s" .cpp).o"
  g++ -std=c++11 $CXXFLAGS -DNDEBUG -DGDSTK_VERIF -I"$REPO/include" -I"$REPO/external" -c "$s" -o "$o" 2>"$o.err" &
  pids+=($!)
done
for p in "${pids[@]}"; do wait $p || fail=1; done
if [ $fail -ne 0 ]; then cat "$TMP"/*.err >&2; rm -rf "$TMP"; echo "BUILD FAILED" >&2; exit 3; fi
ar rcs "$TMP/libgdstk.a" "$TMP"/*.o
rm -f "$TMP"/*.o "$TMP"/*.err
if [ -d "$OUT" ]; then rm -rf "$TMP"; else mv "$TMP" "$OUT"; fi
echo "$OUT"
