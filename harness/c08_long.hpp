// c08_long.hpp — family 'simple.gds.long': simple robust paths whose centre line has more than 8190 vertices,
// written as GDSII PATH (several XY records) and decoded HERE with an own record walker (no gdstk reader):
// the concatenated XY points must lie on the exact centre curve, in order, from its start to its end, without
// leaving part of it out, and WIDTH must be the element's width.  Included by c08.cpp (uses its Run* R).
#pragma once

namespace c08long {
using namespace c08;
using namespace gdstk;
using namespace vf;

struct GdsPath { std::vector<V> pts; double width = NAN; int xy_records = 0; std::vector<int> xy_sizes; int layer = -1; };

static double gds_real8(const unsigned char* p) {  // excess-64 base-16 real
    int sign = p[0] & 0x80, exp = (p[0] & 0x7f) - 64;
    double m = 0;
    for (int i = 1; i < 8; i++) m = m * 256 + p[i];
    double v = m / 72057594037927936.0 * pow(16.0, exp);  // mantissa / 2^56
    return sign ? -v : v;
}
static int32_t be32(const unsigned char* p) { return (int32_t)(((uint32_t)p[0] << 24) | ((uint32_t)p[1] << 16) | ((uint32_t)p[2] << 8) | p[3]); }

// own GDSII walk: PATH elements with WIDTH and all their XY records, coordinates in user units
static bool decode_gds_paths(const std::string& file, std::vector<GdsPath>& out, std::string& err) {
    FILE* f = fopen(file.c_str(), "rb");
    if (!f) { err = "cannot open"; return false; }
    std::vector<unsigned char> d;
    unsigned char buf[65536];
    size_t r;
    while ((r = fread(buf, 1, sizeof buf, f)) > 0) d.insert(d.end(), buf, buf + r);
    fclose(f);
    double user_per_db = NAN;
    bool in_path = false;
    GdsPath cur;
    size_t p = 0;
    while (p + 4 <= d.size()) {
        size_t len_ = ((size_t)d[p] << 8) | d[p + 1];
        int type = d[p + 2];
        if (len_ < 4 || p + len_ > d.size()) { err = "broken record framing"; return false; }
        const unsigned char* q = d.data() + p + 4;
        size_t n = len_ - 4;
        switch (type) {
            case 0x03: if (n >= 16) user_per_db = gds_real8(q); break;              // UNITS
            case 0x09: in_path = true; cur = GdsPath(); break;                       // PATH
            case 0x0D: if (in_path && n >= 2) cur.layer = (q[0] << 8) | q[1]; break; // LAYER
            case 0x0F: if (in_path && n >= 4) cur.width = be32(q); break;            // WIDTH (db units)
            case 0x10:                                                                // XY
                if (in_path) {
                    if (n % 8) { err = "XY record with an odd number of coordinates"; return false; }
                    cur.xy_records++;
                    cur.xy_sizes.push_back((int)(n / 8));
                    for (size_t i = 0; i + 8 <= n; i += 8) cur.pts.push_back(V{(double)be32(q + i), (double)be32(q + i + 4)});
                }
                break;
            case 0x11:                                                                // ENDEL
                if (in_path) { out.push_back(cur); in_path = false; }
                break;
            default: break;
        }
        p += len_;
        if (type == 0x04) break;  // ENDLIB
    }
    if (!(user_per_db > 0)) { err = "no UNITS record"; return false; }
    for (auto& g : out) { for (auto& v : g.pts) v = v * user_per_db; g.width *= user_per_db; }
    return true;
}

struct LongCase { int fam; int target; int nel; int ok; };  // fam 0: steered count (arc + short segments); 1: spiral of tangent half circles; 2: one long arc
static std::string lc_replay(const LongCase& c) { return fmt("long=%d target=%d nel=%d ok=%d", c.fam, c.target, c.nel, c.ok); }
static const char* FAMNAME[] = {"arc + n short segments, vertex count of element 0 steered to the target", "spiral of tangent half circles (turn(R_i, pi), R growing from 50)", "one circular arc R=50, 1.9 pi, tolerance 2e-6, max_evals 20000"};
static std::string lc_json(const LongCase& c) {
    return jobj({{"family", jstr(FAMNAME[c.fam])}, {"target_vertices_element0", jint(c.target)}, {"elements", jint(c.nel)}, {"offset", jstr(c.ok ? "constant1.5" : "constant0")}, {"simple_path", jbool(true)}, {"format", jstr("gds")}});
}

struct LongBuilt {
    RobustPath path = {};
    std::vector<OSec> secs;
    double tol = 1e-3;
    ~LongBuilt() { path.clear(); }
};
static const double LW[2] = {2.0, 1.0}, LSIGN[2] = {1.0, -1.0};

static void lb_init(LongBuilt& b, const LongCase& c, double tol, uint64_t max_evals) {
    double w[2] = {LW[0], LW[1]}, o[2] = {c.ok ? 1.5 : 0.0, c.ok ? -1.5 : 0.0};
    Tag tg[2] = {make_tag(1, 0), make_tag(2, 0)};
    b.tol = tol;
    b.path.init(Vec2{1, -2}, (uint64_t)c.nel, w, o, tol, max_evals, tg);
    b.path.scale_width = true;
    b.path.simple_path = true;
}
static uint64_t centre_count(const RobustPath& p, int e) {  // how many vertices to_gds will write (used for steering / reporting only)
    Array<Vec2> a = {};
    p.element_center(p.elements + e, a);
    uint64_t n = a.count;
    a.clear();
    return n;
}
// fam 0: elliptical arc (12 x ry, ry chosen so that (target - 1 - arc vertices) is a multiple of 4, then straight
// segments of length 0.02 along the end tangent (4 vertices each)
static bool build_steered(LongBuilt& b, const LongCase& c, std::string& note) {
    for (int tr = 0; tr < 200; tr++) {
        // an elliptical arc: its adaptive sampling has steps of varying size, so its vertex count takes every residue
        // modulo 4 as the minor radius varies (a circular arc always gives a multiple of 4)
        const double rx = 12, ry = 6 + 0.05 * tr, a0 = -M_PI / 2, a1 = -M_PI / 6;
        LongBuilt t;
        lb_init(t, c, 1e-3, 1000);
        t.path.arc(rx, ry, a0, a1, 0, NULL, NULL);
        int64_t m = (int64_t)centre_count(t.path, 0) - 1, rest = (int64_t)c.target - 1 - m;
        if (rest < 4 || rest % 4) continue;
        lb_init(b, c, 1e-3, 1000);
        b.path.arc(rx, ry, a0, a1, 0, NULL, NULL);
        V ctr = V{1, -2} - V{rx * cos(a0), ry * sin(a0)};
        b.secs.push_back(OSec::arc(ctr, rx, ry, a0, a1, 0));
        V pen = b.secs.back().eval(1), dir = unit(b.secs.back().der(1));
        for (int64_t i = 0; i < rest / 4; i++) {
            V e = pen + dir * 0.02;
            b.path.segment(Vec2{0.02 * dir.x, 0.02 * dir.y}, NULL, NULL, true);
            b.secs.push_back(OSec::segment(pen, e));
            pen = e;
        }
        note = fmt("minor radius %.4g, %lld segments", ry, (long long)(rest / 4));
        return true;
    }
    return false;
}
static void build_spiral(LongBuilt& b, const LongCase& c) {
    lb_init(b, c, 1e-3, 1000);
    V pen = {1, -2};
    double dir = 0, R = 50;
    // each half circle contributes ~ pi / (2 sqrt(2 tol / R)) vertices
    double est = 1;
    while (est < c.target + 300) {
        b.path.turn(R, M_PI, NULL, NULL);
        V ctr = pen + V{-sin(dir), cos(dir)} * R;
        b.secs.push_back(OSec::arc(ctr, R, R, dir - M_PI / 2, dir + M_PI / 2, 0));
        pen = b.secs.back().eval(1);
        dir += M_PI;
        est += M_PI / (2 * sqrt(2 * 1e-3 / R));
        R += 3;
    }
}
static void build_long_arc(LongBuilt& b, const LongCase& c) {
    lb_init(b, c, 2e-6, 20000);
    b.path.arc(50, 50, -M_PI / 2, -M_PI / 2 + 1.9 * M_PI, 0, NULL, NULL);
    V ctr = V{1, -2} - V{50 * cos(-M_PI / 2), 50 * sin(-M_PI / 2)};
    b.secs.push_back(OSec::arc(ctr, 50, 50, -M_PI / 2, -M_PI / 2 + 1.9 * M_PI, 0));
}

static void lviol(Run* R, const LongCase& c, int el, const std::string& cls, const std::string& detail, const JFields& extra = {}) {
    JFields t = {{"family", jint(c.fam)}, {"elements", jint(c.nel)}, {"element", jint(el)}, {"offset", jstr(c.ok ? "constant1.5" : "constant0")}, {"format", jstr("gds")}};
    for (auto& e : extra) t.push_back(e);
    R->violation("simple.gds.long", cls, t, lc_json(c), detail, lc_replay(c));
    if (getenv("C08_VERBOSE")) fprintf(stderr, "VIOLATION simple.gds.long/%s el=%d: %s\n", cls.c_str(), el, detail.c_str());
}

static void run_long(Run* R, const LongCase& c) {
    LongBuilt b;
    std::string note;
    if (c.fam == 0) { if (!build_steered(b, c, note)) { R->count("long_steering_failed"); return; } }
    else if (c.fam == 1) build_spiral(b, c);
    else build_long_arc(b, c);
    R->count("cases");
    R->count("long_cases");
    uint64_t nv[2] = {0, 0};
    for (int e = 0; e < c.nel; e++) nv[e] = centre_count(b.path, e);
    if (c.fam == 0 && (int64_t)nv[0] != c.target) R->count("long_steering_off_target");
    bool multi = false;
    for (int e = 0; e < c.nel; e++) multi |= nv[e] > 8190;
    if (multi) R->count("nontrivial");
    if (multi) R->count("long_paths_with_more_than_one_xy_record");
    R->outcome("simple.gds.long", fmt("fam %d vertices %llu %llu", c.fam, (unsigned long long)nv[0], (unsigned long long)nv[1]));
    // write through the library writer
    Library lib = {};
    lib.init("L", 1e-6, 1e-12);
    Cell cell = {};
    cell.name = copy_string("C", NULL);
    cell.robustpath_array.append(&b.path);
    lib.cell_array.append(&cell);
    tm ts = {};
    ts.tm_year = 100; ts.tm_mday = 1;
    std::string fn = R->scratch + fmt("/long%d.gds", (int)getpid());
    lib.write_gds(fn.c_str(), 0, &ts);
    cell.robustpath_array.clear();
    lib.cell_array.clear();
    free_allocation(cell.name);
    free_allocation(lib.name);
    std::vector<GdsPath> gp;
    std::string err;
    if (!decode_gds_paths(fn, gp, err) || (int)gp.size() != c.nel) {
        lviol(R, c, 0, "records", fmt("own GDSII walk: %s; %zu PATH elements for %d path elements", err.c_str(), gp.size(), c.nel));
        return;
    }
    const double grid = 1e-6, near_tol = b.tol + 2 * grid, cover_tol = 4 * b.tol + 2 * grid;
    for (int e = 0; e < c.nel; e++) {
        const GdsPath& g = gp[e];
        R->count("long_xy_records", g.xy_records);
        R->count("long_vertices_decoded", (int64_t)g.pts.size());
        JFields ex = {{"vertices", jint((int64_t)g.pts.size())}, {"xy_records", jint(g.xy_records)}};
        if (!(fabs(g.width - LW[e]) <= 2 * grid)) lviol(R, c, e, "width", fmt("WIDTH %.9g, the element's width is %.9g", g.width, LW[e]), ex);
        for (int s : g.xy_sizes) if (s > 8191) lviol(R, c, e, "xy_record_size", fmt("XY record with %d points does not fit a GDSII record", s), ex);
        // exact centre curve, densely sampled (chord error < 1e-7): segments exactly, arcs by angle step
        double off = (c.ok ? 1.5 : 0.0) * LSIGN[e];
        std::vector<V> X;
        double maxchord = 0;
        for (auto& s : b.secs) {
            int n = 1;
            double seclen = len(s.eval(1) - s.eval(0));
            if (s.type == 1) { double rr = std::max(s.rx, s.ry) + fabs(off); n = (int)ceil(fabs(s.t1 - s.t0) / sqrt(8e-7 / rr)) + 1; seclen = rr * fabs(s.t1 - s.t0); }
            maxchord = std::max(maxchord, seclen / 4);  // the sampler never steps by more than a quarter of a section
            for (int k = (X.empty() ? 0 : 1); k <= n; k++) {
                double u = (double)k / n;
                X.push_back(s.eval(u) + leftn(s.der(u)) * off);
            }
        }
        if (g.pts.size() < 2) { lviol(R, c, e, "centre_line", "fewer than 2 decoded points", ex); continue; }
        if (len(g.pts.front() - X.front()) > near_tol) lviol(R, c, e, "centre_line", fmt("first decoded point (%.9g, %.9g) is not the start of the centre curve (%.9g, %.9g)", g.pts.front().x, g.pts.front().y, X.front().x, X.front().y), ex);
        if (len(g.pts.back() - X.back()) > near_tol) lviol(R, c, e, "centre_line", fmt("last decoded point (%.9g, %.9g) is not the end of the centre curve (%.9g, %.9g)", g.pts.back().x, g.pts.back().y, X.back().x, X.back().y), ex);
        // in order: each decoded point lies on the exact curve at or after its predecessor's place
        size_t at = 0;
        bool bad = false;
        for (size_t i = 0; i < g.pts.size() && !bad; i++) {
            V q = g.pts[i];
            size_t k = at > 1 ? at - 1 : 0;
            while (k + 1 < X.size() && dist_seg(q, X[k], X[k + 1]) > near_tol) k++;
            if (k + 1 >= X.size()) {
                // where is it, if anywhere?
                double best = INFINITY; size_t bk = 0;
                for (size_t j = 0; j + 1 < X.size(); j++) { double dd = dist_seg(q, X[j], X[j + 1]); if (dd < best) { best = dd; bk = j; } }
                int rec = 0, acc = 0;
                for (int s : g.xy_sizes) { if ((int)i < acc + s) break; acc += s; rec++; }
                lviol(R, c, e, "order", fmt("decoded point %zu of %zu (XY record %d of %d) at (%.9g, %.9g) does not lie on the centre curve at or after its predecessor (curve position %.4f%%): nearest curve point is %.3g away at %.4f%%",
                                           i, g.pts.size(), rec + 1, g.xy_records, q.x, q.y, 100.0 * at / X.size(), best, 100.0 * bk / X.size()), ex);
                bad = true;
                break;
            }
            double dcur = dist_seg(q, X[k], X[k + 1]);
            while (k + 2 < X.size() && dist_seg(q, X[k + 1], X[k + 2]) <= dcur) { k++; dcur = dist_seg(q, X[k], X[k + 1]); }
            at = k;
            if (i > 0 && len(q - g.pts[i - 1]) > maxchord + 2 * grid + b.tol) {
                lviol(R, c, e, "continuity", fmt("decoded points %zu and %zu are %.6g apart, more than a quarter of the longest section (%.6g)", i - 1, i, len(q - g.pts[i - 1]), maxchord), ex);
                bad = true;
            }
        }
        if (bad) continue;
        // nothing left out: every exact sample is near the decoded polyline, searched forward only
        size_t j = 0;
        size_t stride = std::max<size_t>(1, X.size() / 200000);
        for (size_t k = 0; k < X.size(); k += stride) {
            size_t jj = j;
            while (jj + 1 < g.pts.size() && dist_seg(X[k], g.pts[jj], g.pts[jj + 1]) > cover_tol) jj++;
            if (jj + 1 >= g.pts.size()) {
                lviol(R, c, e, "coverage", fmt("centre curve point (%.9g, %.9g) at %.4f%% of the curve is farther than %.3g from the decoded centre line after vertex %zu", X[k].x, X[k].y, 100.0 * k / X.size(), cover_tol, j), ex);
                break;
            }
            j = jj;
        }
    }
}

static std::vector<LongCase> long_cases(bool thorough) {
    std::vector<LongCase> v;
    std::vector<int> targets = thorough ? std::vector<int>{8189, 8190, 8191, 8192, 8193, 10000, 16379, 16380, 16381, 16382, 24571}
                                        : std::vector<int>{8190, 8191, 16380, 16381};
    for (int t : targets) for (int nel = 1; nel <= 2; nel++) for (int ok = 0; ok < 2; ok++) v.push_back({0, t, nel, ok});
    if (thorough) {
        for (int t : {8190, 16380}) for (int nel = 1; nel <= 2; nel++) for (int ok = 0; ok < 2; ok++) v.push_back({1, t, nel, ok});
        for (int nel = 1; nel <= 2; nel++) for (int ok = 0; ok < 2; ok++) v.push_back({2, 0, nel, ok});
    } else {
        v.push_back({1, 8190, 1, 0}); v.push_back({1, 8190, 2, 1}); v.push_back({2, 0, 1, 1});
    }
    return v;
}

static bool stage_long(Run* R) {
    auto cases = long_cases(R->thorough());
    PFOptions opt;
    opt.case_timeout_s = 60;
    opt.sub = "simple.gds.long";
    bool ok = parallel_for(*R, (int64_t)cases.size(), [&](int64_t i) { run_long(R, cases[i]); }, [&](int64_t i) { return lc_json(cases[i]); }, [&](int64_t i) { return lc_replay(cases[i]); }, opt);
    R->bound("simple.gds.long", fmt("simple robust paths with > 8190 centre-line vertices written as GDSII PATH and decoded by an own record walker: vertex count of element 0 steered to each of %s x elements{1,2} x offset{0,1.5}; spirals of tangent half circles; one 1.9 pi arc with 20000 evaluations (%zu paths)",
                                   R->thorough() ? "{8189..8193,10000,16379..16382,24571}" : "{8190,8191,16380,16381}", cases.size()), ok, (int64_t)cases.size());
    return ok;
}

}  // namespace c08long
