// hier.hpp — three-level hierarchies LEAF <- MID <- TOP for C09 (bounding boxes / hulls) and C06
// (flatten / hierarchy queries), with the harness's OWN affine composition as oracle: it walks the
// struct fields (polygon vertices, label origins, repetition fields, reference placement) and never
// calls get_polygons/flatten/bounding_box/convex_hull/get_offsets.  Path outlines are taken from the
// UNTRANSFORMED source element's to_polygons (outline correctness is C07/C08's business).
#pragma once
#include <gdstk/gdstk.hpp>

#include <string>
#include <vector>

#include "dump.hpp"
#include "vf.hpp"

namespace hier {
using namespace gdstk;

struct Aff {  // p' = (a x + b y + tx, c x + d y + ty); plus the label placement bookkeeping
    double a = 1, b = 0, c = 0, d = 1, tx = 0, ty = 0;
    double rot = 0, mag = 1;  // accumulated rotation / magnification of a label frame
    bool refl = false;
    Vec2 ap(const Vec2& p) const { return Vec2{a * p.x + b * p.y + tx, c * p.x + d * p.y + ty}; }
};
// placement of a reference (magnify, reflect across x, rotate, translate by origin+off)
inline Aff placement(double mag, bool refl, double rot, Vec2 t) {
    double s = refl ? -1 : 1, co = cos(rot), si = sin(rot);
    Aff r;
    r.a = mag * co; r.b = -s * mag * si; r.c = mag * si; r.d = s * mag * co; r.tx = t.x; r.ty = t.y;
    r.rot = rot; r.mag = mag; r.refl = refl;
    return r;
}
// outer ∘ inner
inline Aff compose(const Aff& o, const Aff& i) {
    Aff r;
    r.a = o.a * i.a + o.b * i.c; r.b = o.a * i.b + o.b * i.d; r.tx = o.a * i.tx + o.b * i.ty + o.tx;
    r.c = o.c * i.a + o.d * i.c; r.d = o.c * i.b + o.d * i.d; r.ty = o.c * i.tx + o.d * i.ty + o.ty;
    r.rot = (o.refl ? -i.rot : i.rot) + o.rot;
    r.mag = o.mag * i.mag;
    r.refl = o.refl ^ i.refl;
    return r;
}

struct Shape { Tag tag; std::vector<Vec2> pts; int kind; };  // kind 0 polygon, 1 flexpath outline, 2 robustpath outline
struct Lab { Tag tag; std::string text; Vec2 origin; double rot, mag; bool refl; int anchor; };
struct Denot {
    std::vector<Shape> shapes;
    std::vector<Lab> labels;
    std::vector<Vec2> cloud() const {
        std::vector<Vec2> q;
        for (auto& s : shapes) for (auto& p : s.pts) q.push_back(p);
        for (auto& l : labels) q.push_back(l.origin);
        return q;
    }
};

inline Vec2 add(Vec2 a, Vec2 b) { return Vec2{a.x + b.x, a.y + b.y}; }

// Denotation of a cell to the given depth (-1 = all) under T.  filter/tag as in the queries.
inline void denote(const Cell* cell, int64_t depth, const Aff& T, bool filter, Tag tag, bool with_paths, Denot& out) {
    for (uint64_t i = 0; i < cell->polygon_array.count; i++) {
        const Polygon* p = cell->polygon_array[i];
        if (filter && p->tag != tag) continue;
        for (auto& off : dump::own_offsets(p->repetition)) {
            Shape s{p->tag, {}, 0};
            for (uint64_t k = 0; k < p->point_array.count; k++) s.pts.push_back(T.ap(add(p->point_array[k], off)));
            out.shapes.push_back(s);
        }
    }
    if (with_paths) {
        for (uint64_t i = 0; i < cell->flexpath_array.count; i++) {
            FlexPath* fp = cell->flexpath_array[i];
            Array<Polygon*> arr = {};
            fp->to_polygons(filter, tag, arr);
            for (uint64_t j = 0; j < arr.count; j++) {
                for (auto& off : dump::own_offsets(fp->repetition)) {
                    Shape s{arr[j]->tag, {}, 1};
                    for (uint64_t k = 0; k < arr[j]->point_array.count; k++) s.pts.push_back(T.ap(add(arr[j]->point_array[k], off)));
                    out.shapes.push_back(s);
                }
                arr[j]->clear();
                free_allocation(arr[j]);
            }
            arr.clear();
        }
        for (uint64_t i = 0; i < cell->robustpath_array.count; i++) {
            RobustPath* rp = cell->robustpath_array[i];
            Array<Polygon*> arr = {};
            rp->to_polygons(filter, tag, arr);
            for (uint64_t j = 0; j < arr.count; j++) {
                for (auto& off : dump::own_offsets(rp->repetition)) {
                    Shape s{arr[j]->tag, {}, 2};
                    for (uint64_t k = 0; k < arr[j]->point_array.count; k++) s.pts.push_back(T.ap(add(arr[j]->point_array[k], off)));
                    out.shapes.push_back(s);
                }
                arr[j]->clear();
                free_allocation(arr[j]);
            }
            arr.clear();
        }
    }
    for (uint64_t i = 0; i < cell->label_array.count; i++) {
        const Label* l = cell->label_array[i];
        if (filter && l->tag != tag) continue;
        for (auto& off : dump::own_offsets(l->repetition)) {
            Lab x;
            x.tag = l->tag; x.text = l->text; x.anchor = (int)l->anchor;
            x.origin = T.ap(add(l->origin, off));
            x.rot = (T.refl ? -l->rotation : l->rotation) + T.rot;
            x.mag = l->magnification * T.mag;
            x.refl = l->x_reflection ^ T.refl;
            out.labels.push_back(x);
        }
    }
    if (depth == 0) return;
    for (uint64_t i = 0; i < cell->reference_array.count; i++) {
        const Reference* r = cell->reference_array[i];
        if (r->type != ReferenceType::Cell) continue;
        for (auto& off : dump::own_offsets(r->repetition)) {
            Aff P = placement(r->magnification, r->x_reflection, r->rotation, add(r->origin, off));
            denote(r->cell, depth > 0 ? depth - 1 : -1, compose(T, P), filter, tag, with_paths, out);
        }
    }
}

// ---------------------------------------------------------------- world builder
static const double ROTS[] = {0, M_PI / 2, M_PI, 3 * M_PI / 2, 0.5, M_PI / 4, -M_PI / 2, M_PI / 2 + 8e-9};
static const int NROT = 6;      // the basic rotations (full product)
static const int NROT_NEG = 7;  // + the negative right angle (index 6), used with origin (0,0) and magnification 1 only
static const int NROT_EXT = 8;  // + an angle 8e-9 away from a right angle (index 7): not a multiple of pi/2, no shortcut applies
static const double MAGS[] = {1, 2, 0.5};  // index 2 (a reduction) is used by dedicated sub-checks only
static const Vec2 ORGS[] = {{0, 0}, {3, -2}};
enum { REP_NONE = 0, REP_RECT, REP_REGULAR, REP_EXPLICIT, REP_EXPLICIT_X, REP_EXPLICIT_Y, REP_REGULAR_1COL, REP_REGULAR_1ROW, NREP };
inline const char* rep_name(int r) { static const char* n[] = {"none", "rect2x3", "regular_skew", "explicit", "explicit_x", "explicit_y", "regular_1col_x4", "regular_3col_x1"}; return n[r]; }
inline void set_rep(Repetition& rep, int kind) {
    memset(&rep, 0, sizeof rep);
    switch (kind) {
        case REP_RECT: rep.type = RepetitionType::Rectangular; rep.columns = 2; rep.rows = 3; rep.spacing = Vec2{7, 5}; break;
        case REP_REGULAR: rep.type = RepetitionType::Regular; rep.columns = 3; rep.rows = 2; rep.v1 = Vec2{6, 2}; rep.v2 = Vec2{-1, 7}; break;
        case REP_EXPLICIT: rep.type = RepetitionType::Explicit; rep.offsets.append(Vec2{10, 0}); rep.offsets.append(Vec2{0, 10}); rep.offsets.append(Vec2{8, 8}); break;
        case REP_EXPLICIT_X: rep.type = RepetitionType::ExplicitX; rep.coords.append(-3); rep.coords.append(5); break;
        case REP_EXPLICIT_Y: rep.type = RepetitionType::ExplicitY; rep.coords.append(4); rep.coords.append(-6); break;
        case REP_REGULAR_1COL: rep.type = RepetitionType::Regular; rep.columns = 1; rep.rows = 4; rep.v1 = Vec2{6, 2}; rep.v2 = Vec2{-1, 5}; break;
        case REP_REGULAR_1ROW: rep.type = RepetitionType::Regular; rep.columns = 3; rep.rows = 1; rep.v1 = Vec2{-4, 3}; rep.v2 = Vec2{5, 6}; break;
        default: rep.type = RepetitionType::None;
    }
}
struct RefSpec {
    int rot, refl, mag, org, rep;
    std::string str() const { return vf::fmt("rot=%.4g refl=%d mag=%g origin=(%g,%g) rep=%s", ROTS[rot], refl, MAGS[mag], ORGS[org].x, ORGS[org].y, rep_name(rep)); }
};
inline Polygon* mkpoly(std::initializer_list<Vec2> pts, Tag tag) {
    Polygon* p = (Polygon*)allocate_clear(sizeof(Polygon));
    p->tag = tag;
    for (auto& v : pts) p->point_array.append(v);
    return p;
}
inline Label* mklabel(const char* text, Vec2 at, Tag tag, double rot = 0, double mag = 1, bool refl = false) {
    Label* l = (Label*)allocate_clear(sizeof(Label));
    l->init(text);
    l->tag = tag; l->origin = at; l->rotation = rot; l->magnification = mag; l->x_reflection = refl; l->anchor = Anchor::SW;
    return l;
}
// 2-element flexpath, offsets +-, straight segments, one corner, miter/bevel joins, flush + extended ends
inline FlexPath* mkflex(Tag t0, Tag t1) {
    FlexPath* fp = (FlexPath*)allocate_clear(sizeof(FlexPath));
    double w[2] = {0.6, 0.4}, o[2] = {0.7, -0.6};
    Tag tg[2] = {t0, t1};
    fp->init(Vec2{0, 0}, 2, w, o, 1e-2, tg);
    fp->scale_width = true;
    fp->elements[0].join_type = JoinType::Miter;
    fp->elements[1].join_type = JoinType::Bevel;
    fp->elements[1].end_type = EndType::Extended;
    fp->elements[1].end_extensions = Vec2{0.3, 0.5};
    fp->segment(Vec2{4, 0}, NULL, NULL, false);
    fp->segment(Vec2{4, 3}, NULL, NULL, false);
    return fp;
}
// 2-element flexpath whose corners are drawn as circular bends (radius 1, room on both legs)
inline FlexPath* mkflex_bend(Tag t0, Tag t1) {
    FlexPath* fp = (FlexPath*)allocate_clear(sizeof(FlexPath));
    double w[2] = {0.4, 0.3}, o[2] = {0.5, -0.5};
    Tag tg[2] = {t0, t1};
    fp->init(Vec2{0, 0}, 2, w, o, 1e-2, tg);
    fp->scale_width = true;
    for (int e = 0; e < 2; e++) { fp->elements[e].bend_type = BendType::Circular; fp->elements[e].bend_radius = 1.0; }
    fp->segment(Vec2{5, 0}, NULL, NULL, false);
    fp->segment(Vec2{5, 4}, NULL, NULL, false);
    fp->segment(Vec2{9, 4}, NULL, NULL, false);
    return fp;
}
inline RobustPath* mkrobust(Tag t0, Tag t1) {
    RobustPath* rp = (RobustPath*)allocate_clear(sizeof(RobustPath));
    double w[2] = {0.5, 0.3}, o[2] = {0.5, -0.5};
    Tag tg[2] = {t0, t1};
    rp->init(Vec2{1, 1}, 2, w, o, 1e-2, 1000, tg);
    rp->scale_width = true;
    // extended ends of different lengths on the two elements: lengths that must follow every magnification element by element
    rp->elements[0].end_type = EndType::Extended; rp->elements[0].end_extensions = Vec2{0.2, 0.3};
    rp->elements[1].end_type = EndType::Extended; rp->elements[1].end_extensions = Vec2{0.4, 0.1};
    rp->segment(Vec2{5, 2}, NULL, NULL, false);
    return rp;
}
static const Tag TAG_A = make_tag(1, 0), TAG_B = make_tag(2, 0), TAG_C = make_tag(3, 1), TAG_ABSENT = make_tag(9, 9);

enum LeafKind {
    L_SQUARE = 0, L_THIN, L_TRIANGLE, L_LABEL1, L_LABEL2, L_ROW_H, L_ROW_V, L_ROW_D, L_ROW_AD, L_EMPTY, L_FLEX, L_ROBUST,
    L_POLY_RECT, L_POLY_REGULAR, L_POLY_EXPLICIT, L_POLY_EXPLICIT_X, L_POLY_EXPLICIT_Y, L_ZERO_AREA_AD, L_LABEL_EXPLICIT, L_MIXED, L_SAME_POINT, L_POLY_REG_1COL, L_LABEL_REG_1ROW, L_FLEX_BEND, NLEAF
};
inline const char* leaf_name(int k) {
    static const char* n[] = {"unit_square", "thin_rectangle", "triangle", "one_label", "two_labels", "label_row_horizontal", "label_row_vertical", "label_row_diagonal",
                              "label_row_antidiagonal", "empty", "flexpath_2el", "robustpath_2el", "polygon+rect_rep", "polygon+regular_rep", "polygon+explicit_rep",
                              "polygon+explicit_x_rep", "polygon+explicit_y_rep", "zero_area_polygon_antidiagonal", "label+explicit_rep", "mixed_poly_label_paths_with_reps", "five_labels_same_point", "polygon+regular_1col_rep", "label+regular_1row_rep", "flexpath_circular_bends"};
    return n[k];
}
inline bool leaf_degenerate(int k) { return k == L_LABEL1 || k == L_LABEL2 || (k >= L_ROW_H && k <= L_EMPTY) || k == L_ZERO_AREA_AD || k == L_SAME_POINT; }
inline void fill_leaf(Cell* c, int kind) {
    switch (kind) {
        case L_SQUARE: c->polygon_array.append(mkpoly({{0, 0}, {1, 0}, {1, 1}, {0, 1}}, TAG_A)); break;
        case L_THIN: c->polygon_array.append(mkpoly({{1, 2}, {5, 2}, {5, 2.5}, {1, 2.5}}, TAG_A)); break;
        case L_TRIANGLE: c->polygon_array.append(mkpoly({{0, 0}, {3, 1}, {1, 4}}, TAG_B)); break;
        case L_LABEL1: c->label_array.append(mklabel("one", Vec2{2, 1}, TAG_C, 0.3, 1.5, true)); break;
        case L_LABEL2: c->label_array.append(mklabel("p", Vec2{2, 1}, TAG_C)); c->label_array.append(mklabel("q", Vec2{-1, 3}, TAG_A, 1.0, 2, false)); break;
        case L_ROW_H: for (int i = 0; i < 5; i++) c->label_array.append(mklabel("h", Vec2{(double)i, 1}, TAG_C)); break;
        case L_ROW_V: for (int i = 0; i < 5; i++) c->label_array.append(mklabel("v", Vec2{1, (double)i}, TAG_C)); break;
        case L_ROW_D: for (int i = 0; i < 5; i++) c->label_array.append(mklabel("d", Vec2{(double)i, (double)i}, TAG_C)); break;
        case L_ROW_AD: for (int i = 0; i < 5; i++) c->label_array.append(mklabel("a", Vec2{(double)i, 4.0 - i}, TAG_C)); break;
        case L_EMPTY: break;
        case L_FLEX: c->flexpath_array.append(mkflex(TAG_A, TAG_B)); break;
        case L_ROBUST: c->robustpath_array.append(mkrobust(TAG_A, TAG_B)); break;
        case L_POLY_RECT: case L_POLY_REGULAR: case L_POLY_EXPLICIT: case L_POLY_EXPLICIT_X: case L_POLY_EXPLICIT_Y: {
            Polygon* p = mkpoly({{0, 0}, {2, 0}, {1, 1.5}}, TAG_A);
            set_rep(p->repetition, REP_RECT + (kind - L_POLY_RECT));
            c->polygon_array.append(p);
        } break;
        case L_ZERO_AREA_AD: c->polygon_array.append(mkpoly({{0, 4}, {1, 3}, {2, 2}, {3, 1}, {4, 0}}, TAG_A)); break;
        case L_LABEL_EXPLICIT: { Label* l = mklabel("r", Vec2{1, 1}, TAG_C); set_rep(l->repetition, REP_EXPLICIT); c->label_array.append(l); } break;
        case L_MIXED: {
            Polygon* p = mkpoly({{0, 0}, {2, 0}, {2, 1}, {0, 1}}, TAG_A);
            set_rep(p->repetition, REP_REGULAR);
            c->polygon_array.append(p);
            c->polygon_array.append(mkpoly({{0, 0}, {1, 2}, {-1, 1}}, TAG_B));
            Label* l = mklabel("m", Vec2{1, -1}, TAG_C, 0.4, 1.5, false);
            set_rep(l->repetition, REP_EXPLICIT_X);
            c->label_array.append(l);
            // near misses of the filter tags: same layer / other type and other layer / same type (a filter must compare the whole tag)
            c->label_array.append(mklabel("n", Vec2{2.5, -1.5}, make_tag(3, 0)));
            c->label_array.append(mklabel("o", Vec2{-1.5, -0.5}, make_tag(5, 1)));
            c->polygon_array.append(mkpoly({{3, 3}, {4, 3}, {3.5, 4}}, make_tag(1, 7)));
            c->polygon_array.append(mkpoly({{-2, 3}, {-1, 3}, {-1.5, 4}}, make_tag(6, 0)));
            FlexPath* fp = mkflex(TAG_A, TAG_B);
            set_rep(fp->repetition, REP_RECT);
            c->flexpath_array.append(fp);
            FlexPath* fp2 = mkflex(TAG_B, TAG_C);          // a path with an oblique Regular lattice: its outline polygons receive the
            set_rep(fp2->repetition, REP_REGULAR);         // repetition by copy, which must carry both lattice vectors
            fp2->translate(Vec2{-3, 7});
            c->flexpath_array.append(fp2);
            RobustPath* rp = mkrobust(TAG_B, TAG_C);
            set_rep(rp->repetition, REP_EXPLICIT);
            c->robustpath_array.append(rp);
        } break;
        case L_SAME_POINT: for (int i = 0; i < 5; i++) c->label_array.append(mklabel("s", Vec2{2, 3}, TAG_C)); break;
        case L_POLY_REG_1COL: { Polygon* p = mkpoly({{0, 0}, {2, 0}, {1, 1.5}}, TAG_A); set_rep(p->repetition, REP_REGULAR_1COL); c->polygon_array.append(p); } break;
        case L_FLEX_BEND: c->flexpath_array.append(mkflex_bend(TAG_A, TAG_B)); break;
        case L_LABEL_REG_1ROW: { Label* l = mklabel("g", Vec2{1, 1}, TAG_C); set_rep(l->repetition, REP_REGULAR_1ROW); c->label_array.append(l); } break;
    }
}
struct World {
    Cell *leaf = NULL, *mid = NULL, *top = NULL;
    Reference *r1 = NULL, *r2 = NULL;  // mid->leaf, top->mid
    void destroy() {
        for (Cell* c : {top, mid, leaf}) if (c) { c->free_all(); free_allocation(c); }
        leaf = mid = top = NULL;
    }
};
inline Reference* mkref(Cell* target, const RefSpec& s) {
    Reference* r = (Reference*)allocate_clear(sizeof(Reference));
    r->init(target);
    r->rotation = ROTS[s.rot]; r->x_reflection = s.refl; r->magnification = MAGS[s.mag]; r->origin = ORGS[s.org];
    set_rep(r->repetition, s.rep);
    return r;
}
// mid_extra: MID also owns a polygon, a label and a second (plain, rotated, magnified) reference to LEAF; top_extra: TOP owns a label
inline World build(int leaf_kind, const RefSpec& s1, const RefSpec& s2, bool mid_extra, bool top_extra) {
    World w;
    w.leaf = (Cell*)allocate_clear(sizeof(Cell)); w.leaf->init("LEAF");
    w.mid = (Cell*)allocate_clear(sizeof(Cell)); w.mid->init("MID");
    w.top = (Cell*)allocate_clear(sizeof(Cell)); w.top->init("TOP");
    fill_leaf(w.leaf, leaf_kind);
    w.r1 = mkref(w.leaf, s1);
    w.mid->reference_array.append(w.r1);
    if (mid_extra) {
        w.mid->polygon_array.append(mkpoly({{-2, -2}, {-1, -2}, {-1.5, -1}}, TAG_B));
        w.mid->label_array.append(mklabel("mid", Vec2{0.5, 0.5}, TAG_A, 0.2, 1, true));
        // a SECOND reference to LEAF, listed after the first: no repetition, quarter turn, magnified, displaced.  Code that
        // accumulates the contributions of several references into one array (hulls, boxes, element lists) must keep them apart.
        Reference* extra = (Reference*)allocate_clear(sizeof(Reference));
        extra->init(w.leaf);
        extra->rotation = M_PI / 2; extra->magnification = 2; extra->origin = Vec2{7, -3};
        w.mid->reference_array.append(extra);
    }
    w.r2 = mkref(w.mid, s2);
    w.top->reference_array.append(w.r2);
    if (top_extra) w.top->label_array.append(mklabel("top", Vec2{-4, 6}, TAG_B));
    return w;
}

// ---------------------------------------------------------------- comparisons
inline double dist(Vec2 a, Vec2 b) { return hypot(a.x - b.x, a.y - b.y); }
inline double extent_of(const std::vector<Vec2>& q) {
    double e = 1;
    for (auto& p : q) e = std::max(e, std::max(fabs(p.x), fabs(p.y)));
    return e;
}
// same closed vertex cycle up to start rotation and direction
inline bool same_cycle(const std::vector<Vec2>& a, const std::vector<Vec2>& b, double tol) {
    size_t n = a.size();
    if (n != b.size()) return false;
    if (n == 0) return true;
    for (int dir = 0; dir < 2; dir++)
        for (size_t s = 0; s < n; s++) {
            bool ok = true;
            for (size_t i = 0; i < n && ok; i++) {
                size_t j = dir == 0 ? (s + i) % n : (s + n - i) % n;
                if (dist(a[i], b[j]) > tol) ok = false;
            }
            if (ok) return true;
        }
    return false;
}
// curved outlines (arcs are re-sampled when a path is polygonised after a magnification): every vertex of one polyline within tol
// of the other closed polyline, both ways
inline double dist_to_closed_polyline(Vec2 p, const std::vector<Vec2>& b) {
    double best = INFINITY;
    size_t n = b.size();
    for (size_t i = 0; i < n; i++) {
        Vec2 a = b[i], c = b[(i + 1) % n];
        double dx = c.x - a.x, dy = c.y - a.y, L2 = dx * dx + dy * dy;
        double t = L2 > 0 ? ((p.x - a.x) * dx + (p.y - a.y) * dy) / L2 : 0;
        t = t < 0 ? 0 : t > 1 ? 1 : t;
        double ex = a.x + t * dx - p.x, ey = a.y + t * dy - p.y;
        best = std::min(best, sqrt(ex * ex + ey * ey));
    }
    return best;
}
inline bool same_outline_within(const std::vector<Vec2>& a, const std::vector<Vec2>& b, double tol) {
    if (a.empty() || b.empty()) return a.empty() && b.empty();
    for (auto& p : a) if (dist_to_closed_polyline(p, b) > tol) return false;
    for (auto& p : b) if (dist_to_closed_polyline(p, a) > tol) return false;
    return true;
}
inline bool same_sequence(const std::vector<Vec2>& a, const std::vector<Vec2>& b, double tol) {
    if (a.size() != b.size()) return false;
    for (size_t i = 0; i < a.size(); i++) if (dist(a[i], b[i]) > tol) return false;
    return true;
}
inline std::string pts_json(const std::vector<Vec2>& v, size_t cap = 12) {
    std::vector<std::string> s;
    for (size_t i = 0; i < v.size() && i < cap; i++) s.push_back(dump::vec(v[i]));
    if (v.size() > cap) s.push_back(vf::jstr("..."));
    return vf::jarr(s);
}
}  // namespace hier
