// C19 — number encodings used by the file formats are lossless.   DESIGN.md section 2/C19.
// Engine E2 (exhaustive enumeration of structured finite sets, executed on the real gdstk codecs in
// memory) against the independent reference codecs of c19_ref.hpp.
#include <gdstk/gdstk.hpp>

#include <math.h>

#include <set>

#include "c19_ref.hpp"
#include "vf.hpp"

using namespace gdstk;
using namespace vf;
using namespace c19;

static Run* R;
static bool VERBOSE = false;   // replay of one case: print both sides to stderr
#define VLOG(...) do { if (VERBOSE) fprintf(stderr, __VA_ARGS__); } while (0)

// ---------------------------------------------------------------- in-memory OASIS streams
// Writer: cursor != NULL makes oasis_write/oasis_putc append to data (grown with reallocate); the
// initial buffer is deliberately tiny so that both growth paths are exercised.
struct WS {
    OasisStream s;
    WS() {
        memset(&s, 0, sizeof s);
        s.data_size = 2;
        s.data = (uint8_t*)allocate(s.data_size);
        s.cursor = s.data;
        s.error_code = ErrorCode::NoError;
    }
    Bytes bytes() const { return Bytes(s.data, s.cursor); }
    ~WS() { if (s.data) free_allocation(s.data); }
};
// Reader: data != NULL makes oasis_read consume from cursor; gdstk frees data once the cursor
// reaches data + data_size, so the buffer comes from allocate() and carries PAD zero bytes that no
// correct decoder touches (a zero byte also terminates any runaway integer).
struct RS {
    OasisStream s;
    size_t n;
    enum { PAD = 24 };
    explicit RS(const Bytes& b) : n(b.size()) {
        memset(&s, 0, sizeof s);
        s.data_size = n + PAD;
        s.data = (uint8_t*)allocate(s.data_size);
        if (n) memcpy(s.data, b.data(), n);
        memset(s.data + n, 0, PAD);
        s.cursor = s.data;
        s.error_code = ErrorCode::NoError;
    }
    long consumed() const { return s.data ? (long)(s.cursor - s.data) : -1; }   // -1: ran through the padding
    ~RS() { if (s.data) free_allocation(s.data); }
};
static const char* ecname(ErrorCode e) {
    switch (e) {
        case ErrorCode::NoError: return "NoError";
        case ErrorCode::Overflow: return "Overflow";
        case ErrorCode::InputFileError: return "InputFileError";
        case ErrorCode::InvalidFile: return "InvalidFile";
        default: return "other";
    }
}

// ---------------------------------------------------------------- generic chunked enumeration
template <class C>
static void run_cases(const std::string& sub, const std::string& desc, const std::vector<C>& cases, int64_t chunk,
                      const std::function<void(const C&)>& fn, const std::function<std::string(const C&)>& describe, int64_t ncases = -1) {
    int64_t n = (int64_t)cases.size(), nch = (n + chunk - 1) / chunk;
    auto body = [&](int64_t c) { for (int64_t i = c * chunk; i < std::min(n, (c + 1) * chunk); i++) fn(cases[i]); };
    if (R->replaying()) {
        if (R->rarg("sub") == sub && !R->rarg("chunk").empty()) body(atoll(R->rarg("chunk").c_str()));
        return;
    }
    bool ok = parallel_for(*R, nch, body,
                           [&](int64_t c) { return jobj({{"chunk", jint(c)}, {"first_case_of_chunk", describe(cases[c * chunk])}}); },
                           [&](int64_t c) { return fmt("sub=%s chunk=%lld", sub.c_str(), (long long)c); }, PFOptions{60, sub, true});
    if (n) R->sample(sub, describe(cases[n / 2]));
    R->bound(sub, desc, ok, ncases >= 0 ? ncases : n);
}
static std::string jdbl(double v) { return jobj({{"value", jstr(fmt("%.17g", v))}, {"bits", jstr(hex64(dbits(v)))}}); }

// =============================================================== GDSII real8
static const double P16_M64 = 8.636168555094445e-78;   // 16^-64 = 2^-256 (checked against compose() in main)
static bool gds_in_range(double v) {                   // 16^-64 <= |v| < 16^63
    Dec d = decomp(v);
    if (!d.finite || d.M < (1ull << 52)) return false;
    int e2 = d.E + 52;                                 // floor(log2 |v|)
    return e2 >= -256 && e2 < 252;
}
// v -> from_double -> (reference decode | to_double): both within one ulp(v) of v
static void case_gds_roundtrip(double v, bool neighbour16) {
    const char* sub = "gds.real.roundtrip";
    std::string replay = fmt("sub=%s v=%s", sub, hex64(dbits(v)).c_str());
    R->count("cases");
    Dec dv = decomp(v);
    uint64_t r = gdsii_real_from_double(v);
    double back = gdsii_real_to_double(r);
    Gds8 g = gds8_fields(r);
    Dec db = decomp(back);
    VLOG("v=%.17g bits=%s from_double=%s (sign=%d e=%d m=%014llx) to_double=%.17g bits=%s\n", v, hex64(dbits(v)).c_str(), hex64(r).c_str(),
         (int)g.neg, g.e, (unsigned long long)g.m, back, hex64(dbits(back)).c_str());
    // distance below the top of the format's range, 16^63 = 2^252, in ulps of the binade [2^251, 2^252)
    uint64_t below_top = (dv.finite && dv.E == 199) ? (1ull << 53) - dv.M : ~0ull;
    // tags are coarse predicates (the engine caps output per distinct sub/class/tags); per-case numbers go into the case
    JFields tags = {{"sign", jstr(dv.neg ? "neg" : "pos")}, {"top_band_below_16pow63", jbool(below_top <= 100000)}, {"sign_preserved", jbool(g.neg == dv.neg)},
                    {"exponent_byte_wrapped_to_0", jbool(g.e == 0 && dv.E + 52 >= 248)}};
    std::string cj = jobj({{"v", jdbl(v)}, {"real8", jstr(hex64(r))}, {"to_double", jdbl(back)}, {"exponent_of_16", jint((int64_t)floor((dv.E + 52) / 4.0))},
                           {"doubles_below_16pow63", below_top <= 100000 ? jint((int64_t)below_top) : jstr("far")}});
    // failure classes are split by region so that the per-class output cap cannot hide a failure elsewhere
    const char* band = below_top <= 100000 ? ":top_band_below_16pow63" : "";
    if (v == 0) {
        if (g.m != 0) R->violation(sub, "zero_not_zero", tags, cj, "from_double(0) has a non-zero mantissa", replay);
        if (back != 0) R->violation(sub, "zero_not_zero", tags, cj, "to_double(from_double(0)) != 0", replay);
        return;
    }
    bool nontrivial = neighbour16 || (dv.M & 1);
    if (nontrivial) R->count("nontrivial");
    // encoder alone: exact value of the 8 bytes vs v
    bool enc_ok = within(dv.M, dv.E, dv.neg, g.m, g.E2, g.neg, dv.E);
    if (!enc_ok)
        R->violation(sub, std::string("encode_gt_1ulp") + band, tags, cj, fmt("the 8 bytes denote %s%llu*2^%d, more than one ulp(v)=2^%d away from v", g.neg ? "-" : "", (unsigned long long)g.m, g.E2, dv.E), replay);
    bool rt_ok = db.finite && within(dv.M, dv.E, dv.neg, db.M, db.E, db.neg, dv.E);
    if (!rt_ok) R->violation(sub, std::string("roundtrip_gt_1ulp") + band, tags, cj, "to_double(from_double(v)) differs from v by more than one ulp(v)", replay);
    if (dbits(back) == dbits(v)) R->count("gds_roundtrip_exact"); else R->count("gds_roundtrip_within_1ulp_not_exact");
    if (g.m < (1ull << 52)) { R->count("gds_encoded_unnormalised"); R->outcome(sub, "unnormalised"); }
    R->outcome(sub, fmt("e=%d", g.e));
}
// every 8-byte pattern of the set: to_double within one ulp of the exact value m*2^E2
static void case_gds_decode(uint64_t r) {
    const char* sub = "gds.real.decode";
    std::string replay = fmt("sub=%s r=%s", sub, hex64(r).c_str());
    R->count("cases");
    Gds8 g = gds8_fields(r);
    double d = gdsii_real_to_double(r);
    Dec dd = decomp(d);
    bool unnorm = g.m != 0 && g.m < (1ull << 52);
    if (unnorm || (g.m & 7)) R->count("nontrivial");   // un-normalised, or needs rounding to 53 bits
    VLOG("real8=%s sign=%d e=%d m=%014llx exact=m*2^%d to_double=%.17g bits=%s\n", hex64(r).c_str(), (int)g.neg, g.e, (unsigned long long)g.m, g.E2, d, hex64(dbits(d)).c_str());
    JFields tags = {{"sign", jstr(g.neg ? "neg" : "pos")}, {"e", jint(g.e)}, {"normalised", jbool(!unnorm)}};
    std::string cj = jobj({{"real8", jstr(hex64(r))}, {"to_double", jdbl(d)}, {"exact", jstr(fmt("%s%llu*2^%d", g.neg ? "-" : "", (unsigned long long)g.m, g.E2))}});
    int ulpE = bitlen(g.m) + g.E2 - 53;
    if (g.m == 0) { if (d != 0) R->violation(sub, "zero_not_zero", tags, cj, "zero mantissa decodes to a non-zero double", replay); return; }
    if (!dd.finite || !within(g.m, g.E2, g.neg, dd.M, dd.E, dd.neg, ulpE))
        R->violation(sub, "decode_gt_1ulp", tags, cj, "to_double differs from the exact value by more than one ulp", replay);
    if (d != 0 && dd.neg != g.neg) R->violation(sub, "sign", tags, cj, "sign lost", replay);
    // the decoded double is itself an input of the round trip when it lies in the format's range
    if (gds_in_range(d) && !unnorm) case_gds_roundtrip(d, false);
}
static std::vector<double> gds_fracs() {   // structured significands in [1,2)
    std::set<uint64_t> s;
    auto add = [&](double f) { if (f >= 1 && f < 2) s.insert(dbits(f)); };
    add(1.0);
    for (int j = 1; j <= 8; j++) { s.insert(dbits(1.0) + j); s.insert(dbits(2.0) - j); }
    for (int i = 1; i <= 52; i++) { add(1.0 + ldexp(1.0, -i)); add(2.0 - ldexp(1.0, -i)); }
    for (double f : {1.6, 1.1, 4.0 / 3, M_SQRT2, M_PI / 2, 1.2345678901234567, 1.9999, 1.25, 1.5, 1.75, 1.875, 1.024, 1.28}) add(f);
    std::vector<double> v;
    for (uint64_t b : s) v.push_back(dfrom(b));
    return v;
}
static void gds_checks() {
    std::vector<double> F = gds_fracs();
    const int SWEEP = R->thorough() ? 1024 : 128;
    // round trip: one chunk per power of 16
    struct K { int k; };
    std::vector<K> ks;
    for (int k = -64; k <= 62; k++) ks.push_back({k});
    run_cases<K>("gds.real.roundtrip",
                 fmt("all 127 exponents 16^-64..16^62 x both signs x (4 binades x %d structured significands + the %d doubles just below 16^(k+1) and just above 16^k), plus 0 and -0", (int)F.size(), SWEEP),
                 ks, 1,
                 [&](const K& c) {
                     // dense sweep on both sides of 16^(k+1) (below) and 16^k (above), farthest first
                     for (int j = SWEEP; j >= 1; j--)
                         for (int sgn = 0; sgn < 2; sgn++) {
                             double lo = dfrom(dbits(ldexp(1.0, 4 * c.k + 4)) - j), hi = dfrom(dbits(ldexp(1.0, 4 * c.k)) + j);
                             case_gds_roundtrip(sgn ? -lo : lo, true);
                             case_gds_roundtrip(sgn ? -hi : hi, true);
                         }
                     for (int b = 0; b < 4; b++)
                         for (size_t i = 0; i < F.size(); i++)
                             for (int sgn = 0; sgn < 2; sgn++) {
                                 double v = ldexp(F[i], 4 * c.k + b);
                                 uint64_t fb = dbits(F[i]);
                                 bool near16 = (b == 0 && fb - dbits(1.0) <= 8) || (b == 3 && dbits(2.0) - fb <= 8);
                                 case_gds_roundtrip(sgn ? -v : v, near16);
                             }
                     if (c.k == 0) { case_gds_roundtrip(0.0, false); case_gds_roundtrip(-0.0, false); }
                 },
                 [&](const K& c) { return jobj({{"exponent_of_16", jint(c.k)}}); }, 127 * 2 * (4 * (int64_t)F.size() + 2 * SWEEP) + 2);
    // decoder: 56-bit mantissa patterns incl. 1-3 leading zero hex digits
    std::set<uint64_t> ms;
    ms.insert(0);
    for (int lead = 0; lead < 4; lead++) {
        int T = 56 - 4 * lead;
        uint64_t hi = 1ull << (T - 1), all = (1ull << T) - 1;
        for (int i = 0; i < T; i++) {
            ms.insert(1ull << i);
            ms.insert(hi | (1ull << i));
            ms.insert(all & ~((1ull << i) - 1));
            ms.insert(hi | ((1ull << i) - 1));
        }
        for (uint64_t lo = 0; lo < 16; lo++) {
            ms.insert(hi | lo);
            ms.insert(hi | (hi >> 1) | lo);
            if (T >= 53) ms.insert((((1ull << 53) - 1) << (T - 53)) | lo);
        }
        ms.insert(0x1999999999999Aull >> (4 * lead));
        ms.insert(0x19999999999999ull >> (4 * lead));
        ms.insert(0xA0000000000000ull >> (4 * lead));
    }
    std::vector<uint64_t> M(ms.begin(), ms.end());
    struct E { int e; };
    std::vector<E> es;
    for (int e = 0; e < 128; e++) es.push_back({e});
    run_cases<E>("gds.real.decode",
                 fmt("all 128 exponent bytes x both signs x %d mantissa patterns (single bits, prefixes of ones, all low-nibble roundings, 0-3 leading zero hex digits)", (int)M.size()),
                 es, 1,
                 [&](const E& c) {
                     for (uint64_t m : M)
                         for (uint64_t sgn = 0; sgn < 2; sgn++) case_gds_decode((sgn << 63) | ((uint64_t)c.e << 56) | m);
                 },
                 [&](const E& c) { return jobj({{"exponent_byte", jint(c.e)}}); }, 128 * 2 * (int64_t)M.size());
}

// =============================================================== byte order helpers
static void swap_checks() {
    const char* sub = "swap";
    if (R->replaying() && R->rarg("sub") != sub) return;
    int64_t ncases = 0;
    auto fail = [&](const char* fn, uint64_t v, const Bytes& got) {
        R->violation(sub, "byte_order", {{"fn", jstr(fn)}}, jobj({{"fn", jstr(fn)}, {"value", jstr(hex64(v))}, {"memory_after", jstr(hexb(got))}}),
                     "memory after the swap is not the requested byte order of the value", fmt("sub=%s", sub));
    };
    std::vector<uint64_t> pats = {0, ~0ull, 0x0102030405060708ull, 0x8070605040302010ull, 0xFF00FF00FF00FF00ull, 0x00000000000000FFull};
    for (int i = 0; i < 64; i++) pats.push_back(1ull << i);
    for (int i = 0; i < 8; i++) pats.push_back(0xA5ull << (8 * i));
    for (int width : {2, 4, 8})
        for (int big = 0; big < 2; big++)
            for (uint64_t n = 0; n <= 3; n++)
                for (uint64_t p : pats) {
                    ncases++;
                    R->count("cases");
                    if (n) R->count("nontrivial");
                    uint64_t mask = width == 8 ? ~0ull : ((1ull << (8 * width)) - 1);
                    uint64_t vals[5];   // guard, n values, guard
                    for (uint64_t i = 0; i < 5; i++) vals[i] = (i ? ((p << (8 * i)) | (p >> (64 - 8 * i))) : p) & mask;   // byte rotations of p
                    uint8_t mem[5 * 8];
                    uint16_t a16[5]; uint32_t a32[5]; uint64_t a64[5];
                    for (int i = 0; i < 5; i++) { a16[i] = (uint16_t)vals[i]; a32[i] = (uint32_t)vals[i]; a64[i] = vals[i]; }
                    const char* fn;
                    if (width == 2) { fn = big ? "big_endian_swap16" : "little_endian_swap16"; if (big) big_endian_swap16(a16 + 1, n); else little_endian_swap16(a16 + 1, n); memcpy(mem, a16, 10); }
                    else if (width == 4) { fn = big ? "big_endian_swap32" : "little_endian_swap32"; if (big) big_endian_swap32(a32 + 1, n); else little_endian_swap32(a32 + 1, n); memcpy(mem, a32, 20); }
                    else { fn = big ? "big_endian_swap64" : "little_endian_swap64"; if (big) big_endian_swap64(a64 + 1, n); else little_endian_swap64(a64 + 1, n); memcpy(mem, a64, 40); }
                    for (uint64_t i = 1; i <= n; i++) {
                        bool ok = true;
                        for (int j = 0; j < width; j++) {
                            uint8_t want = big ? (uint8_t)(vals[i] >> (8 * (width - 1 - j))) : (uint8_t)(vals[i] >> (8 * j));
                            if (mem[i * width + j] != want) ok = false;
                        }
                        if (!ok) fail(fn, vals[i], Bytes(mem + i * width, mem + (i + 1) * width));
                    }
                    // guards (elements 0 and n+1) keep their host representation
                    uint64_t g0 = 0, g1 = 0;
                    memcpy(&g0, mem, width);
                    memcpy(&g1, mem + (n + 1) * width, width);
                    if (g0 != vals[0] || g1 != vals[n + 1]) fail(fn, vals[0], Bytes(mem, mem + 5 * width));
                }
    // GDSII usage: real8 -> file bytes: first byte = sign|exponent, then 7 mantissa bytes, MSB first
    for (double v : {1.0, -1.0, 0.001, 1e-9, -123456.789}) {
        ncases++;
        R->count("cases");
        uint64_t r = gdsii_real_from_double(v), w = r;
        big_endian_swap64(&w, 1);
        uint8_t mem[8];
        memcpy(mem, &w, 8);
        for (int j = 0; j < 8; j++)
            if (mem[j] != (uint8_t)(r >> (8 * (7 - j)))) { fail("big_endian_swap64(real8)", r, Bytes(mem, mem + 8)); break; }
    }
    R->bound(sub, "6 helpers x n=0..3 elements between guards x 78 byte patterns; real8 file bytes", true, ncases);
}

// =============================================================== OASIS unsigned integers
static const u128 ONE = 1;
static std::vector<u128> mag_set(int maxbits) {   // boundary-centred magnitudes < 2^maxbits
    std::set<u128> s;
    u128 lim = ONE << maxbits;
    auto add = [&](u128 v) { if (v < lim) s.insert(v); };
    add(0);
    for (int k = 0; k <= maxbits; k++)
        for (int j = -2; j <= 2; j++) {
            if (j < 0 && (ONE << k) < (u128)(-j)) continue;
            add((ONE << k) + j);
        }
    for (int i = 0; i < 10; i++) { add((u128)0x7f << (7 * i)); add((u128)0x40 << (7 * i)); add((u128)0x55 << (7 * i)); }
    for (uint64_t p : {0x5555555555555555ull, 0xAAAAAAAAAAAAAAAAull, 0x0123456789ABCDEFull, 0xFEDCBA9876543210ull, 0x8080808080808080ull, 0x7F7F7F7F7F7F7F7Full}) {
        add((u128)p);
        add((u128)p >> 1);
    }
    return std::vector<u128>(s.begin(), s.end());
}
static std::vector<u128> overflow_set(int maxbits) {   // magnitudes >= 2^maxbits
    u128 L = ONE << maxbits;
    return {L, L + 1, 2 * L - 1, 2 * L, 2 * L + 1, L << 3, (L << 6) - 1, L << 6, L << 7, (L << 13) + 5};
}
struct IntCase { u128 mag; int low; int pad; };
static void case_uint(const IntCase& c) {
    const char* sub = "oas.uint";
    std::string replay = fmt("sub=%s mag=%s pad=%d", sub, hex128(c.mag).c_str(), c.pad);
    R->count("cases");
    Bytes enc;
    put_uint(enc, c.mag, c.pad);
    bool overflow = (c.mag >> 64) != 0, longpad = !overflow && enc.size() > 10;
    if (enc.size() > 1) R->count("nontrivial");
    JFields tags = {{"len", jint((int64_t)enc.size())}, {"pad_groups", jint(c.pad)}, {"beyond_64_bits", jbool(overflow)}};
    auto cj = [&](const std::string& got) { return jobj({{"value", jstr(dec128(c.mag))}, {"value_hex", jstr(hex128(c.mag))}, {"encoding", jstr(hexb(enc))}, {"gdstk", jstr(got)}}); };
    if (!overflow && c.pad == 0) {
        WS w;
        oasis_write_unsigned_integer(w.s, (uint64_t)c.mag);
        Bytes got = w.bytes();
        VLOG("write_unsigned_integer(%s) -> %s, reference %s\n", dec128(c.mag).c_str(), hexb(got).c_str(), hexb(enc).c_str());
        if (got != enc) R->violation(sub, "encode_bytes", tags, cj(hexb(got)), "encoder output differs from the minimal base-128 encoding", replay);
        R->count("codec_calls");
    }
    RS r(enc);
    uint64_t v = oasis_read_unsigned_integer(r.s);
    ErrorCode ec = r.s.error_code;
    R->count("codec_calls");
    VLOG("read_unsigned_integer(%s) -> %llu (0x%llx) error_code=%s consumed=%ld of %zu\n", hexb(enc).c_str(), (unsigned long long)v, (unsigned long long)v, ecname(ec), r.consumed(), enc.size());
    std::string got = fmt("%llu error_code=%s consumed=%ld", (unsigned long long)v, ecname(ec), r.consumed());
    if (overflow) {
        R->count("overflow_patterns");
        R->outcome(sub, fmt("overflow->%s", ecname(ec)));
        if (ec != ErrorCode::Overflow) {
            tags.push_back({"wrapped", jbool(v == (uint64_t)c.mag)});
            R->violation(sub, "overflow_not_flagged", tags, cj(got), "value beyond 64 bits decoded without ErrorCode::Overflow", replay);
        }
    } else if (longpad) {   // out of alphabet (DESIGN 0.1): zero padding beyond 10 bytes; only a silent wrong value is a failure
        R->count("out_of_alphabet_long_padding");
        R->outcome(sub, fmt("longpad->%s", ecname(ec)));
        if (!(ec == ErrorCode::Overflow || (ec == ErrorCode::NoError && v == (uint64_t)c.mag)))
            R->violation(sub, "long_padding_silent_wrong_value", tags, cj(got), "11-byte zero-padded encoding decoded to a different value without any flag", replay);
    } else {
        if (c.pad) R->count("nonminimal_encodings");
        R->outcome(sub, fmt("len=%d", (int)enc.size()));
        if (ec != ErrorCode::NoError) R->violation(sub, "decode_error_flag", tags, cj(got), "legal encoding flagged as error", replay);
        else if (v != (uint64_t)c.mag) R->violation(sub, "decode_value", tags, cj(got), "decoded value differs", replay);
        else if (r.consumed() != (long)enc.size()) R->violation(sub, "decode_framing", tags, cj(got), "decoder consumed a different number of bytes than the encoding has", replay);
    }
}

// =============================================================== sign/direction-packed integers
enum Form { F_INT = 0, F_D2 = 1, F_D3 = 2, F_G1 = 3 };
static const int SKIP[4] = {1, 2, 3, 4};
static const int NLOW[4] = {2, 4, 8, 8};
static const char* const FORM_SUB[4] = {"oas.int", "oas.delta2", "oas.delta3", "oas.gdelta.form1"};
static void gd_write_form(Form f, OasisStream& s, int64_t x, int64_t y, bool alt) {
    switch (f) {
        case F_INT: if (alt) oasis_write_1delta(s, x); else oasis_write_integer(s, x); break;
        case F_D2: oasis_write_2delta(s, x, y); break;
        case F_D3: oasis_write_3delta(s, x, y); break;
        case F_G1: oasis_write_gdelta(s, x, y); break;
    }
}
static void gd_read_form(Form f, OasisStream& s, int64_t& x, int64_t& y, bool alt) {
    switch (f) {
        case F_INT: x = alt ? oasis_read_1delta(s) : oasis_read_integer(s); y = 0; break;
        case F_D2: oasis_read_2delta(s, x, y); break;
        case F_D3: oasis_read_3delta(s, x, y); break;
        case F_G1: oasis_read_gdelta(s, x, y); break;
    }
}
static void case_form(Form f, const IntCase& c) {
    const char* sub = FORM_SUB[f];
    std::string replay = fmt("sub=%s mag=%s low=%d pad=%d", sub, hex128(c.mag).c_str(), c.low, c.pad);
    R->count("cases");
    int s = SKIP[f];
    u128 U = (c.mag << s) | (u128)(f == F_G1 ? (c.low << 1) : c.low);
    Bytes enc;
    put_uint(enc, U, c.pad);
    bool overflow = c.mag >= (ONE << 63), longpad = !overflow && enc.size() > 10;
    if (enc.size() > 1) R->count("nontrivial");
    i128 ex, ey;
    if (f == F_INT) { ex = c.low ? -(i128)c.mag : (i128)c.mag; ey = 0; }
    else { ex = (i128)c.mag * DX[c.low]; ey = (i128)c.mag * DY[c.low]; }
    std::string lowname = f == F_INT ? (c.low ? "neg" : "pos") : DIRNAME[c.low];
    JFields tags = {{"len", jint((int64_t)enc.size())}, {"pad_groups", jint(c.pad)}, {"low_bits", jstr(lowname)}, {"beyond_63_bits", jbool(overflow)}};
    auto cj = [&](const std::string& got) {
        return jobj({{"x", jstr(deci128(ex))}, {"y", jstr(deci128(ey))}, {"magnitude_hex", jstr(hex128(c.mag))}, {"sign_or_direction", jstr(lowname)}, {"encoding", jstr(hexb(enc))}, {"gdstk", jstr(got)}});
    };
    if (!overflow && c.pad == 0 && !(f == F_INT && c.mag == 0 && c.low == 1)) {
        for (int alt = 0; alt < (f == F_INT ? 2 : 1); alt++) {
            WS w;
            gd_write_form(f, w.s, (int64_t)ex, (int64_t)ey, alt);
            Bytes got = w.bytes();
            R->count("codec_calls");
            VLOG("write(%s,%s) -> %s, reference %s\n", deci128(ex).c_str(), deci128(ey).c_str(), hexb(got).c_str(), hexb(enc).c_str());
            if (c.mag != 0) {
                if (got != enc) R->violation(sub, "encode_bytes", tags, cj(hexb(got)), "encoder output differs from the minimal reference encoding", replay);
            } else {   // zero: any direction is equally minimal; demand one byte denoting zero
                size_t pos = 0;
                i128 zx = 1, zy = 1;
                bool ok = f == F_INT ? get_int(got, pos, zx) : f == F_D2 ? get_2delta(got, pos, zx, zy) : f == F_D3 ? get_3delta(got, pos, zx, zy) : get_gdelta(got, pos, zx, zy);
                if (f == F_INT) zy = 0;
                if (!ok || got.size() != 1 || zx != 0 || zy != 0) R->violation(sub, "encode_bytes", tags, cj(hexb(got)), "zero is not written as one byte denoting zero", replay);
            }
        }
    }
    for (int alt = 0; alt < (f == F_INT ? 2 : 1); alt++) {
        RS r(enc);
        int64_t x = 0x1111111111111111ll, y = 0x2222222222222222ll;
        gd_read_form(f, r.s, x, y, alt);
        ErrorCode ec = r.s.error_code;
        R->count("codec_calls");
        std::string got = fmt("x=%lld y=%lld error_code=%s consumed=%ld", (long long)x, (long long)y, ecname(ec), r.consumed());
        VLOG("read(%s) -> %s ; expected x=%s y=%s\n", hexb(enc).c_str(), got.c_str(), deci128(ex).c_str(), deci128(ey).c_str());
        if (overflow) {
            R->count("overflow_patterns");
            R->outcome(sub, fmt("overflow->%s", ecname(ec)));
            bool exact_min = ec == ErrorCode::NoError && ex >= INT64_MIN && ey >= INT64_MIN && ex <= INT64_MAX && ey <= INT64_MAX && (i128)x == ex && (i128)y == ey;
            if (ec != ErrorCode::Overflow && !exact_min)
                R->violation(sub, "overflow_not_flagged", tags, cj(got), "magnitude beyond 63 bits decoded without ErrorCode::Overflow", replay);
        } else if (longpad) {
            R->count("out_of_alphabet_long_padding");
            R->outcome(sub, fmt("longpad->%s", ecname(ec)));
            if (!(ec == ErrorCode::Overflow || (ec == ErrorCode::NoError && (i128)x == ex && (i128)y == ey)))
                R->violation(sub, "long_padding_silent_wrong_value", tags, cj(got), "11-byte zero-padded encoding decoded to a different value without any flag", replay);
        } else {
            if (c.pad) R->count("nonminimal_encodings");
            R->outcome(sub, fmt("len=%d low=%s", (int)enc.size(), lowname.c_str()));
            if (ec != ErrorCode::NoError) R->violation(sub, "decode_error_flag", tags, cj(got), "legal encoding flagged as error", replay);
            else if ((i128)x != ex || (i128)y != ey) R->violation(sub, "decode_value", tags, cj(got), "decoded value differs", replay);
            else if (r.consumed() != (long)enc.size()) R->violation(sub, "decode_framing", tags, cj(got), "decoder consumed a different number of bytes than the encoding has", replay);
        }
    }
}
static void add_int_cases(std::vector<IntCase>& out, const std::vector<u128>& mags, const std::vector<u128>& over, int skip, int nlow, bool g1) {
    for (u128 m : mags)
        for (int low = 0; low < nlow; low++) {
            Bytes e;
            put_uint(e, (m << skip) | (u128)(g1 ? low << 1 : low));
            int maxpad = 11 - (int)e.size();   // up to 10 bytes in alphabet, 11 bytes recorded as out of alphabet
            for (int pad = 0; pad <= maxpad; pad++) out.push_back({m, low, pad});
        }
    for (u128 m : over)
        for (int low = 0; low < nlow; low++)
            for (int pad = 0; pad <= 1; pad++) out.push_back({m, low, pad});
}
static void int_checks() {
    {
        std::vector<IntCase> cs;
        add_int_cases(cs, mag_set(64), overflow_set(64), 0, 1, false);
        run_cases<IntCase>("oas.uint", fmt("unsigned: %d boundary values (0, 2^k+j |j|<=2 k<=64, 7-bit group patterns) x every padding up to 10 bytes (+11-byte out-of-alphabet), 10 overflow values beyond 64 bits", (int)mag_set(64).size()),
                           cs, 256, case_uint, [](const IntCase& c) { return jobj({{"value_hex", jstr(hex128(c.mag))}, {"pad", jint(c.pad)}}); });
    }
    for (int f = 0; f < 4; f++) {
        std::vector<IntCase> cs;
        add_int_cases(cs, mag_set(63), overflow_set(63), SKIP[f], NLOW[f], f == F_G1);
        run_cases<IntCase>(FORM_SUB[f], fmt("%s: %d boundary magnitudes < 2^63 x %d sign/direction codes x every padding up to 10 bytes (+11-byte), 10 overflow magnitudes >= 2^63", FORM_SUB[f], (int)mag_set(63).size(), NLOW[f]),
                           cs, 512, [f](const IntCase& c) { case_form((Form)f, c); },
                           [](const IntCase& c) { return jobj({{"magnitude_hex", jstr(hex128(c.mag))}, {"low", jint(c.low)}, {"pad", jint(c.pad)}}); });
    }
}

// =============================================================== g-delta, two-integer form
struct G2Case { u128 mx; int sx; u128 my; int sy; int padx, pady; };
static void case_g2(const G2Case& c) {
    const char* sub = "oas.gdelta.form2";
    std::string replay = fmt("sub=%s mx=%s sx=%d my=%s sy=%d padx=%d pady=%d", sub, hex128(c.mx).c_str(), c.sx, hex128(c.my).c_str(), c.sy, c.padx, c.pady);
    R->count("cases");
    Bytes enc;
    put_uint(enc, (c.mx << 2) | (u128)(c.sx ? 2 : 0) | 1, c.padx);
    size_t lenx = enc.size();
    put_uint(enc, (c.my << 1) | (u128)(c.sy ? 1 : 0), c.pady);
    size_t leny = enc.size() - lenx;
    bool overflow = c.mx >= (ONE << 63) || c.my >= (ONE << 63);
    bool longpad = !overflow && (lenx > 10 || leny > 10);
    i128 ex = c.sx ? -(i128)c.mx : (i128)c.mx, ey = c.sy ? -(i128)c.my : (i128)c.my;
    bool oct = dir_of(ex, ey) >= 0;
    if (lenx > 1 || leny > 1 || oct) R->count("nontrivial");
    JFields tags = {{"len_x", jint((int64_t)lenx)}, {"len_y", jint((int64_t)leny)}, {"sign_x", jstr(c.sx ? "neg" : "pos")}, {"sign_y", jstr(c.sy ? "neg" : "pos")},
                    {"octangular", jbool(oct)}, {"beyond_63_bits", jbool(overflow)}};
    auto cj = [&](const std::string& got) { return jobj({{"x", jstr(deci128(ex))}, {"y", jstr(deci128(ey))}, {"encoding", jstr(hexb(enc))}, {"gdstk", jstr(got)}}); };
    if (!overflow && c.padx == 0 && c.pady == 0 && !(c.mx == 0 && c.sx) && !(c.my == 0 && c.sy)) {
        Bytes want;
        put_gdelta(want, ex, ey);   // minimal: single-integer form for octangular displacements
        WS w;
        oasis_write_gdelta(w.s, (int64_t)ex, (int64_t)ey);
        Bytes got = w.bytes();
        R->count("codec_calls");
        VLOG("write_gdelta(%s,%s) -> %s, reference %s\n", deci128(ex).c_str(), deci128(ey).c_str(), hexb(got).c_str(), hexb(want).c_str());
        if (c.mx == 0 && c.my == 0) {
            size_t pos = 0; i128 zx = 1, zy = 1;
            if (!get_gdelta(got, pos, zx, zy) || got.size() != 1 || zx != 0 || zy != 0) R->violation(sub, "encode_bytes", tags, cj(hexb(got)), "zero is not written as one byte denoting zero", replay);
        } else if (got != want) R->violation(sub, "encode_bytes", tags, cj(hexb(got)), "encoder output differs from the minimal reference encoding", replay);
    }
    RS r(enc);
    int64_t x = 0x1111111111111111ll, y = 0x2222222222222222ll;
    oasis_read_gdelta(r.s, x, y);
    ErrorCode ec = r.s.error_code;
    R->count("codec_calls");
    std::string got = fmt("x=%lld y=%lld error_code=%s consumed=%ld", (long long)x, (long long)y, ecname(ec), r.consumed());
    VLOG("read_gdelta(%s) -> %s ; expected x=%s y=%s\n", hexb(enc).c_str(), got.c_str(), deci128(ex).c_str(), deci128(ey).c_str());
    if (overflow) {
        R->count("overflow_patterns");
        R->outcome(sub, fmt("overflow->%s", ecname(ec)));
        if (ec != ErrorCode::Overflow) R->violation(sub, "overflow_not_flagged", tags, cj(got), "magnitude beyond 63 bits decoded without ErrorCode::Overflow", replay);
    } else if (longpad) {
        R->count("out_of_alphabet_long_padding");
        if (!(ec == ErrorCode::Overflow || (ec == ErrorCode::NoError && (i128)x == ex && (i128)y == ey)))
            R->violation(sub, "long_padding_silent_wrong_value", tags, cj(got), "11-byte zero-padded encoding decoded to a different value without any flag", replay);
    } else {
        if (c.padx || c.pady) R->count("nonminimal_encodings");
        R->outcome(sub, fmt("lenx=%d leny=%d sx=%d sy=%d", (int)lenx, (int)leny, c.sx, c.sy));
        if (ec != ErrorCode::NoError) R->violation(sub, "decode_error_flag", tags, cj(got), "legal encoding flagged as error", replay);
        else if ((i128)x != ex || (i128)y != ey) R->violation(sub, "decode_value", tags, cj(got), "decoded value differs", replay);
        else if (r.consumed() != (long)enc.size()) R->violation(sub, "decode_framing", tags, cj(got), "decoder consumed a different number of bytes than the encoding has", replay);
    }
}
static void g2_checks() {
    std::set<u128> bs;   // boundary-only magnitudes
    bs.insert(0);
    for (int k = 0; k <= 63; k++)
        for (int j = -1; j <= 1; j++) { u128 v = (ONE << k) + j; if (v < (ONE << 63)) bs.insert(v); }
    std::vector<u128> B(bs.begin(), bs.end());
    std::vector<G2Case> cs;
    for (u128 mx : B)
        for (u128 my : B)
            for (int s = 0; s < 4; s++) cs.push_back({mx, s & 1, my, s >> 1, 0, 0});
    std::vector<u128> small = {0, 1, 31, 32, 63, 64, (ONE << 62), (ONE << 63) - 1};
    for (u128 mx : small)
        for (u128 my : small)
            for (int s = 0; s < 4; s++) {
                Bytes a, b;
                put_uint(a, (mx << 2) | 1);
                put_uint(b, my << 1);
                int px = 10 - (int)a.size(), py = 10 - (int)b.size();
                for (int padx : {0, 1, px, px + 1})
                    for (int pady : {0, 1, py, py + 1})
                        if ((padx || pady) && padx >= 0 && pady >= 0) cs.push_back({mx, s & 1, my, s >> 1, padx, pady});
            }
    for (u128 o : overflow_set(63))
        for (int s = 0; s < 4; s++) {
            cs.push_back({o, s & 1, 5, s >> 1, 0, 0});
            cs.push_back({5, s & 1, o, s >> 1, 0, 0});
            cs.push_back({o, s & 1, o, s >> 1, 0, 0});
        }
    run_cases<G2Case>("oas.gdelta.form2", fmt("two-integer g-deltas: %d^2 boundary magnitude pairs (0, 2^k-1, 2^k, 2^k+1, k<=63) x 4 sign pairs incl. octangular pairs (decoder must accept, encoder must use the one-integer form); padded variants of 8x8 magnitudes; overflow in x, y, both", (int)B.size()),
                      cs, 2048, case_g2,
                      [](const G2Case& c) { return jobj({{"mx", jstr(hex128(c.mx))}, {"sx", jint(c.sx)}, {"my", jstr(hex128(c.my))}, {"sy", jint(c.sy)}, {"padx", jint(c.padx)}, {"pady", jint(c.pady)}}); });
}

// =============================================================== OASIS reals
static const char* real_form_name(int t) {
    switch (t) { case 0: case 1: return "integer"; case 2: case 3: return "reciprocal"; case 4: case 5: return "ratio"; case 6: return "float32"; case 7: return "double"; }
    return "invalid";
}
struct RealCase { double v; bool neighbour; };
static void case_real_roundtrip(const RealCase& c) {
    const char* sub = "oas.real.roundtrip";
    double v = c.v;
    std::string replay = fmt("sub=%s v=%s", sub, hex64(dbits(v)).c_str());
    R->count("cases");
    WS w;
    oasis_write_real(w.s, v);
    Bytes enc = w.bytes();
    int t = enc.empty() ? -1 : enc[0];
    RS r(enc);
    double back = oasis_read_real(r.s);
    ErrorCode ec = r.s.error_code;
    R->count("codec_calls", 2);
    size_t pos = 0;
    double ref = 0;
    bool refok = get_real(enc, pos, ref) && pos == enc.size();
    u128 n = 0;
    if (t >= 0 && t <= 3) { size_t p2 = 1; get_uint(enc, p2, n); }
    if (t != 7 || c.neighbour) R->count("nontrivial");
    R->count(std::string("real_form_") + real_form_name(t));
    R->outcome(sub, fmt("type=%d len=%d", t, (int)enc.size()));
    VLOG("write_real(%.17g bits=%s) -> %s (form %s) ; read_real -> %.17g bits=%s error_code=%s consumed=%ld ; reference decode of the bytes -> %.17g bits=%s\n", v, hex64(dbits(v)).c_str(),
         hexb(enc).c_str(), real_form_name(t), back, hex64(dbits(back)).c_str(), ecname(ec), r.consumed(), ref, hex64(dbits(ref)).c_str());
    int64_t ulps = (int64_t)(dbits(back) & ~(1ull << 63)) - (int64_t)(dbits(v) & ~(1ull << 63));
    JFields tags = {{"form", jstr(real_form_name(t))}, {"type", jint(t)}, {"sign", jstr((dbits(v) >> 63) ? "neg" : "pos")}, {"ulps_off", jint(ulps < 0 ? -ulps : ulps)},
                    {"blame", jstr(!refok ? "encoder:malformed" : dbits(ref) != dbits(v) && !(ref == 0 && v == 0) ? "encoder" : "decoder")}};
    std::string cj = jobj({{"v", jdbl(v)}, {"encoding", jstr(hexb(enc))}, {"form", jstr(real_form_name(t))}, {"n", t >= 0 && t <= 3 ? jstr(dec128(n)) : jstr("-")}, {"read_back", jdbl(back)}, {"reference_decode", refok ? jdbl(ref) : jstr("malformed")}});
    if (ec != ErrorCode::NoError) { R->violation(sub, "decode_error_flag", tags, cj, "reading back the written real sets an error", replay); return; }
    if (v == 0 && back == 0) {   // same value; the sign of zero is not representable in the integer form
        if (dbits(v) != dbits(back)) { R->count("negative_zero_read_back_as_positive_zero"); R->outcome(sub, "-0 -> +0"); }
    } else if (dbits(back) != dbits(v)) {
        R->violation(sub, std::string("value_changed:") + real_form_name(t), tags, cj, fmt("read(write(v)) != v: %.17g -> %.17g (%lld ulp)", v, back, (long long)ulps), replay);
        return;
    }
    if (!refok || (dbits(ref) != dbits(v) && !(ref == 0 && v == 0))) R->violation(sub, "encoding_denotes_other_value", tags, cj, "the bytes written do not denote v according to the reference decoder", replay);
    else if (r.consumed() != (long)enc.size()) R->violation(sub, "decode_framing", tags, cj, "decoder consumed a different number of bytes than were written", replay);
}
struct RealDec { int type; u128 a, b; };   // a: n | p | raw bits, b: q
static void case_real_decode(const RealDec& c) {
    const char* sub = "oas.real.decode";
    std::string replay = fmt("sub=%s type=%d a=%s b=%s", sub, c.type, hex128(c.a).c_str(), hex128(c.b).c_str());
    R->count("cases");
    Bytes enc;
    enc.push_back((uint8_t)c.type);
    if (c.type <= 3) put_uint(enc, c.a);
    else if (c.type <= 5) { put_uint(enc, c.a); put_uint(enc, c.b); }
    else if (c.type == 6) for (int i = 0; i < 4; i++) enc.push_back((uint8_t)(c.a >> (8 * i)));
    else for (int i = 0; i < 8; i++) enc.push_back((uint8_t)(c.a >> (8 * i)));
    size_t pos = 0;
    double ref = 0;
    if (!get_real(enc, pos, ref)) { R->internal_error("reference cannot decode its own real " + hexb(enc)); return; }
    RS r(enc);
    double got = oasis_read_real(r.s);
    ErrorCode ec = r.s.error_code;
    R->count("codec_calls");
    bool exact_operands = c.type >= 6 || (c.a <= (ONE << 53) && (c.type < 4 || c.b <= (ONE << 53)));
    if (c.type >= 2 && c.type <= 6) R->count("nontrivial");
    R->outcome(sub, fmt("type=%d", c.type));
    VLOG("read_real(%s) -> %.17g bits=%s error_code=%s consumed=%ld ; correctly rounded reference %.17g bits=%s\n", hexb(enc).c_str(), got, hex64(dbits(got)).c_str(), ecname(ec), r.consumed(), ref, hex64(dbits(ref)).c_str());
    JFields tags = {{"form", jstr(real_form_name(c.type))}, {"type", jint(c.type)}, {"operands_exact_in_double", jbool(exact_operands)}};
    std::string cj = jobj({{"encoding", jstr(hexb(enc))}, {"form", jstr(real_form_name(c.type))}, {"a", jstr(dec128(c.a))}, {"b", jstr(dec128(c.b))}, {"gdstk", jdbl(got)}, {"reference", jdbl(ref)}});
    if (ec != ErrorCode::NoError) { R->violation(sub, "decode_error_flag", tags, cj, "legal real flagged as error", replay); return; }
    if (r.consumed() != (long)enc.size()) { R->violation(sub, "decode_framing", tags, cj, "decoder consumed a different number of bytes than the encoding has", replay); return; }
    bool nan_both = ref != ref && got != got;
    if (dbits(got) == dbits(ref) || (got == 0 && ref == 0) || nan_both) return;
    Dec a = decomp(ref), b = decomp(got);
    if (!exact_operands && a.finite && b.finite && within(a.M, a.E, a.neg, b.M, b.E, b.neg, a.E)) {   // n > 2^53: one ulp tolerated, counted
        R->count("real_decode_double_rounding_1ulp");
        R->outcome(sub, "1ulp (operand above 2^53)");
        return;
    }
    R->violation(sub, "decode_value", tags, cj, "decoded value is not the correctly rounded value of the form", replay);
}
static void real_checks(bool T) {
    // ---- round trip alphabet, smallest first
    int NMAX = T ? 65536 : 1024;
    std::vector<RealCase> small, rest;
    std::set<uint64_t> seen;
    auto add1 = [&](std::vector<RealCase>& dst, double v, bool nb) {
        if (v != v || v - v != 0) return;   // NaN / infinity: not reals of the format
        for (int sgn = 0; sgn < 2; sgn++) {
            double x = sgn ? -v : v;
            if (seen.insert(dbits(x)).second) dst.push_back({x, nb});
        }
    };
    auto addn = [&](std::vector<RealCase>& dst, double v) {   // v and its 3 neighbours on each side
        add1(dst, v, false);
        uint64_t b = dbits(v) & ~(1ull << 63);
        for (int j = 1; j <= 3; j++) {
            if (b >= (uint64_t)j) add1(dst, dfrom(b - j), true);
            add1(dst, dfrom(b + j), true);
        }
    };
    for (int n = 0; n <= 16; n++) { addn(small, (double)n); if (n) addn(small, exact_div(1, (u128)n)); }
    for (int n = 17; n <= NMAX; n++) { addn(rest, (double)n); addn(rest, exact_div(1, (u128)n)); }
    for (int k = 1; k <= 64; k++)
        for (int j = -1; j <= 1; j++) {
            u128 n = (ONE << k) + j;
            if (n >> 64) { addn(rest, ldexp(1.0, 64)); addn(rest, ldexp(1.0, -64)); continue; }
            addn(rest, exact_div(n, 1));
            addn(rest, exact_div(1, n));
        }
    for (int k = -1074; k <= 1023; k++) addn(rest, ldexp(1.0, k));
    addn(rest, exact_div(((ONE << 64) - 2048), 1));
    addn(rest, exact_div(1, ((ONE << 64) - 2048)));
    for (double g : {M_PI, M_E, M_SQRT2, 0.1, 0.2, 0.3, 0.7, 1e-3, 1e-6, 1e-9, 1e-12, 5e-4, 2.5e-3, 1e-5, 1.5, 2.5, 123.456, 1e3, 1e6, 1e15, 1e16, 1e22, 1e23, 6.02214076e23, 1e-300, 1e300, 1e-308,
                     4.9406564584124654e-324, 2.2250738585072009e-308, 2.2250738585072014e-308, 1.7976931348623157e308, 1e-3 / 1e-9, 1e-9 / 1e-3, 1e-6 / 1e-9, 90.0, 0.5e-3, 45.5, 1.0 / 3e8})
        addn(rest, g);
    auto desc = [](const RealCase& c) { return jdbl(c.v); };
    run_cases<RealCase>("oas.real.roundtrip.small", "integers 0..16 and reciprocals 1/1..1/16, each with its 3 neighbouring doubles on both sides, both signs (smallest-first pass)", small, 1 << 20,
                        case_real_roundtrip, desc);
    run_cases<RealCase>("oas.real.roundtrip", fmt("integers and reciprocals n<=%d, n=2^k-1,2^k,2^k+1 (k<=64), 2^64-2048, every power of two 2^-1074..2^1023, 38 generic/subnormal/huge doubles; each with 3 neighbours on both sides, both signs", NMAX),
                        rest, 4096, case_real_roundtrip, desc);
    // ---- decoder-only forms
    std::vector<RealDec> ds;
    std::vector<u128> M = mag_set(64);
    for (u128 n : M) { ds.push_back({0, n, 0}); ds.push_back({1, n, 0}); if (n) { ds.push_back({2, n, 0}); ds.push_back({3, n, 0}); } }
    for (int n = 1; n <= 1024; n++) { ds.push_back({2, (u128)n, 0}); ds.push_back({3, (u128)n, 0}); }
    std::vector<u128> PQ;
    for (int i = 0; i <= 16; i++) PQ.push_back((u128)i);
    for (u128 x : {(u128)10, (u128)1000, (u128)1000000, (ONE << 53) - 1, ONE << 53, (ONE << 53) + 1, (ONE << 64) - 1, (u128)3 << 40, (u128)4503599627370497ull}) PQ.push_back(x);
    for (u128 p : PQ)
        for (u128 q : PQ)
            if (q) { ds.push_back({4, p, q}); ds.push_back({5, p, q}); }
    std::vector<uint32_t> fm = {0, 1, 2, 0x7fffff, 0x7ffffe, 0x400000, 0x2aaaaa, 0x555555, 0x4ccccd};
    for (int i = 0; i < 23; i++) fm.push_back(1u << i);
    for (uint32_t e = 0; e <= 255; e++)
        for (uint32_t m : fm)
            for (uint32_t s = 0; s < 2; s++) {
                if (e == 255 && m != 0) continue;   // NaN payloads: no value to compare
                ds.push_back({6, (u128)((s << 31) | (e << 23) | m), 0});
            }
    for (int i = 0; i < 64; i++) { ds.push_back({7, (u128)(1ull << i), 0}); ds.push_back({7, (u128)(0x3ff0000000000000ull ^ (1ull << i)), 0}); ds.push_back({7, (u128)(~0ull << i) & (u128)0x7fefffffffffffffull, 0}); }
    ds.push_back({7, (u128)0x0102030405060708ull, 0});
    ds.push_back({7, (u128)0x7ff0000000000000ull, 0});
    run_cases<RealDec>("oas.real.decode", fmt("decoder on every real form: integer/reciprocal with n from the %d boundary values and n<=1024, ratios p/q over %d^2 operands (0..16, 10^k, 2^53-1, 2^53, 2^53+1, 2^64-1), float32: 256 exponents x %d significands x 2 signs, float64 bit patterns", (int)M.size(), (int)PQ.size(), (int)fm.size()),
                       ds, 2048, case_real_decode, [](const RealDec& c) { return jobj({{"type", jint(c.type)}, {"a", jstr(hex128(c.a))}, {"b", jstr(hex128(c.b))}}); });
}

// =============================================================== OASIS point lists
static const char* const PLTYPE[7] = {"manhattan_h_first", "manhattan_v_first", "manhattan", "octangular", "general", "relative", "general_all_form2"};
struct PlRead { std::vector<Vec2> pts; uint64_t ret; ErrorCode ec; long consumed; };
static PlRead gd_read_plist(const Bytes& b, Vec2 ref, double scaling, bool closed) {
    PlRead o;
    RS r(b);
    Array<Vec2> a = {};
    a.append(ref);
    o.ret = oasis_read_point_list(r.s, scaling, closed, a);
    o.ec = r.s.error_code;
    o.consumed = r.consumed();
    for (uint64_t i = 0; i < a.count; i++) o.pts.push_back(a[i]);
    a.clear();
    R->count("codec_calls");
    return o;
}
static std::string jpts(const PV& V) {
    std::vector<std::string> s;
    for (auto& p : V) s.push_back(fmt("[%lld,%lld]", (long long)p.x, (long long)p.y));
    return jarr(s);
}
static std::string jvec(const std::vector<Vec2>& V) {
    std::vector<std::string> s;
    for (auto& p : V) s.push_back(fmt("[%.17g,%.17g]", p.x, p.y));
    return jarr(s);
}
// class of list a delta sequence needs: 0 alternating Manhattan, 2 Manhattan, 3 octangular, 4 general
static int need_class(const PV& d) {
    int cls = 0;
    for (size_t i = 0; i < d.size(); i++) {
        int c;
        if (d[i].x && d[i].y) c = dir_of(d[i].x, d[i].y) >= 0 ? 3 : 4;
        else {
            c = 0;
            if (i > 0 && !(d[i - 1].x && d[i - 1].y)) {   // two Manhattan deltas in a row: do they alternate?
                bool ph = d[i - 1].y == 0 && d[i - 1].x != 0, pv = d[i - 1].x == 0 && d[i - 1].y != 0;
                bool h = d[i].y == 0 && d[i].x != 0, v = d[i].x == 0 && d[i].y != 0;
                if ((ph && h) || (pv && v)) c = 2;
            }
        }
        cls = std::max(cls, c);
    }
    return cls;
}
// V[0] = (0,0) reference; compares a gdstk read-back with V scaled
static bool pl_same(const PlRead& o, const PV& V, Vec2 ref, double scaling) {
    if (o.pts.size() != V.size()) return false;
    for (size_t i = 0; i < V.size(); i++)
        if (o.pts[i].x != ref.x + scaling * (double)V[i].x || o.pts[i].y != ref.y + scaling * (double)V[i].y) return false;
    return true;
}
static void case_plist(const PV& deltas, bool closed, int64_t mult) {
    const char* sub_rt = "oas.plist.roundtrip";
    const char* sub_dec = "oas.plist.decode";
    std::string dstr;
    for (auto& d : deltas) dstr += fmt("%s%lld,%lld", dstr.empty() ? "" : ",", (long long)d.x, (long long)d.y);
    std::string rargs = fmt("closed=%d mult=%lld deltas=%s", (int)closed, (long long)mult, dstr.empty() ? "-" : dstr.c_str());
    R->count("cases");
    PV V = {{0, 0}}, D;
    for (auto& d : deltas) { D.push_back({d.x * mult, d.y * mult}); V.push_back({V.back().x + d.x * mult, V.back().y + d.y * mult}); }
    size_t N = V.size();
    // non-trivial: a repeated vertex, or the list changes the type it needs after its first delta
    bool repeated = false;
    for (size_t i = 0; i < N && !repeated; i++) for (size_t j = 0; j < i; j++) if (V[i] == V[j]) { repeated = true; break; }
    PV full = D;
    if (closed) full.push_back({V[0].x - V[N - 1].x, V[0].y - V[N - 1].y});
    bool switches = !D.empty() && need_class(PV(D.begin(), D.begin() + 1)) != need_class(full);
    if (repeated || switches) R->count("nontrivial");
    if (repeated) R->count("plist_with_repeated_vertex");
    if (switches) R->count("plist_switching_type");
    JFields base_tags = {{"closed", jbool(closed)}, {"deltas", jint((int64_t)D.size())}, {"repeated_vertex", jbool(repeated)}, {"needs", jstr(PLTYPE[need_class(full)])}};
    auto cj = [&](const Bytes& enc, const std::string& got) {
        return jobj({{"vertices_relative_to_first", jpts(V)}, {"closed", jbool(closed)}, {"encoding", jstr(hexb(enc))}, {"gdstk", jstr(got)}});
    };
    // ---------- writer -> reader, writer -> reference decoder, for several first vertices p0.
    // The writer turns points[] into deltas in place, so p0's coordinates are chosen to collide with
    // delta values of the alphabet (p0.x or p0.y equal to a delta component, scaled like the deltas):
    // any mix-up of absolute vertices and deltas then changes the list type or the bytes.
    static const P2 FIRST[6] = {{0, 0}, {1, 5}, {-2, 5}, {3, -2}, {-2, -2}, {7, -3}};
    const int nfirst = D.size() <= 4 ? 6 : 3;
    for (int fi = 0; fi < nfirst; fi++) {
        std::string replay = std::string("sub=") + sub_rt + " " + rargs;
        const P2 wref = {FIRST[fi].x * mult, FIRST[fi].y * mult};
        R->count("plist_writer_cases");
        Array<IntVec2> a = {};
        for (auto& p : V) a.append(IntVec2{wref.x + p.x, wref.y + p.y});
        WS w;
        oasis_write_point_list(w.s, a, closed);
        a.clear();
        Bytes enc = w.bytes();
        R->count("codec_calls");
        int t = enc.empty() ? -1 : enc[0];
        JFields tags = base_tags;
        tags.push_back({"written_type", jint(t)});
        tags.push_back({"first_vertex", jstr(fmt("(%lld,%lld)*mult", (long long)FIRST[fi].x, (long long)FIRST[fi].y))});
        auto cjw = [&](const Bytes& e, const std::string& got) {
            PV abs;
            for (auto& p : V) abs.push_back({wref.x + p.x, wref.y + p.y});
            return jobj({{"vertices", jpts(abs)}, {"closed", jbool(closed)}, {"encoding", jstr(hexb(e))}, {"gdstk", jstr(got)}});
        };
        if (t >= 0 && t <= 5) R->count(std::string("plist_written_as_") + PLTYPE[t]);
        R->outcome(sub_rt, fmt("type=%d closed=%d n=%d", t, (int)closed, (int)D.size()));
        // reference decode of gdstk's bytes
        PV refv = {{0, 0}};
        size_t pos = 0;
        bool refok = get_plist(enc, pos, closed, refv) && pos == enc.size();
        VLOG("first vertex (%lld,%lld): write_point_list(%s + p0, closed=%d) -> %s (type %d); reference decode -> %s%s\n", (long long)wref.x, (long long)wref.y, jpts(V).c_str(), (int)closed, hexb(enc).c_str(), t,
             refok ? jpts(refv).c_str() : "malformed", refok && refv == V ? "" : "  ** differs **");
        if (!refok || refv != V) R->violation(sub_rt, "encoding_denotes_other_list", tags, cjw(enc, refok ? jpts(refv) : "malformed"), "the bytes written do not denote the vertex list according to the reference decoder", replay);
        // gdstk read-back into absolute coordinates (first vertex = p0), scaling 1
        Vec2 rref = {(double)wref.x, (double)wref.y};
        PlRead o = gd_read_plist(enc, rref, 1.0, closed);
        VLOG("read_point_list -> %s ret=%llu error_code=%s consumed=%ld of %zu\n", jvec(o.pts).c_str(), (unsigned long long)o.ret, ecname(o.ec), o.consumed, enc.size());
        if (o.ec != ErrorCode::NoError) R->violation(sub_rt, "decode_error_flag", tags, cjw(enc, ecname(o.ec)), "reading back the written list sets an error", replay);
        else if (!pl_same(o, V, rref, 1.0)) R->violation(sub_rt, "list_changed", tags, cjw(enc, jvec(o.pts)), "read(write(list)) != list (absolute vertices)", replay);
        else if (o.ret != N - 1) R->violation(sub_rt, "return_count", tags, cjw(enc, fmt("returned %llu", (unsigned long long)o.ret)), "returned vertex count differs from the number of vertices appended", replay);
        else if (o.consumed != (long)enc.size()) R->violation(sub_rt, "decode_framing", tags, cjw(enc, fmt("consumed %ld", o.consumed)), "decoder consumed a different number of bytes than were written", replay);
        // the Vec2 overload (scaling 2 on half-integer coordinates) must write the same bytes; read back with scaling 1/2
        if (D.size() <= 4) {   // 5-delta lists: the overload/scaling variants add nothing over <= 4 deltas
            Array<Vec2> av = {};
            for (auto& p : V) av.append(Vec2{0.5 * (double)(wref.x + p.x), 0.5 * (double)(wref.y + p.y)});
            WS w2;
            oasis_write_point_list(w2.s, av, 2.0, closed);
            av.clear();
            Bytes enc2 = w2.bytes();
            R->count("codec_calls");
            if (enc2 != enc) R->violation(sub_rt, "vec2_writer_differs", tags, cjw(enc, hexb(enc2)), "the Vec2 overload (scaling 2) writes different bytes than the IntVec2 overload for the same lattice points", replay);
            PV refv2 = {{0, 0}};
            size_t pos2 = 0;
            bool refok2 = get_plist(enc2, pos2, closed, refv2) && pos2 == enc2.size();
            if (!refok2 || refv2 != V) R->violation(sub_rt, "vec2_encoding_denotes_other_list", tags, cjw(enc2, refok2 ? jpts(refv2) : "malformed"), "the bytes written by the Vec2 overload do not denote the vertex list according to the reference decoder", replay);
            Vec2 half = {0.5 * (double)wref.x, 0.5 * (double)wref.y};
            PlRead o2 = gd_read_plist(enc2, half, 0.5, closed);
            if (o2.ec != ErrorCode::NoError || !pl_same(o2, V, half, 0.5))
                R->violation(sub_rt, "list_changed_scaled", tags, cjw(enc2, jvec(o2.pts)), "Vec2 writer (scaling 2) -> reader (scaling 0.5) does not give back the half-integer vertex list", replay);
        }
    }
    // ---------- reference encoder (each type that can express the list) -> gdstk reader
    for (int t = 0; t <= 6; t++) {
        Bytes enc;
        if (!put_plist(enc, V, closed, t)) continue;
        std::string replay = std::string("sub=") + sub_dec + fmt(" type=%d ", t) + rargs;
        R->count("decoder_cases");
        R->count(std::string("plist_decoded_from_") + PLTYPE[t]);
        R->outcome(sub_dec, fmt("type=%d closed=%d n=%d", t, (int)closed, (int)D.size()));
        JFields tags = base_tags;
        tags.push_back({"encoded_type", jstr(PLTYPE[t])});
        Vec2 rref = {4, -1};
        PlRead o = gd_read_plist(enc, rref, 1.0, closed);
        VLOG("type %s: %s -> read_point_list -> %s ret=%llu error_code=%s consumed=%ld of %zu\n", PLTYPE[t], hexb(enc).c_str(), jvec(o.pts).c_str(), (unsigned long long)o.ret, ecname(o.ec), o.consumed, enc.size());
        if (o.ec != ErrorCode::NoError) R->violation(sub_dec, "decode_error_flag", tags, cj(enc, ecname(o.ec)), "legal point list flagged as error", replay);
        else if (!pl_same(o, V, rref, 1.0)) R->violation(sub_dec, "decode_value", tags, cj(enc, jvec(o.pts)), "decoded vertices differ from the encoded list", replay);
        else if (o.ret != N - 1) R->violation(sub_dec, "return_count", tags, cj(enc, fmt("returned %llu", (unsigned long long)o.ret)), "returned vertex count differs from the number of vertices appended", replay);
        else if (o.consumed != (long)enc.size()) R->violation(sub_dec, "decode_framing", tags, cj(enc, fmt("consumed %ld", o.consumed)), "decoder consumed a different number of bytes than the encoding has", replay);
    }
}
static int64_t pow25(int d) { int64_t p = 1; while (d-- > 0) p *= 25; return p; }
static PV plist_deltas(int D, int64_t idx) {
    PV d(D);
    for (int i = D - 1; i >= 0; i--) { int g = (int)(idx % 25); idx /= 25; d[i] = {g / 5 - 2, g % 5 - 2}; }
    return d;
}
static void plist_checks(bool T) {
    int Dmax = T ? 5 : 3;
    for (int D = 0; D <= Dmax; D++) {
        if (R->out_of_time()) { R->bound(fmt("oas.plist.d%d", D), "not started: deadline", false, 0); continue; }
        std::vector<int64_t> mults = D <= 3 ? std::vector<int64_t>{1, 8, 64} : D == 4 ? std::vector<int64_t>{1, 64} : std::vector<int64_t>{1};
        std::string sub = fmt("oas.plist.d%d", D);
        int64_t total = pow25(D), chunk = 512, nch = (total + chunk - 1) / chunk;
        auto body = [&](int64_t c) {
            for (int64_t i = c * chunk; i < std::min(total, (c + 1) * chunk); i++) {
                PV d = plist_deltas(D, i);
                for (int closed = 0; closed < 2; closed++)
                    for (int64_t m : mults) case_plist(d, closed, m);
            }
        };
        if (R->replaying()) {
            if (R->rarg("sub") == sub && !R->rarg("chunk").empty()) body(atoll(R->rarg("chunk").c_str()));
            continue;
        }
        bool ok = parallel_for(*R, nch, body, [&](int64_t c) { return jobj({{"chunk", jint(c)}, {"first_list_of_chunk", jpts(plist_deltas(D, c * chunk))}}); },
                               [&](int64_t c) { return fmt("sub=%s chunk=%lld", sub.c_str(), (long long)c); }, PFOptions{120, sub, true});
        R->sample(sub, jobj({{"deltas", jpts(plist_deltas(D, total / 3))}}));
        R->bound(sub, fmt("all 25^%d lists of %d deltas from {-2..2}^2 x {open, closed} x delta multipliers {%s}: x first vertices p0*mult, p0 in {(0,0),(1,5),(-2,5),(3,-2),(-2,-2),(7,-3)} (first 3 only for 5 deltas) whose coordinates collide with delta values: IntVec2 writer (and, up to 4 deltas, Vec2 writer with scaling 2) -> gdstk reader into absolute vertices and reference decoder; every expressible list type (0-5 and all-form-2 general) by the reference encoder -> gdstk reader",
                          D, D, mults.size() == 3 ? "1,8,64" : mults.size() == 2 ? "1,64" : "1"),
                 ok, total * 2 * (int64_t)mults.size());
    }
}

// =============================================================== point lists through the Vec2 overload: rounding
// oasis_write_point_list(out, Array<Vec2>, scaling, closed) rounds coordinate*scaling to the lattice.
// For power-of-two scalings the product is exact, so the expected lattice point is the exact
// mathematical rounding (nearest, exact halves away from zero as llround documents), computed here
// in integer arithmetic on the IEEE bit fields.
static bool round_scaled(double c, int k, int64_t& out, bool& tie, bool& frac_nonzero) {   // round(c * 2^k)
    Dec d = decomp(c);
    tie = frac_nonzero = false;
    if (!d.finite) return false;
    if (d.M == 0) { out = 0; return true; }
    int e = d.E + k;
    u128 M = d.M, ip;
    if (e >= 0) { if (e > 9) return false; ip = M << e; }
    else {
        int sh = -e;
        if (sh >= 120) { ip = 0; frac_nonzero = true; }
        else {
            ip = M >> sh;
            u128 fr = M & ((ONE << sh) - 1), half = ONE << (sh - 1);
            frac_nonzero = fr != 0;
            tie = fr == half;
            if (fr >= half) ip++;
        }
    }
    if (ip >= (ONE << 62)) return false;
    out = d.neg ? -(int64_t)ip : (int64_t)ip;
    return true;
}
static const int V2_K[4] = {0, 1, 10, -1};   // scalings 1, 2, 1024, 0.5
// pts: the Vec2 coordinates handed to gdstk; sk: index into V2_K
static void case_vec2(const std::vector<Vec2>& pts, int sk, bool closed, const char* shape) {
    const char* sub = "oas.plist.vec2";
    int k = V2_K[sk];
    double s = ldexp(1.0, k);
    std::string ps;
    for (auto& p : pts) ps += (ps.empty() ? "" : ",") + hex64(dbits(p.x)) + "," + hex64(dbits(p.y));
    std::string replay = fmt("sub=%s sk=%d closed=%d shape=%s pts=%s", sub, sk, (int)closed, shape, ps.c_str());
    R->count("cases");
    PV Vt;
    bool any_tie = false, any_frac = false, any_big_odd = false, multi = false;
    for (auto& p : pts) {
        int64_t x, y;
        bool t1, t2, f1, f2;
        if (!round_scaled(p.x, k, x, t1, f1) || !round_scaled(p.y, k, y, t2, f2)) { R->internal_error("vec2 case outside the lattice range: " + replay); return; }
        Vt.push_back({x, y});
        any_tie |= t1 || t2;
        any_frac |= f1 || f2;
        for (int64_t n : {x, y}) {
            uint64_t a = (uint64_t)(n < 0 ? -n : n);
            if ((a & 1) && a >= (1ull << 52)) any_big_odd = true;
            if (a >= 64) multi = true;
        }
    }
    if (multi || any_frac) R->count("nontrivial");
    if (any_big_odd) R->count("vec2_lists_with_odd_coordinate_in_2^52..2^53");
    if (any_tie) R->count("vec2_lists_with_exact_half");
    const char* kind = any_tie ? "exact_half" : any_frac ? "fraction_non_tie" : "exact_integer";
    JFields tags = {{"kind", jstr(kind)}, {"odd_coordinate_in_2^52..2^53", jbool(any_big_odd)}, {"scaling", jstr(fmt("%g", s))}, {"closed", jbool(closed)}, {"shape", jstr(shape)}};
    Array<Vec2> av = {};
    for (auto& p : pts) av.append(p);
    WS w;
    oasis_write_point_list(w.s, av, s, closed);
    av.clear();
    Bytes enc = w.bytes();
    R->count("codec_calls");
    R->outcome(sub, fmt("type=%d closed=%d kind=%s", enc.empty() ? -1 : enc[0], (int)closed, kind));
    PV rel = {{0, 0}}, got;
    size_t pos = 0;
    bool refok = get_plist(enc, pos, closed, rel) && pos == enc.size();
    for (auto& p : rel) got.push_back({Vt[0].x + p.x, Vt[0].y + p.y});
    auto cj = [&](const std::string& g) {
        std::vector<std::string> in;
        for (auto& p : pts) in.push_back(fmt("[%.17g,%.17g]", p.x, p.y));
        return jobj({{"coordinates", jarr(in)}, {"scaling", jnum(s)}, {"closed", jbool(closed)}, {"exact_rounding_of_coordinate_times_scaling", jpts(Vt)}, {"encoding", jstr(hexb(enc))}, {"gdstk", jstr(g)}});
    };
    VLOG("write_point_list(Vec2 %s, scaling %g, closed=%d) -> %s ; denotes %s (first vertex taken from the expectation) ; exact rounding %s%s\n", cj("").c_str(), s, (int)closed, hexb(enc).c_str(),
         refok ? jpts(got).c_str() : "malformed", jpts(Vt).c_str(), refok && got == Vt ? "" : "  ** differs **");
    if (!refok || got != Vt) {
        R->violation(sub, std::string("written_list_is_not_the_rounded_list:") + kind, tags, cj(refok ? jpts(got) : "malformed"),
                     "the list written by the Vec2 overload is not the exact rounding of coordinate*scaling (nearest lattice point, exact halves away from zero)", replay);
        return;
    }
    // same lattice points through the IntVec2 overload: same bytes
    Array<IntVec2> ai = {};
    for (auto& p : Vt) ai.append(IntVec2{p.x, p.y});
    WS w2;
    oasis_write_point_list(w2.s, ai, closed);
    ai.clear();
    R->count("codec_calls");
    if (w2.bytes() != enc) R->violation(sub, "vec2_writer_differs", tags, cj(hexb(w2.bytes())), "Vec2 and IntVec2 overloads write different bytes for the same lattice points", replay);
    // read back with the inverse scaling: for lattice inputs this must reproduce the coordinates exactly
    if (!any_frac) {
        PlRead o = gd_read_plist(enc, pts[0], ldexp(1.0, -k), closed);
        bool same = o.ec == ErrorCode::NoError && o.pts.size() == pts.size();
        for (size_t i = 0; same && i < pts.size(); i++) same = o.pts[i].x == pts[i].x && o.pts[i].y == pts[i].y;
        if (!same) R->violation(sub, "list_changed", tags, cj(jvec(o.pts)), "read(write(list)) with inverse scaling != list", replay);
    }
}
struct V2Case { int64_t nx, ny; int shape; int64_t delta; int closed; int sk; };
static const char* const V2SHAPE[6] = {"manhattan_h_first", "manhattan_v_first", "manhattan_2delta", "octangular", "general", "single_delta"};
static std::vector<Vec2> v2_points(const V2Case& c) {
    // deltas point towards zero so that every coordinate stays within +-(2^53-1)
    int64_t ux = c.nx > 0 ? -c.delta : c.delta, uy = c.ny > 0 ? -c.delta : c.delta;
    static const int SH[6][3][2] = {{{1, 0}, {0, 1}, {-1, 0}}, {{0, 1}, {1, 0}, {0, -1}}, {{1, 0}, {1, 0}, {0, 1}}, {{1, 1}, {1, -1}, {0, 1}}, {{1, 2}, {1, -1}, {-1, 1}}, {{1, 0}, {0, 0}, {0, 0}}};
    int k = V2_K[c.sk];
    std::vector<Vec2> pts;
    int64_t x = c.nx, y = c.ny;
    pts.push_back(Vec2{ldexp((double)x, -k), ldexp((double)y, -k)});
    for (int i = 0; i < (c.shape == 5 ? 1 : 3); i++) {
        x += SH[c.shape][i][0] * ux;
        y += SH[c.shape][i][1] * uy;
        pts.push_back(Vec2{ldexp((double)x, -k), ldexp((double)y, -k)});
    }
    return pts;
}
static void vec2_checks(bool T) {
    // lattice targets: every 7-bit group boundary up to 2^53-1 and odd integers in [2^52, 2^53)
    std::set<int64_t> ns;
    const int64_t LIM = (1ll << 53) - 1;
    for (int k = 0; k <= 53; k++)
        for (int j = -1; j <= 1; j++) { int64_t v = (1ll << k) + j; if (v >= 0 && v <= LIM) ns.insert(v); }
    for (int i = 0; i < 8; i++) { int64_t v = 0x7fll << (7 * i); if (v <= LIM) ns.insert(v); }
    for (int64_t o : {1ll, 3ll, 5ll, 0xffll, (1ll << 26) + 1, (1ll << 51) + 1, (1ll << 51) - 1, 0x5555555555555ll, 0xfffffffffffffll - 2, 0xaaaaaaaaaaaabll, 0x123456789abcdll}) ns.insert(((1ll << 52) | o) & LIM);
    std::vector<int64_t> N(ns.begin(), ns.end());
    std::vector<int64_t> deltas = T ? std::vector<int64_t>{1, 2, 63, 64, 8191, 8192, (1ll << 20) + 1, 1ll << 34, (1ll << 48) - 1, (1ll << 51) + 1}
                                    : std::vector<int64_t>{1, 64, 8191, (1ll << 34) + 1, (1ll << 51) + 1};
    std::vector<V2Case> cs;
    for (int64_t d : deltas)
        for (int64_t n : N)
            for (int sg = 0; sg < 2; sg++)
                for (int pair = 0; pair < 4; pair++) {
                    int64_t a = sg ? -n : n;
                    int64_t nx = pair == 3 ? 3 : a, ny = pair == 0 ? a : pair == 1 ? -a : pair == 2 ? 3 : a;
                    for (int sh = 0; sh < 6; sh++)
                        for (int closed = 0; closed < 2; closed++)
                            for (int sk = 0; sk < 4; sk++) cs.push_back({nx, ny, sh, d, closed, sk});
                }
    run_cases<V2Case>("oas.plist.vec2.lattice",
                      fmt("Vec2 overload, scalings {1,2,1024,0.5}: first vertex (n,n),(n,-n),(n,3),(3,n) with |n| from %d values (0, 2^k-1, 2^k, 2^k+1 for k<=53, 7-bit group patterns, 11 odd integers in [2^52,2^53)) x both signs x 6 shapes (manhattan h/v first, 2-delta, octangular, general, single delta) x %d delta magnitudes x open/closed; expected = exact lattice points",
                          (int)N.size(), (int)deltas.size()),
                      cs, 2048, [](const V2Case& c) { case_vec2(v2_points(c), c.sk, c.closed != 0, V2SHAPE[c.shape]); },
                      [](const V2Case& c) { return jobj({{"nx", jint(c.nx)}, {"ny", jint(c.ny)}, {"shape", jstr(V2SHAPE[c.shape])}, {"delta", jint(c.delta)}, {"closed", jint(c.closed)}, {"scaling", jnum(ldexp(1.0, V2_K[c.sk]))}}); });
    // fractional coordinates: exact halves, their neighbours, just-below-half
    struct FCase { double x; int closed; int sk; };
    std::set<uint64_t> xs;
    auto addx = [&](double v) { xs.insert(dbits(v)); xs.insert(dbits(-v)); };
    for (int64_t k : {0ll, 1ll, 2ll, 3ll, 4ll, 63ll, 64ll, 8191ll, 8192ll, 1ll << 20, (1ll << 34) - 1, (1ll << 50) - 1, 1ll << 50, (1ll << 50) + 1}) {
        double h = (double)k + 0.5;
        addx(h);
        addx(dfrom(dbits(h) - 1));
        addx(dfrom(dbits(h) + 1));
        addx((double)k + 0.25);
        addx((double)k + 0.75);
    }
    for (double v : {0.49999999999999994, 0.5000000000000001, 0.99999999999999989, 1e-300, 4.9406564584124654e-324, 0.1, 0.9, 2.5, 1e15 + 0.5, 1e15 + 0.25}) addx(v);
    std::vector<FCase> fs;
    for (uint64_t b : xs)
        for (int closed = 0; closed < 2; closed++)
            for (int sk = 0; sk < 4; sk++) fs.push_back({dfrom(b), closed, sk});
    run_cases<FCase>("oas.plist.vec2.fraction",
                     fmt("Vec2 overload, scalings {1,2,1024,0.5}: %d values x (k+0.5, its two neighbouring doubles, k+0.25, k+0.75 for 14 k up to 2^50+1; 0.49999999999999994; tiny; ...) x both signs placed as coordinates of a 4-vertex list [(x,0),(10,0),(10,x),(0,x)] (coordinate = x/scaling) x open/closed; expected = nearest lattice point, exact halves away from zero",
                         (int)xs.size()),
                     fs, 256,
                     [](const FCase& c) {
                         int k = V2_K[c.sk];
                         double x = ldexp(c.x, -k), ten = ldexp(10.0, -k);
                         case_vec2({Vec2{x, 0}, Vec2{ten, 0}, Vec2{ten, x}, Vec2{0, x}}, c.sk, c.closed != 0, "fraction");
                     },
                     [](const FCase& c) { return jobj({{"x", jdbl(c.x)}, {"closed", jint(c.closed)}, {"scaling", jnum(ldexp(1.0, V2_K[c.sk]))}}); });
}

static std::vector<int64_t> parse_i64s(const std::string& s) {
    std::vector<int64_t> v;
    size_t p = 0;
    while (p < s.size()) {
        size_t e = s.find(',', p);
        if (e == std::string::npos) e = s.size();
        if (e > p) { std::string t = s.substr(p, e - p); if (t != "-") v.push_back(atoll(t.c_str())); }
        p = e + 1;
    }
    return v;
}
static bool replay_more(const std::string& sub) {
    if (sub == "oas.gdelta.form2") {
        case_g2({parse_hex128(R->rarg("mx")), atoi(R->rarg("sx").c_str()), parse_hex128(R->rarg("my")), atoi(R->rarg("sy").c_str()), atoi(R->rarg("padx").c_str()), atoi(R->rarg("pady").c_str())});
        return true;
    }
    if (sub == "oas.real.roundtrip") { case_real_roundtrip({dfrom((uint64_t)parse_hex128(R->rarg("v"))), false}); return true; }
    if (sub == "oas.real.decode") { case_real_decode({atoi(R->rarg("type").c_str()), parse_hex128(R->rarg("a")), parse_hex128(R->rarg("b"))}); return true; }
    if (sub == "oas.plist.vec2") {
        std::vector<Vec2> pts;
        std::string ps = R->rarg("pts");
        std::vector<uint64_t> b;
        size_t q = 0;
        while (q < ps.size()) { size_t e = ps.find(',', q); if (e == std::string::npos) e = ps.size(); b.push_back((uint64_t)parse_hex128(ps.substr(q, e - q))); q = e + 1; }
        for (size_t i = 0; i + 1 < b.size(); i += 2) pts.push_back(Vec2{dfrom(b[i]), dfrom(b[i + 1])});
        static std::string shape;
        shape = R->rarg("shape");
        case_vec2(pts, atoi(R->rarg("sk").c_str()), atoi(R->rarg("closed").c_str()) != 0, shape.c_str());
        return true;
    }
    if (sub == "oas.plist.roundtrip" || sub == "oas.plist.decode") {
        std::vector<int64_t> n = parse_i64s(R->rarg("deltas"));
        int64_t mult = atoll(R->rarg("mult").c_str());
        PV d;
        for (size_t i = 0; i + 1 < n.size(); i += 2) d.push_back({n[i], n[i + 1]});
        case_plist(d, atoi(R->rarg("closed").c_str()) != 0, mult ? mult : 1);
        return true;
    }
    return false;
}
static void more_checks() {
    bool T = R->thorough();
    g2_checks();
    real_checks(T);
    plist_checks(T);
    vec2_checks(T);
}


// =============================================================== main
int main(int argc, char** argv) {
    Run run("C19", argc, argv);
    R = &run;
    set_error_logger(NULL);
    if (dbits(P16_M64) != dbits(compose(false, 1ull << 52, -256 - 52))) run.internal_error("16^-64 constant");
    if (run.replaying()) {
        VERBOSE = true;
        std::string sub = run.rarg("sub");
        if (run.rarg("chunk").empty()) {
            IntCase ic = {parse_hex128(run.rarg("mag")), atoi(run.rarg("low").c_str()), atoi(run.rarg("pad").c_str())};
            if (sub == "gds.real.roundtrip") { case_gds_roundtrip(dfrom((uint64_t)parse_hex128(run.rarg("v"))), false); return run.finish(); }
            if (sub == "gds.real.decode") { case_gds_decode((uint64_t)parse_hex128(run.rarg("r"))); return run.finish(); }
            if (sub == "oas.uint") { case_uint(ic); return run.finish(); }
            for (int f = 0; f < 4; f++) if (sub == FORM_SUB[f]) { case_form((Form)f, ic); return run.finish(); }
            if (replay_more(sub)) return run.finish();
        }
    }
    gds_checks();
    swap_checks();
    int_checks();
    more_checks();
    return run.finish();
}
