// c12.cpp — property C12: fracturing and slicing partition a polygon without changing the region.
//
// Technique (DESIGN.md 2/C12, engine E2): bounded exhaustive enumeration executed on the real
// Polygon::fracture / slice() / Library::write_gds code, judged by an exact, independent oracle:
//   * inputs live on an integer lattice; outputs live on the precision grid (1/U); everything is
//     lifted to int64 multiples of 1/(U*21*r) so that sample points ((i+1/3)/r, (j+1/7)/r) are
//     integers too; membership = eg::winding (int128), guard band = exact squared distances;
//   * region equality = cover count per sample point (1 inside, 0 outside) + exact shoelace area
//     identity with the documented rounding slack;
//   * vertex bound, tag / repetition / properties (deep-equal, distinct storage), termination
//     (per-index watchdog of parallel_for), behaviour for limits below five;
//   * the GDSII writer's vertex limit: the file is decoded by a 40-line record walker written here
//     (record lengths / XY integers only; no gdstk code) and cross-read with gdstk::read_gds.
// No random sampling: every member of the stated alphabets is executed.
#include <gdstk/gdstk.hpp>

#include <map>
#include <set>
#include <string>
#include <vector>

#include "dump.hpp"
#include "exactgeom.hpp"
#include "vf.hpp"

using namespace gdstk;
using namespace vf;
typedef eg::P IP;
typedef eg::Poly IPoly;
typedef eg::i128 i128;

static Run* R;

// ------------------------------------------------------------------------------ alphabets
struct Prec { double precision; int64_t U; const char* name; };
// precision relative to the unit lattice; U = grid points per lattice unit
static const Prec PRECS[3] = {{1e-3, 1000, "1e-3"}, {1.0 / 1024, 1024, "2^-10"}, {1.0 / 64, 64, "1/64"}};
// writer configurations: library unit and precision (metres), user units per lattice unit (scale);
// file grid = precision/unit user units; U = scale*unit/precision = file-grid points per lattice unit.
// Configurations 4..6 put the lattice on multiples of the file grid that are NOT multiples of one user unit
// (features smaller than a unit); 4 and 5 have unit^2 > precision, i.e. one user unit is coarser than the file grid.
struct WCfg { double unit, precision, scale; int64_t U; const char* name; };
static const int NWCFG = 7;
static const WCfg WCFGS[NWCFG] = {{1, 1e-3, 1, 1000, "unit=1,precision=1e-3,scale=1"},
                                  {1, 1.0 / 1024, 1, 1024, "unit=1,precision=2^-10,scale=1"},
                                  {1, 1.0 / 64, 1, 64, "unit=1,precision=1/64,scale=1"},
                                  {1e-6, 1e-9, 1, 1000, "unit=1e-6,precision=1e-9,scale=1"},
                                  {1e-3, 1e-9, 4e-4, 400, "unit=1e-3,precision=1e-9,scale=4e-4"},
                                  {1, 1e-3, 0.25, 250, "unit=1,precision=1e-3,scale=0.25"},
                                  {1e-6, 1e-9, 0.4, 400, "unit=1e-6,precision=1e-9,scale=0.4"}};

struct Shape {
    IPoly pts;         // lattice coordinates, input order (may contain one repeated vertex)
    std::string kind;  // lattice | lattice+dup | comb | saw | spiral | stair | band | sliver | zigzag (+dup)
    int rfn;           // sample refinement
    int stride = 1;    // sample every stride-th lattice cell per axis (large-coordinate families)
    std::string gen;   // non-empty: replayable generator id ("aq:<n>:<variant>") used instead of the point list
    IPoly hole;        // key-holed / cavity members: the enclosed hole (same units as pts), for the 'hole kept whole' counter
    int sub = 1;       // pts are in 1/sub of a PRECISION-GRID step (thin-slit cavities); 1: pts are lattice units
};
static std::string pts_str(const IPoly& p);
// replay token of a shape: generator id if it has one, else the point list
static std::string shape_tok(const Shape& sh) { return sh.gen.empty() ? pts_str(sh.pts) : sh.gen; }
static Shape shape_from_tok(const std::string& tok, int rfn);

static std::string pts_str(const IPoly& p) {
    std::string s;
    for (size_t i = 0; i < p.size(); i++) s += (i ? ";" : "") + std::to_string(p[i].x) + "," + std::to_string(p[i].y);
    return s;
}
static IPoly parse_pts(const std::string& s) {
    IPoly p;
    size_t i = 0;
    while (i < s.size()) {
        size_t e = s.find(';', i);
        if (e == std::string::npos) e = s.size();
        std::string t = s.substr(i, e - i);
        size_t c = t.find(',');
        if (c != std::string::npos) p.push_back({atoll(t.substr(0, c).c_str()), atoll(t.substr(c + 1).c_str())});
        i = e + 1;
    }
    return p;
}
static std::string jpts(const IPoly& p) {
    std::vector<std::string> v;
    for (auto& q : p) v.push_back("[" + jint(q.x) + "," + jint(q.y) + "]");
    return jarr(v);
}
// grid-unit pieces rendered in lattice units
static std::string jpieces(const std::vector<IPoly>& g, int64_t U) {
    std::vector<std::string> ps;
    for (auto& p : g) {
        std::vector<std::string> v;
        for (auto& q : p) v.push_back("[" + jnum((double)q.x / U) + "," + jnum((double)q.y / U) + "]");
        ps.push_back(jarr(v));
        if (ps.size() >= 12) { ps.push_back(jstr("...")); break; }
    }
    return jarr(ps);
}

static IPoly with_dup(const IPoly& p, int k) {
    IPoly q;
    for (size_t i = 0; i < p.size(); i++) { q.push_back(p[i]); if ((int)i == k) q.push_back(p[i]); }
    return q;
}
static IPoly transform(const IPoly& p, int variant) {  // 0 id, 1 transpose, 2 negate (180 deg, negative coordinates), 3 reversed order
    IPoly q = p;
    if (variant == 1) for (auto& v : q) std::swap(v.x, v.y);
    if (variant == 2) for (auto& v : q) { v.x = -v.x; v.y = -v.y; }
    if (variant == 3) std::reverse(q.begin(), q.end());
    return q;
}
// --- parametrised families (all on the integer lattice, all simple; checked at start-up)
static IPoly comb(int t, int h) {  // base of height 1, t teeth of width 1 and height h, gaps 1
    IPoly p = {{0, 0}, {2 * t - 1, 0}};
    for (int k = t - 1; k >= 0; k--) {
        p.push_back({2 * k + 1, 1 + h});
        p.push_back({2 * k, 1 + h});
        if (k > 0) { p.push_back({2 * k, 1}); p.push_back({2 * k - 1, 1}); }
    }
    return p;
}
static IPoly saw(int t, int h) {  // base of height 1 with t slanted teeth (cuts cross slanted edges off-grid)
    IPoly p = {{0, 0}, {2 * t, 0}, {2 * t, 1}};
    for (int k = t - 1; k >= 0; k--) { p.push_back({2 * k + 1, 1 + h}); p.push_back({2 * k, 1}); }
    return p;
}
static IPoly stair(int s) {
    IPoly p = {{0, 0}, {s, 0}};
    for (int k = s; k >= 1; k--) { p.push_back({k, s - k + 1}); p.push_back({k - 1, s - k + 1}); }
    return p;
}
static IPoly band(int s) {  // diagonal staircase band of thickness 1
    IPoly p = {{-1, 0}};
    for (int k = 0; k < s; k++) { p.push_back({k + 1, k}); p.push_back({k + 1, k + 1}); }
    p.push_back({s, s + 1});
    for (int k = s - 1; k >= 0; k--) { p.push_back({k, k + 2}); p.push_back({k, k + 1}); }
    // the loop above ends with (0,2),(0,1); the upper chain ends at (-1,1)
    p.push_back({-1, 1});
    return p;
}
static IPoly spiral(int k) {  // rectangular spiral corridor of width 2, pitch 4, k turns
    const int s = 4, w = 1, m = 4 * k, n = 2 * k * s;
    const int dx[4] = {1, 0, -1, 0}, dy[4] = {0, 1, 0, -1};
    std::vector<IP> c = {{0, 0}};
    for (int t = 0; t < m; t++) {
        int len = t == 0 ? n : n - s * ((t - 1) / 2);
        c.push_back({c.back().x + dx[t % 4] * len, c.back().y + dy[t % 4] * len});
    }
    IPoly left, right;
    for (int i = 0; i <= m; i++) {
        int64_t nx = 0, ny = 0;
        if (i > 0) { nx += -dy[(i - 1) % 4]; ny += dx[(i - 1) % 4]; }
        if (i < m) { nx += -dy[i % 4]; ny += dx[i % 4]; }
        left.push_back({c[i].x + w * nx, c[i].y + w * ny});
        right.push_back({c[i].x - w * nx, c[i].y - w * ny});
    }
    IPoly p = left;
    for (int i = m; i >= 0; i--) p.push_back(right[i]);
    return p;
}
static IPoly sliver(int a, int b, int mb, int mt) {  // height 1 on a length-40 base; top from x=a to x=b; mb/mt extra collinear vertices
    IPoly p;
    for (int i = 0; i <= mb + 1; i++) p.push_back({40 * i / (mb + 1), 0});
    if (a == b) p.push_back({a, 1});
    else for (int i = mt + 1; i >= 0; i--) p.push_back({a + (b - a) * i / (mt + 1), 1});
    return p;
}
static IPoly zigzag(int phase) {  // wavy band of vertical thickness 1, height 2, length 40, all edges slanted 1:5
    IPoly p;
    for (int i = 0; i <= 8; i++) p.push_back({5 * i, i % 2});
    if (phase == 0) for (int i = 8; i >= 0; i--) p.push_back({5 * i, 1 + i % 2});
    else {
        p.push_back({40, 1});
        for (int i = 7; i >= 0; i--) p.push_back({5 * i + phase, 1 + (i % 2 ? 1 : 0)});
        p.push_back({0, 1});
    }
    return p;
}


// --- key-holed polygons: an outer contour with at least one slanted edge on the left side (trapezoid, reversed
// trapezoid, parallelogram, pentagon), notches on the top right that push the vertex count above the limits while
// the quantile cuts stay right of the hole, an enclosed hole (square, triangle, slanted quadrilateral) and a
// zero-width slit (two coincident antiparallel edges, so two vertices are repeated) from the hole to the left /
// right / top / bottom side.  Region = outer minus hole.  Any piece or slice interval that keeps the hole whole
// makes slice() re-link the hole to the contour (link_holes in clipper_tools.cpp).
static bool lattice_points_on(IP a, IP b, std::vector<IP>& out) {
    int64_t dx = b.x - a.x, dy = b.y - a.y, g = std::__gcd(std::llabs(dx), std::llabs(dy));
    if (g == 0) return false;
    for (int64_t k = 0; k <= g; k++) out.push_back({a.x + dx / g * k, a.y + dy / g * k});
    return true;
}
static bool keyhole(int outer_kind, int hole_kind, int side, int t, IPoly& poly, IPoly& hole) {
    IP BL, TL, mid = {0, 0};
    bool has_mid = false;
    int rdx = 0;
    switch (outer_kind) {
        case 0: BL = {0, 0}; TL = {5, 10}; break;
        case 1: BL = {5, 0}; TL = {0, 10}; break;
        case 2: BL = {0, 0}; TL = {5, 10}; rdx = 5; break;
        default: BL = {3, 0}; TL = {3, 10}; mid = {0, 5}; has_mid = true;
    }
    const int64_t W = 13 + 4 * t + 1;
    IPoly outer = {BL, {W, 0}, {W + rdx, 10}};
    for (int k = 0; k < t; k++) {
        int64_t xr = W + rdx - 2 - 4 * k;
        outer.push_back({xr, 10}); outer.push_back({xr, 8}); outer.push_back({xr - 2, 8}); outer.push_back({xr - 2, 10});
    }
    size_t i_top = outer.size() - 1;  // last notch corner on the top line; the top edge runs from it to TL
    outer.push_back(TL);
    if (has_mid) outer.push_back(mid);
    switch (hole_kind) {
        case 0: hole = {{6, 3}, {6, 6}, {9, 6}, {9, 3}}; break;
        case 1: hole = {{6, 3}, {7, 6}, {9, 3}}; break;
        default: hole = {{6, 4}, {7, 6}, {9, 5}, {8, 3}};
    }
    // candidate attachment points on the requested side
    size_t n = outer.size();
    std::vector<size_t> edges;  // index i of edge outer[i] -> outer[i+1]
    if (side == 0) for (size_t i = i_top + 1; i < n; i++) edges.push_back(i);       // left: TL (-> mid) -> BL
    else if (side == 1) edges.push_back(1);                                         // right
    else if (side == 2) edges.push_back(i_top);                                     // top (left of the notches)
    else edges.push_back(0);                                                        // bottom
    int64_t best = -1;
    IP A = {0, 0};
    size_t eA = 0, iB = 0;
    for (size_t e : edges) {
        std::vector<IP> cand;
        lattice_points_on(outer[e], outer[(e + 1) % n], cand);
        for (IP a : cand)
            for (size_t b = 0; b < hole.size(); b++) {
                IP B = hole[b];
                bool ok = true;
                for (size_t i = 0; i < n && ok; i++) {
                    IP u = outer[i], v = outer[(i + 1) % n];
                    if (eg::on_segment(u, v, a)) continue;
                    if (eg::segments_touch(a, B, u, v)) ok = false;
                }
                for (size_t i = 0; i < hole.size() && ok; i++) {
                    IP u = hole[i], v = hole[(i + 1) % hole.size()];
                    if (u == B || v == B) { if (eg::cross(a, B, u == B ? v : u) == 0 && eg::dot(B, a, u == B ? v : u) < 0) ok = false; continue; }
                    if (eg::segments_touch(a, B, u, v)) ok = false;
                }
                // the slit must not enter the hole at B: a must not lie in the hole's interior angle at B (convex holes: a outside the hole)
                if (ok && eg::winding(hole, {a.x, a.y}) != 0) ok = false;
                if (!ok) continue;
                int64_t d = (a.x - B.x) * (a.x - B.x) + (a.y - B.y) * (a.y - B.y);
                if (best < 0 || d < best) { best = d; A = a; eA = e; iB = b; }
            }
    }
    if (best < 0) return false;
    // outer cycle starting at A (inserted as a collinear vertex if it is not a corner)
    IPoly cyc;
    for (size_t i = 0; i < n; i++) {
        cyc.push_back(outer[i]);
        if (i == eA && !(outer[i] == A) && !(outer[(i + 1) % n] == A)) cyc.push_back(A);
    }
    size_t sA = 0;
    for (size_t i = 0; i < cyc.size(); i++) if (cyc[i] == A) sA = i;
    poly.clear();
    for (size_t i = 0; i < cyc.size(); i++) poly.push_back(cyc[(sA + i) % cyc.size()]);
    poly.push_back(A);
    for (size_t i = 0; i <= hole.size(); i++) poly.push_back(hole[(iB + i) % hole.size()]);
    // closing edge B -> A
    return eg::area2(poly) == eg::area2(outer) + eg::area2(hole) && eg::area2(hole) < 0 && eg::area2(poly) > 0;
}
static void build_keyholes(std::vector<Shape>& out, bool thorough, const std::vector<int>& variants) {
    static const char* on[] = {"trapezoid", "reversed-trapezoid", "parallelogram", "pentagon"};
    static const char* hn[] = {"square", "triangle", "slanted"};
    static const char* sn[] = {"left", "right", "top", "bottom"};
    for (int t : thorough ? std::vector<int>{3, 5, 7} : std::vector<int>{5})
        for (int o = 0; o < 4; o++) {
            if (!thorough && (o == 1 || o == 2)) continue;
            for (int h = 0; h < 3; h++)
                for (int sd = 0; sd < 4; sd++) {
                    IPoly p, hole;
                    if (!keyhole(o, h, sd, t, p, hole)) { R->internal_error(fmt("keyhole(%s,%s,%s,t=%d) could not be built", on[o], hn[h], sn[sd], t)); continue; }
                    for (int v : variants) {
                        Shape sh;
                        sh.pts = transform(p, v);
                        sh.hole = transform(hole, v);
                        sh.kind = fmt("keyhole(outer=%s,hole=%s,slit=%s,t=%d)/v%d", on[o], hn[h], sn[sd], t, v);
                        sh.rfn = 1;
                        out.push_back(sh);
                    }
                }
        }
}
// does one piece keep the (placed) hole whole: all hole vertices are vertices of the piece and its box encloses the hole's
static bool keeps_hole(const Shape& sh, int64_t U, IP off, const std::vector<IPoly>& pieces) {
    if (sh.hole.empty()) return false;
    for (auto& p : pieces) {
        std::set<IP> vs(p.begin(), p.end());
        bool all = true;
        int64_t hx0 = INT64_MAX, hx1 = INT64_MIN, hy0 = INT64_MAX, hy1 = INT64_MIN;
        for (auto& q : sh.hole) {
            IP g = {(q.x + off.x * sh.sub) * U, (q.y + off.y * sh.sub) * U};
            if (g.x % sh.sub || g.y % sh.sub) { all = false; break; }
            g.x /= sh.sub; g.y /= sh.sub;
            if (!vs.count(g)) { all = false; break; }
            hx0 = std::min(hx0, g.x); hx1 = std::max(hx1, g.x); hy0 = std::min(hy0, g.y); hy1 = std::max(hy1, g.y);
        }
        if (!all) continue;
        int64_t x0 = INT64_MAX, x1 = INT64_MIN, y0 = INT64_MAX, y1 = INT64_MIN;
        for (auto& q : p) { x0 = std::min(x0, q.x); x1 = std::max(x1, q.x); y0 = std::min(y0, q.y); y1 = std::max(y1, q.y); }
        if (x0 < hx0 && x1 > hx1 && y0 < hy0 && y1 > hy1) return true;
    }
    return false;
}

// --- thin-slit cavities: genuinely simple polygons (no repeated vertex) with a square cavity reached through a
// slit NARROWER than the precision grid (1/3 or 2/3 of a grid step), slanted left side, notches on the top right.
// Rounding to the grid closes the slit, so the piece that contains the cavity has an enclosed hole.  Coordinates
// are in 1/3 grid steps (Shape::sub = 3); one design unit = 100 grid steps; every vertex except the slit's is on
// the grid, so nothing but the slit may move.
static bool thin_slit(int slit_kind, int left_kind, IPoly& poly, IPoly& hole) {
    const int64_t K = 300;  // pts units per design unit
    auto P = [&](int64_t x, int64_t y, int64_t dx = 0, int64_t dy = 0) { return IP{x * K + dx, y * K + dy}; };
    IPoly notch = {P(30, 10), P(28, 10), P(28, 8), P(26, 8), P(26, 10), P(24, 10), P(24, 8), P(22, 8), P(22, 10), P(20, 10), P(20, 8), P(18, 8), P(18, 10), P(16, 10), P(16, 8), P(14, 8), P(14, 10)};
    IP BL = left_kind == 0 ? P(0, 0) : P(4, 0), TL = left_kind == 0 ? P(4, 10) : P(0, 10);
    poly.clear();
    hole = {P(8, 4), P(8, 6), P(10, 6), P(10, 4)};
    if (slit_kind == 0 || slit_kind == 1) {  // slit to the right side: lower wall on the grid (0) or both walls off the grid (1)
        int64_t lo = slit_kind == 0 ? 0 : -1;
        poly = {BL, P(30, 0), P(30, 5, 0, lo), P(10, 5, 0, lo), P(10, 4), P(8, 4), P(8, 6), P(10, 6), P(10, 5, 0, 1), P(30, 5, 0, 1)};
        for (auto& q : notch) poly.push_back(q);
        poly.push_back(TL);
    } else if (slit_kind == 2) {  // slit to the top
        poly = {BL, P(30, 0)};
        for (auto& q : notch) poly.push_back(q);
        for (IP q : {P(9, 10, 1, 0), P(9, 6, 1, 0), P(10, 6), P(10, 4), P(8, 4), P(8, 6), P(9, 6), P(9, 10)}) poly.push_back(q);
        poly.push_back(TL);
    } else {  // slit to the bottom
        poly = {BL, P(9, 0), P(9, 4), P(8, 4), P(8, 6), P(10, 6), P(10, 4), P(9, 4, 1, 0), P(9, 0, 1, 0), P(30, 0)};
        for (auto& q : notch) poly.push_back(q);
        poly.push_back(TL);
    }
    return eg::is_simple(poly, true) && eg::area2(poly) > 0;
}
static void build_thin_slits(std::vector<Shape>& out, const std::vector<int>& variants) {
    static const char* sn[] = {"right", "right-offgrid", "top", "bottom"};
    for (int sk = 0; sk < 4; sk++)
        for (int lk = 0; lk < 2; lk++) {
            IPoly p, hole;
            if (!thin_slit(sk, lk, p, hole)) { R->internal_error(fmt("thin_slit(%s,left=%d) is not a simple polygon", sn[sk], lk)); continue; }
            for (int v : variants) {
                Shape sh;
                sh.pts = transform(p, v);
                sh.hole = transform(hole, v);
                sh.kind = fmt("thinslit(slit=%s,left=%s)/v%d", sn[sk], lk ? "reversed" : "slanted", v);
                sh.rfn = 1;
                sh.sub = 3;
                sh.stride = 50;
                out.push_back(sh);
            }
        }
}
static void add_family(std::vector<Shape>& out, const IPoly& base, const std::string& kind, const std::vector<int>& variants) {
    if (!eg::is_simple(base, true)) { R->internal_error("family member is not simple: " + kind + " " + pts_str(base)); return; }
    for (int v : variants) {
        IPoly p = transform(base, v);
        out.push_back({p, kind + fmt("/v%d", v), 1});
    }
    // one member with a repeated vertex (position spread deterministically over the family)
    out.push_back({with_dup(base, (int)(out.size() % base.size())), kind + "+dup", 1});
}
static void build_families(std::vector<Shape>& out, bool thorough, const std::vector<int>& variants) {
    std::vector<int> ts = thorough ? std::vector<int>{1, 2, 3, 4, 5, 6, 7, 8, 9, 10, 11, 12} : std::vector<int>{2, 3, 4};
    for (int t : ts) {
        for (int h : thorough ? std::vector<int>{1, 3, 2 * t + 3} : std::vector<int>{1, 2 * t + 3}) add_family(out, comb(t, h), fmt("comb(t=%d,h=%d)", t, h), variants);
        for (int h : thorough ? std::vector<int>{1, 3} : std::vector<int>{3}) add_family(out, saw(t, h), fmt("saw(t=%d,h=%d)", t, h), variants);
    }
    for (int k = 1; k <= (thorough ? 6 : 2); k++) add_family(out, spiral(k), fmt("spiral(k=%d)", k), variants);
    if (thorough) { for (int s = 2; s <= 20; s++) { add_family(out, stair(s), fmt("stair(s=%d)", s), variants); add_family(out, band(s), fmt("band(s=%d)", s), variants); } }
    else for (int s : {3, 5, 8}) { add_family(out, stair(s), fmt("stair(s=%d)", s), variants); add_family(out, band(s), fmt("band(s=%d)", s), variants); }
    const int ab[][2] = {{0, 40}, {7, 33}, {39, 40}, {0, 1}, {20, 20}, {13, 14}};
    for (auto& x : ab)
        for (int mb : {1, 2, 4})
            for (int mt : {0, 2}) {
                if (x[0] == x[1] && mt) continue;
                if ((x[1] - x[0]) % (mt + 1)) continue;
                add_family(out, sliver(x[0], x[1], mb, mt), fmt("sliver(a=%d,b=%d,mb=%d,mt=%d)", x[0], x[1], mb, mt), variants);
            }
    for (int ph : {0, 2, 3}) add_family(out, zigzag(ph), fmt("zigzag(phase=%d)", ph), variants);
}
static void lattice_bbox(const IPoly& p, int64_t& x0, int64_t& y0, int64_t& x1, int64_t& y1);

// --- sort-fallback family: polygons whose vertex coordinate sequence drives Polygon::fracture's
// sort(coords, n) (gdstk::sort = introsort: quicksort with pivot median of items[0], items[hi>>2], items[hi];
// depth budget 2*floor(log2 n); heap_sort fallback when the budget is exhausted on a sub-array longer than 16)
// into the heap_sort fallback, with the content of the heap-sorted sub-array in several arrangements.
// The permutation is derived from the implementation itself with McIlroy's "antiqsort" adversary: the real
// gdstk::intro_sort (unbounded depth = the pure quicksort part of gdstk::sort) sorts the indices 0..n-1 with a
// comparator that decides the values as late as possible; the frozen values val[] make this very quicksort
// degenerate.  The real gdstk::sort on val[] follows the same comparisons until its depth budget is exhausted
// (T comparisons, found by comparing the comparison traces of sort and unbounded intro_sort).  The elements still
// undecided after T comparisons sit in the sub-array that heap_sort receives; any assignment of their values is
// consistent with the path so far, so they are re-assigned in 4 arrangements (what reaches heap_sort's first
// slot, i.e. the heap root, varies from the sub-array's minimum to its maximum).
namespace aq {
static std::vector<int> val;
static int gas, nsolid, candidate, ntot;
static int64_t ncalls, stop_after;
static bool mirrored;  // false: undecided ("gas") values are larger than every decided one, frozen to 0,1,2,..
                       // (the unsorted remainder, and so the heap-sorted sub-array, stays at the right end);
                       // true: gas is smaller than every decided value, frozen to n-1,n-2,.. (remainder at the left,
                       // so the last slot of the heap-sorted sub-array is in the interior of the whole array)
struct Stop {};
static bool cmp(const int& x, const int& y) {
    if (stop_after >= 0 && ncalls >= stop_after) throw Stop();
    ncalls++;
    if (val[x] == gas && val[y] == gas) {
        int v = mirrored ? ntot - 1 - nsolid : nsolid;
        nsolid++;
        if (x == candidate) val[x] = v; else val[y] = v;
    }
    if (val[x] == gas) candidate = x; else if (val[y] == gas) candidate = y;
    return val[x] < val[y];
}
// runs the adversary; stop >= 0: abandon the sort after that many comparisons.  idx = array state at the end.
static void run_adversary(int n, bool mirror, int64_t stop, std::vector<int>& idx) {
    mirrored = mirror;
    ntot = n;
    gas = mirror ? -1000 : n + 1000;
    val.assign(n, gas);
    nsolid = 0; candidate = 0; ncalls = 0; stop_after = stop;
    idx.resize(n);
    for (int i = 0; i < n; i++) idx[i] = i;
    try { gdstk::intro_sort<int>(idx.data(), n, (int64_t)1 << 40, cmp); } catch (Stop&) {}
}
// comparison traces of the real gdstk::sort vs the real gdstk::intro_sort with an unbounded depth budget on the
// same data: the same code except for the branch `max_depth == 0` (reached with count > 16), so they differ iff
// that branch is taken; the first differing comparison is heap_sort's first.
static std::vector<std::pair<double, double>>* trace;
static bool traced(const double& a, const double& b) { trace->push_back({a, b}); return a < b; }
// -1: gdstk::sort never leaves the quicksort path on this data; else number of comparisons before heap_sort starts
static int64_t comparisons_before_fallback(const std::vector<double>& data) {
    std::vector<double> a = data, b = data;
    std::vector<std::pair<double, double>> t1, t2;
    trace = &t1;
    gdstk::sort<double>(a.data(), (int64_t)a.size(), traced);
    trace = &t2;
    gdstk::intro_sort<double>(b.data(), (int64_t)b.size(), (int64_t)1 << 40, traced);
    size_t i = 0;
    while (i < t1.size() && i < t2.size() && t1[i] == t2[i]) i++;
    if (i == t1.size() && i == t2.size()) return -1;
    return (int64_t)i;
}
// arrangement 0: the adversary's own values; 1: undecided elements ascending in array order (heap root = minimum
// of the undecided); 2: descending (root = maximum); 3: root = median, the others ascending
static std::vector<int> permutation(int n, bool mirror, int arrangement, bool* fallback) {
    std::vector<int> idx;
    run_adversary(n, mirror, -1, idx);
    for (int i = 0; i < n; i++) if (val[i] == gas) { val[i] = mirror ? ntot - 1 - nsolid : nsolid; nsolid++; }
    std::vector<int> v0 = val;
    int64_t T = comparisons_before_fallback(std::vector<double>(v0.begin(), v0.end()));
    if (fallback) *fallback = T >= 0;
    if (T < 0 || arrangement == 0) return v0;
    run_adversary(n, mirror, T, idx);
    std::vector<int> und, vals;  // undecided elements in array order at the moment heap_sort would start
    for (int pos = 0; pos < n; pos++) if (val[idx[pos]] == gas) { und.push_back(idx[pos]); vals.push_back(v0[idx[pos]]); }
    std::sort(vals.begin(), vals.end());
    std::vector<int> v = v0;
    size_t m = und.size();
    if (m < 2) return v0;
    if (arrangement == 1) for (size_t i = 0; i < m; i++) v[und[i]] = vals[i];
    else if (arrangement == 2) for (size_t i = 0; i < m; i++) v[und[i]] = vals[m - 1 - i];
    else {
        v[und[0]] = vals[m / 2];
        for (size_t i = 1, k = 0; i < m; i++, k++) { if (k == m / 2) k++; v[und[i]] = vals[k]; }
    }
    // the re-assignment must not change the path up to the fallback
    int64_t T2 = comparisons_before_fallback(std::vector<double>(v.begin(), v.end()));
    if (T2 != T) { if (fallback) *fallback = false; }
    return v;
}
// the simple polygon: vertex k (val[k]==0) is C=(-sx,0) in lattice units (sx = n, so that rounding y to the
// lattice keeps the polar angles about C strictly increasing); vertex j != k is at x = sx*val[j],
// y = round(sx*(val[j]+1)*tan t_j), t_j increasing along the vertex cycle from -20 to +20 degrees: star-shaped
// about C, x-sequence order-isomorphic to val[] (sort only compares), bounding box wider than tall.
static IPoly polygon(const std::vector<int>& v) {
    int n = (int)v.size(), k = 0;
    for (int i = 0; i < n; i++) if (v[i] == 0) k = i;
    const int64_t sx = n;
    IPoly p(n);
    p[k] = {-sx, 0};
    const long double PI = 3.14159265358979323846264338327950288L;
    for (int m = 1; m < n; m++) {
        int j = (k + m) % n;
        long double t = (-20.0L + 40.0L * (m - 1) / (long double)(n - 2)) * PI / 180.0L;
        p[j] = {sx * v[j], (int64_t)llroundl((long double)(sx * (v[j] + 1)) * tanl(t))};
    }
    return p;
}
}  // namespace aq
// variant bit 0: 0 = x-sequence adversarial (fracture's x branch), 1 = transposed (y branch);
// variant bit 1: 0 = standard adversary, 1 = mirrored adversary; variant bits 2-3: arrangement 0..3
static bool make_antiqsort_shape(int n, int variant, Shape& out, bool* fallback) {
    bool fb = false;
    std::vector<int> v = aq::permutation(n, (variant & 2) != 0, (variant >> 2) & 3, &fb);
    IPoly p = aq::polygon(v);
    if (variant & 1) for (auto& q : p) std::swap(q.x, q.y);
    int64_t x0, y0, x1, y1;
    lattice_bbox(p, x0, y0, x1, y1);
    // the coordinates fracture will sort: x if the box is wider than tall, else y (Polygon::fracture)
    bool xb = (x1 - x0) > (y1 - y0);
    std::vector<double> data;
    for (auto& q : p) data.push_back((double)(xb ? q.x : q.y));
    // probe on the coordinates fracture really sorts
    if (fallback) *fallback = fb && aq::comparisons_before_fallback(data) >= 0;
    out.pts = p;
    out.kind = fmt("antiqsort(n=%d,%s,%s,arr%d)", n, (variant & 1) ? "y" : "x", (variant & 2) ? "mirrored" : "standard", (variant >> 2) & 3);
    out.rfn = 1;
    out.stride = (int)std::max<int64_t>(1, std::max(x1 - x0, y1 - y0) / 28);
    out.gen = fmt("aq:%d:%d", n, variant);
    return xb == ((variant & 1) == 0);
}
static void build_antiqsort(std::vector<Shape>& out, int nlo, int nhi, int step, const std::vector<int>& variants, int* reaching, int* total) {
    for (int n = nlo; n <= nhi; n += step)
        for (int variant : variants) {
            Shape sh;
            bool fb = false;
            bool axis_ok = make_antiqsort_shape(n, variant, sh, &fb);
            if (!axis_ok) { R->internal_error(fmt("antiqsort n=%d variant %d: bounding box does not select the intended axis", n, variant)); continue; }
            if (!eg::is_simple(sh.pts, true)) { R->internal_error(fmt("antiqsort n=%d variant %d: polygon is not simple", n, variant)); continue; }
            if (total) (*total)++;
            if (fb && reaching) (*reaching)++;
            if (fb) R->count("antiqsort_shapes_reaching_heap_sort_fallback");
            out.push_back(sh);
        }
}
static Shape shape_from_tok(const std::string& tok, int rfn) {
    int den = atoi(R->rarg("den").c_str()), stride = atoi(R->rarg("stride").c_str());
    if (tok.compare(0, 3, "aq:") == 0) {
        int n = 0, variant = 0;
        sscanf(tok.c_str(), "aq:%d:%d", &n, &variant);
        Shape sh;
        bool fb = false;
        make_antiqsort_shape(n, variant, sh, &fb);
        fprintf(stderr, "antiqsort shape n=%d variant=%d: sort reaches the heap_sort fallback: %s\n", n, variant, fb ? "yes" : "no");
        return sh;
    }
    Shape sh;
    sh.pts = parse_pts(tok);
    sh.kind = "replay";
    sh.rfn = rfn;
    if (den > 1) sh.sub = den;
    if (stride > 1) sh.stride = stride;
    return sh;
}
// lattice shapes + one repeated-vertex version per listed position
static void build_lattice(std::vector<Shape>& out, int g, int nmin, int nmax, bool all_dups) {
    std::vector<IPoly> ps;
    eg::enumerate_simple_polygons(g, nmin, nmax, true, true, ps);
    for (size_t i = 0; i < ps.size(); i++) {
        out.push_back({ps[i], "lattice", 2});
        int n = (int)ps[i].size();
        if (all_dups) for (int k = 0; k < n; k++) out.push_back({with_dup(ps[i], k), "lattice+dup", 2});
        else out.push_back({with_dup(ps[i], (int)(i % n)), "lattice+dup", 2});
    }
}

// ------------------------------------------------------------------------------ exact helpers
// All "fine" coordinates are multiples of 1/(U*S) lattice units, S = 21*rfn.
static IPoly lift(const IPoly& p, int64_t f, IP off = {0, 0}) {
    IPoly q(p.size());
    for (size_t i = 0; i < p.size(); i++) q[i] = {(p[i].x + off.x) * f, (p[i].y + off.y) * f};
    return q;
}
// exact: squared distance from q to segment ab <= G^2 ?
static inline bool near_seg(IP a, IP b, IP q, int64_t G) {
    i128 l2 = eg::dot(a, b, b), t = eg::dot(a, b, q), G2 = (i128)G * G;
    if (l2 == 0 || t <= 0) { i128 dx = q.x - a.x, dy = q.y - a.y; return dx * dx + dy * dy <= G2; }
    if (t >= l2) { i128 dx = q.x - b.x, dy = q.y - b.y; return dx * dx + dy * dy <= G2; }
    i128 c = eg::cross(a, b, q);
    if (c < 0) c = -c;
    if (c > ((i128)1 << 62)) return false;  // G^2*l2 < 2^100 for every coordinate range used here; avoids c*c overflowing
    return c * c <= G2 * l2;
}
static inline bool near_poly(const IPoly& p, IP q, int64_t G) {
    size_t n = p.size();
    for (size_t i = 0; i < n; i++) {
        IP a = p[i], b = p[(i + 1) % n];
        if (std::min(a.x, b.x) - G > q.x || std::max(a.x, b.x) + G < q.x || std::min(a.y, b.y) - G > q.y || std::max(a.y, b.y) + G < q.y) continue;
        if (near_seg(a, b, q, G)) return true;
    }
    return false;
}
static void lattice_bbox(const IPoly& p, int64_t& x0, int64_t& y0, int64_t& x1, int64_t& y1) {
    x0 = x1 = p[0].x; y0 = y1 = p[0].y;
    for (auto& q : p) { x0 = std::min(x0, q.x); x1 = std::max(x1, q.x); y0 = std::min(y0, q.y); y1 = std::max(y1, q.y); }
}
struct Samp { IP q; int expect; };
// sample points around the placed copies of `lat` (lattice polygon, offsets in lattice units); points within
// the guard band of an original edge are dropped (counted in *guarded).  expect = number of copies covering.
static int64_t fdiv(int64_t a, int64_t b) { return a >= 0 ? a / b : -((-a + b - 1) / b); }
static int64_t cdiv(int64_t a, int64_t b) { return -fdiv(-a, b); }
// lat is in 1/sub lattice units (sub must divide 21*rfn); offsets are in lattice units
static void make_samples(const IPoly& lat, const std::vector<IP>& offsets, int64_t U, int rfn, std::vector<Samp>& out, int64_t* guarded, int stride = 1, int sub = 1) {
    const int64_t S = 21 * rfn, G = 3 * S;
    int64_t x0, y0, x1, y1;
    lattice_bbox(lat, x0, y0, x1, y1);
    x0 = fdiv(x0, sub); y0 = fdiv(y0, sub); x1 = cdiv(x1, sub); y1 = cdiv(y1, sub);
    for (auto& off : offsets) {
        IPoly o = lift(lat, U * S / sub, {off.x * sub, off.y * sub});
        for (int64_t i = rfn * (x0 + off.x - 1); i < rfn * (x1 + off.x + 1); i += stride)
            for (int64_t j = rfn * (y0 + off.y - 1); j < rfn * (y1 + off.y + 1); j += stride) {
                IP q = {(21 * i + 7) * U, (21 * j + 3) * U};
                if (near_poly(o, q, G)) { if (guarded) (*guarded)++; continue; }
                out.push_back({q, eg::winding(o, q) != 0 ? 1 : 0});
            }
    }
}
struct PartVerdict {
    int64_t checked = 0, guarded = 0;
    int lost = 0, gain = 0, overlap = 0;
    std::string first;  // description of the first offending sample
};
// pieces in fine units; guard also around every piece edge when guard_pieces
static PartVerdict check_partition(const std::vector<Samp>& samples, const std::vector<IPoly>& pieces, int64_t U, int rfn, bool guard_pieces) {
    PartVerdict v;
    const int64_t S = 21 * rfn, G = 3 * S;
    for (auto& s : samples) {
        if (guard_pieces) {
            bool nr = false;
            for (auto& p : pieces) if (near_poly(p, s.q, G)) { nr = true; break; }
            if (nr) { v.guarded++; continue; }
        }
        v.checked++;
        int c = 0;
        for (auto& p : pieces) if (eg::winding(p, s.q) != 0) c++;
        if (c == s.expect) continue;
        const char* what = c < s.expect ? "lost" : s.expect == 0 ? "gain" : "overlap";
        if (c < s.expect) v.lost++; else if (s.expect == 0) v.gain++; else v.overlap++;
        if (v.first.empty())
            v.first = fmt("%s at sample (%.6f, %.6f): covered by %d piece(s), original covers it %d time(s)", what,
                          (double)s.q.x / (double)(U * S), (double)s.q.y / (double)(U * S), c, s.expect);
    }
    return v;
}
static i128 abs128(i128 v) { return v < 0 ? -v : v; }
// mult = grid points per coordinate unit of the polygons in arr
static bool pieces_to_grid(const Array<Polygon*>& arr, double mult, std::vector<IPoly>& out, std::string& err) {
    for (uint64_t i = 0; i < arr.count; i++) {
        IPoly p;
        for (uint64_t j = 0; j < arr[i]->point_array.count; j++) {
            IP q;
            Vec2 v = arr[i]->point_array[j];
            if (!eg::to_grid(v.x, mult, q.x) || !eg::to_grid(v.y, mult, q.y)) {
                err = fmt("piece %llu vertex %llu = (%.17g, %.17g) is not on the 1/%.17g grid", (unsigned long long)i, (unsigned long long)j, v.x, v.y, mult);
                return false;
            }
            p.push_back(q);
        }
        out.push_back(p);
    }
    return true;
}
static int64_t count_new_vertices(const IPoly& lat, int64_t U, const std::vector<IPoly>& pieces, int sub = 1) {
    std::set<IP> orig;
    for (auto& q : lat) if ((q.x * U) % sub == 0 && (q.y * U) % sub == 0) orig.insert({q.x * U / sub, q.y * U / sub});
    int64_t n = 0;
    for (auto& p : pieces) for (auto& q : p) if (!orig.count(q)) n++;
    return n;
}

// ------------------------------------------------------------------------------ building gdstk polygons
static void set_points(Polygon& poly, const IPoly& lat, IP off = {0, 0}, double scale = 1) {
    for (auto& q : lat) poly.point_array.append(Vec2{scale * (double)(q.x + off.x), scale * (double)(q.y + off.y)});
}
static void set_repetition(Repetition& r, int kind) {
    memset(&r, 0, sizeof r);
    switch (kind) {
        case 0: r.type = RepetitionType::Rectangular; r.columns = 2; r.rows = 3; r.spacing = Vec2{100, 200}; break;
        case 1: r.type = RepetitionType::Explicit; r.offsets.append(Vec2{100, 0}); r.offsets.append(Vec2{0, 200}); r.offsets.append(Vec2{-100, 50}); break;
        case 2: r.type = RepetitionType::ExplicitX; r.coords.append(100); r.coords.append(250); break;
        case 3: r.type = RepetitionType::Regular; r.columns = 2; r.rows = 2; r.v1 = Vec2{100, 10}; r.v2 = Vec2{-10, 100}; break;
        default: r.type = RepetitionType::None;
    }
}
static void set_two_properties(Property*& props) {
    set_property(props, "note", (uint64_t)7, true);
    set_property(props, "note", "xy", false);
    set_gds_property(props, 5, "ab");
}
static void collect_prop_storage(const Property* p, std::vector<const void*>& out) {
    for (; p; p = p->next) {
        out.push_back(p);
        out.push_back(p->name);
        for (PropertyValue* v = p->value; v; v = v->next) {
            out.push_back(v);
            if (v->type == PropertyType::String && v->bytes) out.push_back(v->bytes);
        }
    }
}
static const void* rep_storage(const Repetition& r) {
    if (r.type == RepetitionType::Explicit) return r.offsets.items;
    if (r.type == RepetitionType::ExplicitX || r.type == RepetitionType::ExplicitY) return r.coords.items;
    return NULL;
}
static void free_polys(Array<Polygon*>& a) {
    for (uint64_t i = 0; i < a.count; i++) { a[i]->clear(); free_allocation(a[i]); }
    a.clear();
}

// ------------------------------------------------------------------------------ FRACTURE
static const uint64_t LIMITS_BELOW_FIVE[] = {0, 1, 2, 3, 4};

static void fracture_case(const Shape& sh, uint64_t mp, int pi, int repkind, bool verbose) {
    const Prec& pr = PRECS[pi];
    // U = oracle grid points per lattice unit.  Thin-slit members (sh.sub > 1) are defined relative to the precision
    // grid: lattice unit = one grid step, pts in 1/sub steps, coordinates handed to gdstk = pts * precision / sub.
    const int64_t U = sh.sub > 1 ? 1 : pr.U, S = 21 * sh.rfn, SUB = sh.sub;
    const std::string sub = "fracture";
    std::string replay = "sub=fracture pts=" + shape_tok(sh) + fmt(" mp=%llu prec=%d rep=%d rfn=%d den=%d stride=%d", (unsigned long long)mp, pi, repkind, sh.rfn, sh.sub, sh.stride);
    JFields tags = {{"kind", jstr(sh.kind.substr(0, sh.kind.find('(')))}, {"n", jint((int64_t)sh.pts.size())}, {"max_points", juint(mp)}, {"precision", jstr(pr.name)}, {"repetition", jint(repkind)}};
    Polygon poly = {};
    poly.tag = make_tag(3, 7);
    set_points(poly, sh.pts, {0, 0}, sh.sub > 1 ? pr.precision / sh.sub : 1.0);
    set_repetition(poly.repetition, repkind);
    set_two_properties(poly.properties);
    const std::string before = dump::polygon(poly);
    Array<Polygon*> result = {};
    poly.fracture(mp, pr.precision, result);
    std::vector<IPoly> pieces;
    std::string err;
    auto case_json = [&]() {
        return jobj({{"kind", jstr(sh.kind)}, {"points", jpts(sh.pts)}, {"max_points", juint(mp)}, {"precision", jstr(pr.name)}, {"repetition_kind", jint(repkind)},
                     {"pieces", jpieces(pieces, U)}});
    };
    auto viol = [&](const std::string& cls, const std::string& detail) { R->violation(sub, cls, tags, case_json(), detail, replay); };
    R->count("cases");
    R->count("fracture_cases");
    if (dump::polygon(poly) != before) viol("original_modified", "the polygon being fractured changed: before " + before + " after " + dump::polygon(poly));
    if (mp < 5) {
        // "a limit below five leaves the polygon alone": nothing is produced, the original stays as it is
        R->count("fracture_limit_below_five");
        if (result.count != 0) { pieces_to_grid(result, (double)pr.U, pieces, err); viol("limit_below_five_produced_pieces", fmt("max_points=%llu: %llu piece(s) appended", (unsigned long long)mp, (unsigned long long)result.count)); }
        free_polys(result);
        poly.clear();
        return;
    }
    if (!pieces_to_grid(result, (double)pr.U, pieces, err)) {
        if (sh.sub > 1 && result.count == 1 && result[0]->point_array.count == sh.pts.size()) {  // untouched copy of a member with off-grid (slit) vertices
            R->count("fracture_cases_untouched_offgrid_member");
            free_polys(result);
            poly.clear();
            return;
        }
        R->internal_error("fracture output off the precision grid (oracle cannot represent it): " + err + " replay: " + replay);
        free_polys(result);
        poly.clear();
        return;
    }
    if (verbose) fprintf(stderr, "fracture: %zu piece(s): %s\n", pieces.size(), jpieces(pieces, U).c_str());
    // 1. vertex bound
    for (size_t i = 0; i < pieces.size(); i++)
        if (pieces[i].size() > mp) { viol("too_many_vertices", fmt("piece %zu has %zu vertices > max_points=%llu", i, pieces[i].size(), (unsigned long long)mp)); break; }
    // 2. region: cover count at every sample point outside the guard band
    std::vector<Samp> samples;
    int64_t guarded = 0;
    make_samples(sh.pts, {{0, 0}}, U, sh.rfn, samples, &guarded, sh.stride, sh.sub);
    std::vector<IPoly> fine;
    for (auto& p : pieces) fine.push_back(lift(p, S));
    PartVerdict v = check_partition(samples, fine, U, sh.rfn, true);
    R->count("samples_checked", v.checked);
    R->count("samples_guarded", v.guarded + guarded);
    if (v.lost) viol("region_lost", v.first + fmt(" (%d lost, %d gained, %d overlapping of %lld samples)", v.lost, v.gain, v.overlap, (long long)v.checked));
    else if (v.gain) viol("region_gained", v.first + fmt(" (%d gained, %d overlapping of %lld samples)", v.gain, v.overlap, (long long)v.checked));
    else if (v.overlap) viol("pieces_overlap", v.first + fmt(" (%d overlapping of %lld samples)", v.overlap, (long long)v.checked));
    // 3. area identity with the rounding slack (#new vertices + #pieces) * extent * precision
    {
        // everything scaled by SUB^2 so that members given in 1/SUB grid steps stay integral
        i128 a_orig = abs128(eg::area2(sh.pts)) * U * U, a_sum = 0;
        for (auto& p : pieces) a_sum += abs128(eg::area2(p));
        a_sum *= SUB * SUB;
        int64_t x0, y0, x1, y1;
        lattice_bbox(sh.pts, x0, y0, x1, y1);
        int64_t newv = count_new_vertices(sh.pts, U, pieces, sh.sub);
        i128 slack2 = (i128)2 * (newv + (pieces.size() > 1 ? (int64_t)pieces.size() : 0)) * ((x1 - x0) + (y1 - y0)) * U * SUB;
        const double an = 2.0 * U * U * SUB * SUB;
        if (abs128(a_sum - a_orig) > slack2)
            viol("area_changed", fmt("sum of piece areas %.9g != original area %.9g (slack %.3g, %lld new vertices)", (double)a_sum / an, (double)a_orig / an, (double)slack2 / an, (long long)newv));
        if (newv) R->count("fracture_with_rounded_or_new_vertices");
    }
    // 4. tag, repetition, properties on every piece: deep-equal, storage not shared
    {
        std::string rep0 = dump::repetition(poly.repetition), prop0 = dump::properties(poly.properties);
        std::vector<const void*> store;
        collect_prop_storage(poly.properties, store);
        if (rep_storage(poly.repetition)) store.push_back(rep_storage(poly.repetition));
        store.push_back(poly.point_array.items);
        for (uint64_t i = 0; i < result.count; i++) {
            Polygon* p = result[i];
            if (p->tag != poly.tag) { viol("tag_differs", fmt("piece %llu has tag (%u,%u)", (unsigned long long)i, get_layer(p->tag), get_type(p->tag))); break; }
            if (dump::repetition(p->repetition) != rep0) { viol("repetition_differs", fmt("piece %llu: ", (unsigned long long)i) + dump::repetition(p->repetition) + " vs " + rep0); break; }
            if (dump::properties(p->properties) != prop0) { viol("properties_differ", fmt("piece %llu: ", (unsigned long long)i) + dump::properties(p->properties) + " vs " + prop0); break; }
            collect_prop_storage(p->properties, store);
            if (rep_storage(p->repetition)) store.push_back(rep_storage(p->repetition));
            if (p->point_array.items) store.push_back(p->point_array.items);
        }
        std::set<const void*> uniq(store.begin(), store.end());
        if (uniq.size() != store.size()) viol("shared_storage", "two of {original, pieces} share a properties / repetition / point allocation");
    }
    // bookkeeping
    bool nontrivial = pieces.size() > 2;
    if (pieces.size() > 1 && keeps_hole(sh, U, {0, 0}, pieces)) R->count("fracture_cases_piece_keeps_hole_whole");
    if (nontrivial) { R->count("nontrivial"); R->count("nontrivial_fracture"); }
    if (pieces.size() > 1) R->count("fracture_cases_cut");
    R->outcome(sub, fmt("in=%zu mp=%llu pieces=%zu", sh.pts.size(), (unsigned long long)mp, pieces.size()));
    if (nontrivial) R->sample(sub, case_json());
    free_polys(result);
    poly.clear();
}

// run fracture over shapes[first..last) x limits x precisions
static void fracture_block(const std::vector<Shape>& shapes, size_t first, size_t last, const std::vector<uint64_t>& limits, bool verbose) {
    for (size_t s = first; s < last && s < shapes.size(); s++) {
        int c = 0;
        for (uint64_t mp : limits)
            for (int pi = 0; pi < 3; pi++) {
                if (verbose) fprintf(stderr, "fracture case: pts=%s mp=%llu prec=%s\n", pts_str(shapes[s].pts).c_str(), (unsigned long long)mp, PRECS[pi].name);
                fracture_case(shapes[s], mp, pi, (int)((s + c++) % 4), verbose);
            }
        for (uint64_t mp : LIMITS_BELOW_FIVE) fracture_case(shapes[s], mp, (int)(s % 3), (int)(s % 4), verbose);
    }
}

// ------------------------------------------------------------------------------ WRITER
struct RawBoundary { int layer = -1, dtype = -1; std::vector<size_t> xy_record_pairs; IPoly xy; std::vector<std::pair<int, std::string>> props; };
// Minimal GDSII record walker (record = u16 length, u8 type, u8 data type, payload; big endian).
// Independent of gdstk.  TODO(codec): when codec/gds_codec.py (strict, specification-derived decoder)
// lands, additionally hand `path` to it here (see decode_with_independent_codec below).
static bool walk_gds(const std::string& path, std::map<std::string, std::vector<RawBoundary>>& cells, std::string& err) {
    FILE* f = fopen(path.c_str(), "rb");
    if (!f) { err = "cannot open " + path; return false; }
    std::vector<uint8_t> d;
    uint8_t buf[65536];
    size_t r;
    while ((r = fread(buf, 1, sizeof buf, f)) > 0) d.insert(d.end(), buf, buf + r);
    fclose(f);
    size_t p = 0;
    std::string cur;
    RawBoundary* b = NULL;
    int pend_attr = -1;
    bool in_el = false, endlib = false;
    while (p + 4 <= d.size()) {
        size_t len = (d[p] << 8) | d[p + 1];
        int rt = d[p + 2];
        if (len < 4 || len % 2 || p + len > d.size()) { err = fmt("bad record length %zu at offset %zu", len, p); return false; }
        const uint8_t* q = &d[p + 4];
        size_t n = len - 4;
        switch (rt) {
            case 0x06: cur.assign((const char*)q, n); while (!cur.empty() && cur.back() == 0) cur.pop_back(); cells[cur]; break;
            case 0x08: cells[cur].push_back(RawBoundary()); b = &cells[cur].back(); in_el = true; break;
            case 0x09: case 0x0A: case 0x0B: case 0x0C: case 0x2D: case 0x15: b = NULL; in_el = true; break;
            case 0x0D: if (b && n >= 2) b->layer = (int16_t)((q[0] << 8) | q[1]); break;
            case 0x0E: if (b && n >= 2) b->dtype = (int16_t)((q[0] << 8) | q[1]); break;
            case 0x10:
                if (b) {
                    if (n % 8) { err = "XY payload not a multiple of 8"; return false; }
                    b->xy_record_pairs.push_back(n / 8);
                    for (size_t i = 0; i < n; i += 8) {
                        int32_t x = (int32_t)(((uint32_t)q[i] << 24) | (q[i + 1] << 16) | (q[i + 2] << 8) | q[i + 3]);
                        int32_t y = (int32_t)(((uint32_t)q[i + 4] << 24) | (q[i + 5] << 16) | (q[i + 6] << 8) | q[i + 7]);
                        b->xy.push_back({x, y});
                    }
                }
                break;
            case 0x2B: if (n >= 2) pend_attr = (q[0] << 8) | q[1]; break;
            case 0x2C: if (b) b->props.push_back({pend_attr, std::string((const char*)q, n)}); pend_attr = -1; break;
            case 0x11: b = NULL; in_el = false; break;
            case 0x07: cur.clear(); break;
            case 0x04: endlib = true; break;
            default: break;
        }
        p += len;
        if (endlib) break;
    }
    if (!endlib) { err = "no ENDLIB"; return false; }
    (void)in_el;
    return true;
}
static void decode_with_independent_codec(const std::string& /*path*/) {
    // TODO(codec): hook for the specification-derived GDSII decoder of another module (codec/gds_codec.py);
    // until it exists the record walker above provides the independent view of record sizes and integers.
}

// placement of the copies inside a writer cell (lattice units): repetition pitch along x, translated copy along y
// (in lattice units; for members given in 1/sub steps the box is rounded up to whole lattice units)
static IP wr_rep(const Shape& sh) { int64_t x0, y0, x1, y1; lattice_bbox(sh.pts, x0, y0, x1, y1); return {std::max<int64_t>(64, cdiv(x1 - x0, sh.sub) + 8), 0}; }
static IP wr_shift(const Shape& sh) { int64_t x0, y0, x1, y1; lattice_bbox(sh.pts, x0, y0, x1, y1); return {0, std::max<int64_t>(64, cdiv(y1 - y0, sh.sub) + 8)}; }
// (pts + off*sub) * U / sub rounded to the nearest integer (file-grid coordinates of an untouched original)
static IPoly lift_round(const IPoly& p, int64_t U, IP off, int sub) {
    IPoly q(p.size());
    for (size_t i = 0; i < p.size(); i++) q[i] = {fdiv(2 * (p[i].x + off.x * sub) * U + sub, 2 * sub), fdiv(2 * (p[i].y + off.y * sub) * U + sub, 2 * sub)};
    return q;
}

// one library with a cell per shape; each cell holds the polygon twice (layer 3 with a 2x1 repetition,
// layer 4 translated, no repetition) so that the writer's work array is reused inside a cell.  Every
// (configuration, limit) is written by both writers: Library::write_gds and the streaming GdsWriter
// (gdswriter_init / write_cell per cell / close).  only_writer: -1 both, 0 library, 1 streaming.
static void writer_block(const std::vector<Shape>& shapes, size_t first, size_t last, const std::vector<uint64_t>& limits, const std::vector<int>& cfgs, bool verbose, int only_writer = -1) {
    last = std::min(last, shapes.size());
    if (first >= last) return;
    const std::string sub = "writer";
    tm ts = {};
    ts.tm_year = 120; ts.tm_mon = 0; ts.tm_mday = 2; ts.tm_hour = 3; ts.tm_min = 4; ts.tm_sec = 5;
    for (int ci : cfgs) {
        const WCfg& wc = WCFGS[ci];
        const int64_t U = wc.U;
        Library lib = {};
        lib.name = copy_string("C12", NULL);
        lib.unit = wc.unit;
        lib.precision = wc.precision;
        for (size_t s = first; s < last; s++) {
            Cell* c = (Cell*)allocate_clear(sizeof(Cell));
            c->name = copy_string(fmt("S%zu", s).c_str(), NULL);
            Polygon* a = (Polygon*)allocate_clear(sizeof(Polygon));
            a->tag = make_tag(3, 7);
            // user units per pts unit; thin-slit members: lattice unit = one file-grid step (= scale/U user units), pts in 1/sub steps
            const int sb = shapes[s].sub;
            const double cs = sb > 1 ? wc.scale / (double)wc.U / sb : wc.scale;
            set_points(*a, shapes[s].pts, {0, 0}, cs);
            a->repetition.type = RepetitionType::Rectangular;
            a->repetition.columns = 2; a->repetition.rows = 1; a->repetition.spacing = Vec2{cs * sb * (double)wr_rep(shapes[s]).x, cs * sb * (double)wr_rep(shapes[s]).y};
            set_two_properties(a->properties);
            Polygon* b = (Polygon*)allocate_clear(sizeof(Polygon));
            b->tag = make_tag(4, 7);
            set_points(*b, shapes[s].pts, {wr_shift(shapes[s]).x * sb, wr_shift(shapes[s]).y * sb}, cs);
            set_two_properties(b->properties);
            c->polygon_array.append(a);
            c->polygon_array.append(b);
            lib.cell_array.append(c);
        }
        const std::string before = dump::library(lib);
        // sample points per (shape, layer), shared by every limit and both writers of this configuration
        std::vector<std::vector<Samp>> scache((last - first) * 2);
        std::vector<int64_t> sguard((last - first) * 2, -1);
        for (uint64_t mp : limits)
          for (int wk = 0; wk < 2; wk++) {
            if (only_writer >= 0 && wk != only_writer) continue;
            const char* wname = wk == 0 ? "Library::write_gds" : "GdsWriter::write_cell";
            std::string path = R->scratch + fmt("/w%d.%zu.%d.%llu.%d.gds", (int)getpid(), first, ci, (unsigned long long)mp, wk);
            ErrorCode ec = ErrorCode::NoError;
            if (wk == 0) ec = lib.write_gds(path.c_str(), mp, &ts);
            else {
                GdsWriter w = gdswriter_init(path.c_str(), "C12", wc.unit, wc.precision, mp, &ts, &ec);
                if (w.out) {
                    for (uint64_t i = 0; i < lib.cell_array.count; i++) { ErrorCode e1 = w.write_cell(*lib.cell_array[i]); if (e1 != ErrorCode::NoError) ec = e1; }
                    w.close();
                }
            }
            std::map<std::string, std::vector<RawBoundary>> raw;
            std::string err;
            bool okraw = ec == ErrorCode::NoError && walk_gds(path, raw, err);
            decode_with_independent_codec(path);
            ErrorCode rec = ErrorCode::NoError;
            Library back = read_gds(path.c_str(), 0, 1e-2, NULL, &rec);
            unlink(path.c_str());
            std::map<std::string, Cell*> backcells;
            for (uint64_t i = 0; i < back.cell_array.count; i++) backcells[back.cell_array[i]->name] = back.cell_array[i];
            if (dump::library(lib) != before)
                R->violation(sub, "originals_modified", {{"max_points", juint(mp)}, {"config", jstr(wc.name)}, {"writer", jstr(wname)}}, jobj({{"first_shape", jpts(shapes[first].pts)}}), "the writer changed the cells it wrote",
                             "sub=writer pts=" + shape_tok(shapes[first]) + fmt(" mp=%llu cfg=%d wr=%d rfn=%d", (unsigned long long)mp, ci, wk, shapes[first].rfn));
            for (size_t s = first; s < last; s++) {
                const Shape& sh = shapes[s];
                const int64_t S = 21 * sh.rfn, U = sh.sub > 1 ? 1 : wc.U, SUB = sh.sub;  // U shadows the configuration's: oracle grid points per lattice unit of this member
                std::string replay = "sub=writer pts=" + shape_tok(sh) + fmt(" mp=%llu cfg=%d wr=%d rfn=%d den=%d stride=%d", (unsigned long long)mp, ci, wk, sh.rfn, sh.sub, sh.stride);
                JFields tags = {{"kind", jstr(sh.kind.substr(0, sh.kind.find('(')))}, {"n", jint((int64_t)sh.pts.size())}, {"max_points", juint(mp)}, {"config", jstr(wc.name)}, {"writer", jstr(wname)}};
                std::vector<IPoly> shown;
                auto case_json = [&]() {
                    return jobj({{"kind", jstr(sh.kind)}, {"lattice_points", jpts(sh.pts)}, {"user_units_per_lattice_unit", jnum(wc.scale)}, {"max_points", juint(mp)}, {"config", jstr(wc.name)}, {"writer", jstr(wname)},
                                 {"records_in_lattice_units", jpieces(shown, U)}});
                };
                auto viol = [&](const std::string& cls, const std::string& detail) { R->violation(sub, cls, tags, case_json(), detail, replay); };
                R->count("cases");
                R->count("writer_cases");
                R->count(wk == 0 ? "writer_cases_library_write_gds" : "writer_cases_gdswriter_write_cell");
                if (wc.scale != 1) R->count("writer_cases_sub_unit_features");
                if (!okraw) { viol("write_failed", fmt("%s error code %d; walker: %s", wname, (int)ec, err.c_str())); continue; }
                std::string name = fmt("S%zu", s);
                std::vector<RawBoundary>& bs = raw[name];
                bool bad = false;
                std::vector<IPoly> per_layer[2];
                for (auto& b : bs) {
                    IPoly p = b.xy;
                    if (p.size() >= 2 && p.front() == p.back()) p.pop_back();
                    else { viol("record_not_closed", "BOUNDARY whose last XY pair differs from the first"); bad = true; break; }
                    shown.push_back(p);
                    if (b.dtype != 7 || (b.layer != 3 && b.layer != 4)) { viol("tag_differs", fmt("BOUNDARY with layer %d datatype %d", b.layer, b.dtype)); bad = true; break; }
                    if (b.props.size() != 1 || b.props[0].first != 5 || b.props[0].second.substr(0, 2) != "ab" || b.props[0].second.find_first_not_of('\0', 2) != std::string::npos) {
                        viol("properties_differ", fmt("BOUNDARY carries %zu GDSII properties (expected attribute 5 = \"ab\")", b.props.size()));
                        bad = true;
                        break;
                    }
                    if (mp >= 5) {
                        size_t tot = 0;
                        for (size_t k : b.xy_record_pairs) tot += k;
                        if (tot > mp + 1) { viol("too_many_vertices", fmt("BOUNDARY with %zu XY pairs > max_points+1 = %llu", tot, (unsigned long long)mp + 1)); bad = true; break; }
                    }
                    per_layer[b.layer - 3].push_back(p);
                }
                if (bad) continue;
                if (verbose) fprintf(stderr, "%s %s mp=%llu: layer3 %zu record(s), layer4 %zu record(s): %s\n", wname, wc.name, (unsigned long long)mp, per_layer[0].size(), per_layer[1].size(), jpieces(shown, U).c_str());
                // cross-read with gdstk's reader: same polygons, <= max_points vertices each
                {
                    Cell* bc = backcells.count(name) ? backcells[name] : NULL;
                    if (rec != ErrorCode::NoError || !bc) viol("reread_failed", fmt("read_gds error code %d or cell missing", (int)rec));
                    else if (bc->polygon_array.count != bs.size()) viol("reread_count", fmt("read_gds gives %llu polygons, file has %zu BOUNDARY records", (unsigned long long)bc->polygon_array.count, bs.size()));
                    else {
                        std::vector<IPoly> rd;
                        std::string e2;
                        if (!pieces_to_grid(bc->polygon_array, (double)wc.U / wc.scale, rd, e2)) viol("reread_off_grid", e2);
                        else
                            for (size_t i = 0; i < rd.size(); i++) {
                                Polygon* lp = bc->polygon_array[i];
                                if (mp >= 5 && rd[i].size() > mp) { viol("reread_too_many_vertices", fmt("loaded polygon %zu has %zu vertices", i, rd[i].size())); break; }
                                if (rd[i] != shown[i]) { viol("reread_differs", fmt("loaded polygon %zu differs from the XY integers in the file", i)); break; }
                                if ((int)get_layer(lp->tag) != bs[i].layer || (int)get_type(lp->tag) != bs[i].dtype) { viol("reread_tag", fmt("loaded polygon %zu tag differs", i)); break; }
                                const Property* pp = lp->properties;
                                bool pok = pp && !pp->next && strcmp(pp->name, "S_GDS_PROPERTY") == 0 && pp->value && pp->value->type == PropertyType::UnsignedInteger && pp->value->unsigned_integer == 5 &&
                                           pp->value->next && pp->value->next->type == PropertyType::String && pp->value->next->count >= 2 && memcmp(pp->value->next->bytes, "ab", 2) == 0;
                                if (!pok) { viol("reread_properties", fmt("loaded polygon %zu: ", i) + dump::properties(lp->properties)); break; }
                            }
                    }
                }
                for (int layer = 0; layer < 2; layer++) {
                    std::vector<IP> offs = layer == 0 ? std::vector<IP>{{0, 0}, wr_rep(sh)} : std::vector<IP>{wr_shift(sh)};
                    std::vector<IPoly>& pcs = per_layer[layer];
                    const char* L = layer == 0 ? "layer 3 (2x1 repetition)" : "layer 4 (translated copy)";
                    if (mp < 5) {
                        // a limit below five leaves the polygon alone: exactly the original vertex lists
                        bool same = pcs.size() == offs.size();
                        for (size_t k = 0; same && k < offs.size(); k++) same = pcs[k] == lift_round(sh.pts, U, offs[k], sh.sub);
                        if (!same) viol("limit_below_five_changed_polygon", fmt("%s: records differ from the original vertex list", L));
                        continue;
                    }
                    std::vector<Samp>& samples = scache[(s - first) * 2 + layer];
                    int64_t& guarded = sguard[(s - first) * 2 + layer];
                    if (guarded < 0) { guarded = 0; make_samples(sh.pts, offs, U, sh.rfn, samples, &guarded, sh.stride, sh.sub); }
                    std::vector<IPoly> fine;
                    for (auto& p : pcs) fine.push_back(lift(p, S));
                    PartVerdict v = check_partition(samples, fine, U, sh.rfn, true);
                    R->count("samples_checked", v.checked);
                    R->count("samples_guarded", v.guarded + guarded);
                    if (v.lost) viol("region_lost", std::string(L) + ": " + v.first);
                    else if (v.gain) viol("region_gained", std::string(L) + ": " + v.first);
                    else if (v.overlap) viol("pieces_overlap", std::string(L) + ": " + v.first);
                    i128 a_orig = abs128(eg::area2(sh.pts)) * U * U * (int64_t)offs.size(), a_sum = 0;
                    for (auto& p : pcs) a_sum += abs128(eg::area2(p));
                    a_sum *= SUB * SUB;
                    int64_t x0, y0, x1, y1;
                    lattice_bbox(sh.pts, x0, y0, x1, y1);
                    int64_t newv = 0;
                    {
                        std::set<IP> orig;
                        for (auto& o : offs) for (auto& q : lift_round(sh.pts, U, o, sh.sub)) orig.insert(q);
                        for (auto& p : pcs) for (auto& q : p) if (!orig.count(q)) newv++;
                    }
                    // an untouched member given in 1/sub steps is rounded to the file grid by the writer itself: allow for its off-grid vertices
                    int64_t offgrid = 0;
                    if (SUB > 1) for (auto& q : sh.pts) if (q.x % SUB || q.y % SUB) offgrid += (int64_t)offs.size();
                    i128 slack2 = (i128)2 * (newv + offgrid + (pcs.size() > offs.size() ? (int64_t)pcs.size() : 0)) * ((x1 - x0) + (y1 - y0)) * U * SUB;
                    const double an = 2.0 * U * U * SUB * SUB;
                    if (abs128(a_sum - a_orig) > slack2)
                        viol("area_changed", fmt("%s: sum of record areas %.9g != %.9g (slack %.3g)", L, (double)a_sum / an, (double)a_orig / an, (double)slack2 / an));
                    if (layer == 0) {
                        if (pcs.size() > 2 && keeps_hole(sh, U, {0, 0}, pcs)) R->count("writer_cases_piece_keeps_hole_whole");
                        if (pcs.size() > 2 * 2) { R->count("nontrivial"); R->count("nontrivial_writer"); }
                        if (pcs.size() > 2) R->count("writer_cases_cut");
                        R->outcome(sub, fmt("in=%zu mp=%llu records=%zu", sh.pts.size(), (unsigned long long)mp, pcs.size()));
                    }
                }
                if (per_layer[0].size() > 4 && wc.scale != 1 && wk == 1) R->sample(sub, case_json());
            }
            back.free_all();
          }
        lib.free_all();
    }
}

// ------------------------------------------------------------------------------ SLICE
// area (x2, grid units^2) of p clipped to lo <= axis <= hi, Sutherland-Hodgman in long double
static long double clipped_area2(const IPoly& p, bool x_axis, bool has_lo, long double lo, bool has_hi, long double hi) {
    typedef std::pair<long double, long double> V;
    std::vector<V> v;
    for (auto& q : p) v.push_back(x_axis ? V{(long double)q.x, (long double)q.y} : V{(long double)q.y, (long double)q.x});
    for (int side = 0; side < 2; side++) {
        if (side == 0 ? !has_lo : !has_hi) continue;
        long double c = side == 0 ? lo : hi, sg = side == 0 ? 1 : -1;
        std::vector<V> o;
        size_t n = v.size();
        for (size_t i = 0; i < n; i++) {
            V a = v[i], b = v[(i + 1) % n];
            bool ia = sg * (a.first - c) >= 0, ib = sg * (b.first - c) >= 0;
            if (ia) o.push_back(a);
            if (ia != ib) { long double t = (c - a.first) / (b.first - a.first); o.push_back({c, a.second + t * (b.second - a.second)}); }
        }
        v.swap(o);
    }
    long double a2 = 0;
    for (size_t i = 0, n = v.size(); i < n; i++) { V a = v[i], b = v[(i + 1) % n]; a2 += a.first * b.second - b.first * a.second; }
    return fabsl(a2);
}
struct SliceCtx {  // per (shape, axis-independent) precomputation shared by all cut lists
    const Shape* sh;
    std::vector<Samp> samples;  // guard around original edges already applied
    int64_t guarded = 0;
    IPoly grid;                 // original in grid units
};
static const int64_t SL_U = 1000;
// cuts2 = positions in half lattice units (sorted)
static void slice_case(const SliceCtx& cx, const std::vector<int>& cuts2, bool x_axis, bool verbose) {
    const Shape& sh = *cx.sh;
    // thin-slit members (sh.sub > 1): lattice unit = one 1/scaling step, pts in 1/sub steps, only integer cut positions
    const int64_t U = sh.sub > 1 ? 1 : SL_U, S = 21 * sh.rfn, G = 3 * S, SUB = sh.sub;
    const std::string sub = "slice";
    std::string cs;
    for (size_t i = 0; i < cuts2.size(); i++) cs += (i ? ";" : "") + std::to_string(cuts2[i]);
    std::string replay = "sub=slice pts=" + shape_tok(sh) + fmt(" cuts2=%s axis=%c rfn=%d den=%d stride=%d", cs.empty() ? "-" : cs.c_str(), x_axis ? 'x' : 'y', sh.rfn, sh.sub, sh.stride);
    Polygon poly = {};
    set_points(poly, sh.pts, {0, 0}, sh.sub > 1 ? 1.0 / ((double)SL_U * sh.sub) : 1.0);
    Array<double> positions = {};
    for (int c : cuts2) positions.append(sh.sub > 1 ? 0.5 * c / (double)SL_U : 0.5 * c);
    size_t nint = cuts2.size() + 1;
    Array<Polygon*>* result = (Array<Polygon*>*)allocate_clear(nint * sizeof(Array<Polygon*>));
    ErrorCode ec = slice(poly, positions, x_axis, (double)SL_U, result);
    std::vector<std::vector<IPoly>> pieces(nint), fine(nint);
    std::string err;
    bool okgrid = true;
    for (size_t i = 0; i < nint; i++) {
        if (!pieces_to_grid(result[i], (double)SL_U, pieces[i], err)) okgrid = false;
        for (auto& p : pieces[i]) fine[i].push_back(lift(p, S));
    }
    JFields tags = {{"kind", jstr(sh.kind.substr(0, sh.kind.find('(')))}, {"n", jint((int64_t)sh.pts.size())}, {"cuts", jint((int64_t)cuts2.size())}, {"axis", jstr(x_axis ? "x" : "y")}};
    auto case_json = [&]() {
        std::vector<std::string> pos, res;
        for (int c : cuts2) pos.push_back(jnum(0.5 * c));
        for (size_t i = 0; i < nint; i++) res.push_back(jpieces(pieces[i], U));
        return jobj({{"kind", jstr(sh.kind)}, {"points", jpts(sh.pts)}, {"positions", jarr(pos)}, {"x_axis", jbool(x_axis)}, {"scaling", jint(U)}, {"result", jarr(res)}});
    };
    auto viol = [&](const std::string& cls, const std::string& detail) { R->violation(sub, cls, tags, case_json(), detail, replay); };
    R->count("cases");
    R->count("slice_cases");
    if (verbose) fprintf(stderr, "slice result: %s\n", case_json().c_str());
    if (!okgrid) R->internal_error("slice output off the 1/scaling grid: " + err + " replay: " + replay);
    if (ec != ErrorCode::NoError) viol("error_code", fmt("slice returned error code %d", (int)ec));
    // zero-width intervals give empty results
    for (size_t i = 1; i + 1 < nint; i++)
        if (cuts2[i - 1] == cuts2[i] && !pieces[i].empty()) { viol("zero_width_interval_not_empty", fmt("interval %zu between equal positions has %zu polygon(s)", i, pieces[i].size())); break; }
    // membership per interval
    int lost = 0, gain = 0, overlap = 0;
    int64_t checked = 0, guarded = cx.guarded;
    std::string first;
    for (auto& s : cx.samples) {
        int64_t a = x_axis ? s.q.x : s.q.y;
        bool nearcut = false;
        size_t iv = 0;
        for (size_t k = 0; k < cuts2.size(); k++) {
            int64_t c = (int64_t)cuts2[k] * U * S / 2;  // S is even (21*rfn with rfn even) or U*S/2 integral since U is even
            if (std::llabs(a - c) <= G) nearcut = true;
            if (a > c) iv = k + 1;
        }
        if (nearcut) { guarded++; continue; }
        checked++;
        for (size_t i = 0; i < nint; i++) {
            int exp = (i == iv) ? s.expect : 0;
            if (fine[i].empty() && exp == 0) continue;
            int c = 0;
            for (auto& p : fine[i]) if (eg::winding(p, s.q) != 0) c++;
            if (c == exp) continue;
            if (c < exp) lost++; else if (exp == 0) gain++; else overlap++;
            if (first.empty())
                first = fmt("sample (%.6f, %.6f) lies in interval %zu, polygon covers it: %d; result[%zu] covers it %d time(s)", (double)s.q.x / (double)(U * S), (double)s.q.y / (double)(U * S), iv,
                            s.expect, i, c);
        }
    }
    R->count("samples_checked", checked);
    R->count("samples_guarded", guarded);
    if (lost) viol("region_lost", first + fmt(" (%d lost, %d gained, %d overlapping)", lost, gain, overlap));
    else if (gain) viol("region_gained", first + fmt(" (%d gained, %d overlapping)", gain, overlap));
    else if (overlap) viol("pieces_overlap", first);
    // area per interval against an independently clipped original
    int64_t x0, y0, x1, y1;
    lattice_bbox(sh.pts, x0, y0, x1, y1);
    for (size_t i = 0; i < nint; i++) {
        bool has_lo = i > 0, has_hi = i + 1 < nint;
        // cx.grid is in 1/SUB grid units: cut positions and areas are scaled accordingly
        long double lo = has_lo ? 0.5L * cuts2[i - 1] * U * SUB : 0, hi = has_hi ? 0.5L * cuts2[i] * U * SUB : 0;
        long double want = ((has_lo && has_hi && lo >= hi) ? 0 : clipped_area2(cx.grid, x_axis, has_lo, lo, has_hi, hi)) / (long double)(SUB * SUB);
        i128 got = 0;
        size_t nv = 0;
        for (auto& p : pieces[i]) { got += abs128(eg::area2(p)); nv += p.size(); }
        long double slack2 = 2.0L * (nv + 4 + (SUB > 1 ? sh.pts.size() : 0)) * ((x1 - x0) + (y1 - y0)) / (long double)SUB * U;
        if (fabsl((long double)got - want) > slack2) {
            viol("area_differs", fmt("interval %zu: result area %.9g, polygon area between the cuts %.9g (slack %.3g)", i, (double)got / (2.0 * U * U), (double)(want / (2.0L * U * U)), (double)(slack2 / (2.0L * U * U))));
            break;
        }
    }
    // non-trivial: a cut strictly inside the bounding box that passes through a vertex
    {
        bool inside = false, through = false;
        int64_t lo2 = 2 * (x_axis ? x0 : y0), hi2 = 2 * (x_axis ? x1 : y1);  // in 1/SUB half-units
        for (int c : cuts2)
            if (c * SUB > lo2 && c * SUB < hi2) {
                inside = true;
                for (auto& q : sh.pts) if (2 * (x_axis ? q.x : q.y) == c * SUB) through = true;
            }
        if (through) { R->count("nontrivial"); R->count("nontrivial_slice"); }
        for (auto& g : pieces) if (keeps_hole(sh, U, {0, 0}, g)) { R->count("slice_cases_interval_keeps_hole_whole"); break; }
        if (inside) R->count("slice_cases_cut_inside_bbox");
        size_t tot = 0;
        for (auto& g : pieces) tot += g.size();
        R->outcome(sub, fmt("cuts=%zu pieces=%zu", cuts2.size(), tot));
        if (through && cuts2.size() == 3 && tot >= 4) R->sample(sub, case_json());
    }
    for (size_t i = 0; i < nint; i++) free_polys(result[i]);
    free_allocation(result);
    positions.clear();
    poly.clear();
}
// every sorted list (with repetition) of <= 3 values of `vals`
static void cut_lists(const std::vector<int>& vals, std::vector<std::vector<int>>& out) {
    out.push_back({});
    size_t n = vals.size();
    for (size_t a = 0; a < n; a++) out.push_back({vals[a]});
    for (size_t a = 0; a < n; a++) for (size_t b = a; b < n; b++) out.push_back({vals[a], vals[b]});
    for (size_t a = 0; a < n; a++) for (size_t b = a; b < n; b++) for (size_t c = b; c < n; c++) out.push_back({vals[a], vals[b], vals[c]});
}
// position alphabet in half units: lattice shapes on g x g: {-1, 0, 1/2, ..., g}; families: around min / mid / max per axis
static std::vector<int> positions2_for(const Shape& sh, int g, bool x_axis) {
    std::vector<int> v;
    if (g > 0) { v.push_back(-2); for (int c = 0; c <= 2 * g; c++) v.push_back(c); return v; }
    int64_t x0, y0, x1, y1;
    lattice_bbox(sh.pts, x0, y0, x1, y1);
    if (sh.sub > 1) {  // integer positions only (in grid steps), a few well inside so that some interval keeps the cavity whole
        int lo = (int)(2 * fdiv(x_axis ? x0 : y0, sh.sub)), hi = (int)(2 * cdiv(x_axis ? x1 : y1, sh.sub)), w = hi - lo;
        std::set<int> s = {lo - 2, lo, lo + 2, lo + 2 * (w / 8), lo + 2 * (w * 3 / 10), hi - 2 * (w / 8), hi, hi + 2};
        return std::vector<int>(s.begin(), s.end());
    }
    int lo = (int)(2 * (x_axis ? x0 : y0)), hi = (int)(2 * (x_axis ? x1 : y1));
    std::set<int> s = {lo - 2, lo, lo + 1, lo + 2, (lo + hi) / 2, hi - 2, hi - 1, hi, hi + 2};
    return std::vector<int>(s.begin(), s.end());
}
static int64_t slice_block(const std::vector<Shape>& shapes, size_t first, size_t last, int g, bool verbose) {
    int64_t n = 0;
    for (size_t s = first; s < last && s < shapes.size(); s++) {
        SliceCtx cx;
        cx.sh = &shapes[s];
        make_samples(shapes[s].pts, {{0, 0}}, shapes[s].sub > 1 ? 1 : SL_U, shapes[s].rfn, cx.samples, &cx.guarded, shapes[s].stride, shapes[s].sub);
        cx.grid = lift(shapes[s].pts, shapes[s].sub > 1 ? 1 : SL_U);
        for (int ax = 0; ax < 2; ax++) {
            std::vector<std::vector<int>> lists;
            cut_lists(positions2_for(shapes[s], g, ax == 0), lists);
            for (auto& l : lists) { slice_case(cx, l, ax == 0, verbose); n++; }
        }
    }
    return n;
}

// ------------------------------------------------------------------------------ driver
static std::string shape_desc(const std::vector<Shape>& shapes, size_t first, size_t last) {
    std::vector<std::string> v;
    for (size_t s = first; s < last && s < shapes.size() && v.size() < 4; s++) v.push_back(jobj({{"kind", jstr(shapes[s].kind)}, {"points", jpts(shapes[s].pts)}}));
    return jobj({{"first_shape_index", jint((int64_t)first)}, {"shapes_in_chunk", jint((int64_t)(std::min(last, shapes.size()) - first))}, {"first_shapes", jarr(v)}});
}
enum What { FRACTURE, WRITER, SLICE };
// one sub-search = one parallel_for over chunks of `shapes`
static void run_search(What what, const std::string& sub, const std::string& bound_desc, const std::vector<Shape>& shapes, size_t chunk, const std::vector<uint64_t>& limits, int g,
                       const std::vector<int>& cfgs, double timeout_s) {
    if (shapes.empty()) return;
    if (R->out_of_time()) { R->bound(sub, bound_desc + " (not started: deadline)", false, 0); return; }
    int64_t nchunks = (int64_t)((shapes.size() + chunk - 1) / chunk);
    const char* wname = what == FRACTURE ? "fracture" : what == WRITER ? "writer" : "slice";
    auto body = [&](int64_t c) {
        size_t a = (size_t)c * chunk, b = a + chunk;
        if (what == FRACTURE) fracture_block(shapes, a, b, limits, false);
        else if (what == WRITER) {
            std::vector<uint64_t> l = limits;
            l.push_back(0);
            l.push_back(4);
            writer_block(shapes, a, b, l, cfgs, false);
        } else slice_block(shapes, a, b, g, false);
    };
    auto describe = [&](int64_t c) { return shape_desc(shapes, (size_t)c * chunk, (size_t)c * chunk + chunk); };
    auto replay_of = [&](int64_t c) {
        // a crash/hang is attributed to a chunk: replay re-runs its shapes one by one, printing each case first
        std::string s = fmt("sub=%s-chunk g=%d lim=", wname, g);
        for (size_t i = 0; i < limits.size(); i++) s += (i ? "," : "") + std::to_string(limits[i]);
        s += " shapes=";
        for (size_t k = (size_t)c * chunk; k < (size_t)c * chunk + chunk && k < shapes.size(); k++) s += (k > (size_t)c * chunk ? "|" : "") + shape_tok(shapes[k]);
        s += fmt(" rfn=%d den=%d stride=%d", shapes[(size_t)c * chunk].rfn, shapes[(size_t)c * chunk].sub, shapes[(size_t)c * chunk].stride);
        return s;
    };
    bool ok = parallel_for(*R, nchunks, body, describe, replay_of, PFOptions{timeout_s, sub, true});
    R->bound(sub, bound_desc, ok, (int64_t)shapes.size());
}

static int replay_main() {
    std::string sub = R->rarg("sub");
    int rfn = atoi(R->rarg("rfn").c_str());
    if (rfn <= 0) rfn = 2;
    if (sub == "fracture") {
        Shape sh = shape_from_tok(R->rarg("pts"), rfn);
        fracture_case(sh, strtoull(R->rarg("mp").c_str(), NULL, 10), atoi(R->rarg("prec").c_str()), atoi(R->rarg("rep").c_str()), true);
    } else if (sub == "writer") {
        std::vector<Shape> v = {shape_from_tok(R->rarg("pts"), rfn)};
        writer_block(v, 0, 1, {strtoull(R->rarg("mp").c_str(), NULL, 10)}, {atoi(R->rarg("cfg").c_str())}, true, R->rarg("wr").empty() ? -1 : atoi(R->rarg("wr").c_str()));
    } else if (sub == "slice") {
        Shape sh = shape_from_tok(R->rarg("pts"), rfn);
        SliceCtx cx;
        cx.sh = &sh;
        make_samples(sh.pts, {{0, 0}}, sh.sub > 1 ? 1 : SL_U, sh.rfn, cx.samples, &cx.guarded, sh.stride, sh.sub);
        cx.grid = lift(sh.pts, sh.sub > 1 ? 1 : SL_U);
        std::vector<int> cuts;
        std::string c = R->rarg("cuts2");
        if (c != "-") { std::replace(c.begin(), c.end(), ';', ','); cuts = parse_hist(c); }
        slice_case(cx, cuts, R->rarg("axis") == "x", true);
    } else if (sub.size() > 6 && sub.substr(sub.size() - 6) == "-chunk") {
        std::vector<Shape> v;
        std::string s = R->rarg("shapes");
        size_t i = 0;
        while (i <= s.size()) {
            size_t e = s.find('|', i);
            if (e == std::string::npos) e = s.size();
            if (e > i) v.push_back(shape_from_tok(s.substr(i, e - i), rfn));
            i = e + 1;
        }
        std::vector<uint64_t> lim;
        for (int x : parse_hist(R->rarg("lim"))) lim.push_back((uint64_t)x);
        int g = atoi(R->rarg("g").c_str());
        if (sub == "fracture-chunk") fracture_block(v, 0, v.size(), lim, true);
        else if (sub == "writer-chunk") { lim.push_back(0); lim.push_back(4); writer_block(v, 0, v.size(), lim, {0, 1, 2, 3, 4, 5, 6}, true); }
        else slice_block(v, 0, v.size(), g, true);
    } else {
        R->internal_error("unknown replay sub " + sub);
    }
    return R->finish();
}

int main(int argc, char** argv) {
    Run run("C12", argc, argv);
    R = &run;
    error_logger = NULL;
    if (run.replaying()) return replay_main();
    const bool T = run.thorough();
    const std::vector<uint64_t> LIM = {5, 6, 7, 8}, LIMF = {5, 6, 7, 8, 12, 20};
    const std::vector<int> ALLCFG = {0, 1, 2, 3, 4, 5, 6}, QCFG = {0, 3, 4, 5};  // quick: one power-of-ten grid at scale 1, the default units, and the two configurations with unit^2 > precision
    run.note("sample points ((i+1/3)/r, (j+1/7)/r), r=2 for lattice shapes and r=1 for families; guard band 3*precision around every edge of the original and (fracture, writer) of every piece / "
             "(slice) every cut line; all predicates in int128");

    // ---- stage 1 (both tiers): g=3, n in {5,6,7}, one repeated-vertex version each; small families
    std::vector<Shape> lat36, fam, famslice;
    build_lattice(lat36, 3, 5, 7, false);
    build_families(fam, false, {0, 1, 2, 3});
    build_families(famslice, false, {0, 2});
    run.note(fmt("alphabet: %zu lattice members (g=3, n=5..7, start-fixed, both orientations, collinear allowed, + one repeated-vertex version each); %zu family members", lat36.size(), fam.size()));
    run_search(FRACTURE, "fracture", "g=3 n=5..7 (+1 repeated-vertex version each) x max_points {5,6,7,8} x 3 precisions, + limits {0..4}", lat36, 8, LIM, 3, {}, 5);
    run_search(FRACTURE, "fracture", "families (small parameters) x 4 orientations x max_points {5,6,7,8,12,20} x 3 precisions, + limits {0..4}", fam, 1, LIMF, 0, {}, 10);
    run_search(WRITER, "writer", "g=3 n=5..7 (+dup) x write_gds max_points {5,6,7,8,0,4} x 4 unit/precision/scale configurations (0,3,4,5) x 2 writers", lat36, 64, LIM, 3, QCFG, 10);
    run_search(WRITER, "writer", "families (small parameters) x write_gds max_points {5,6,7,8,12,20,0,4} x 4 configurations (0,3,4,5) x 2 writers", fam, 4, LIMF, 0, QCFG, 10);
    {
        // key-holed polygons (quick: trapezoid and pentagon outers, t=5; thorough: 4 outers x t in {3,5,7})
        std::vector<Shape> kh, khs;
        build_keyholes(kh, T, {0, 1, 2, 3});
        build_keyholes(khs, T, T ? std::vector<int>{0, 2} : std::vector<int>{0});
        std::string d = T ? "key-holed polygons: 4 outer shapes x 3 holes x 4 slit sides x notches t in {3,5,7}" : "key-holed polygons: 2 outer shapes x 3 holes x 4 slit sides, t=5";
        run_search(FRACTURE, "fracture", d + " x 4 orientations x max_points {5,6,7,8,12,20} x 3 precisions, + limits {0..4}", kh, 1, LIMF, 0, {}, 10);
        run_search(WRITER, "writer", d + " x 4 orientations x write_gds max_points {5,6,7,8,12,20,0,4} x " + (T ? "7" : "4") + " configurations x 2 writers", kh, 4, LIMF, 0, T ? ALLCFG : QCFG, 10);
        run_search(SLICE, "slice", d + (T ? " x 2 orientations" : "") + " x sorted lists of <=3 positions around min/mid/max x 2 axes", khs, 1, {}, 0, {}, 15);
    }
    {
        // thin-slit cavities (coordinates relative to the precision grid, see thin_slit)
        std::vector<Shape> ts, tss;
        build_thin_slits(ts, T ? std::vector<int>{0, 1, 2, 3} : std::vector<int>{0, 2});
        build_thin_slits(tss, T ? std::vector<int>{0, 2} : std::vector<int>{0});
        std::string d = "thin-slit cavities (slit 1/3 or 2/3 of a grid step): 4 slits x 2 left sides";
        run_search(FRACTURE, "fracture", d + (T ? " x 4" : " x 2") + " orientations x max_points {5,6,7,8,12,20} x 3 precisions, + limits {0..4}", ts, 1, LIMF, 0, {}, 10);
        run_search(WRITER, "writer", d + (T ? " x 4" : " x 2") + " orientations x write_gds max_points {5,6,7,8,12,20,0,4} x " + (T ? "7" : "4") + " configurations x 2 writers", ts, 2, LIMF, 0, T ? ALLCFG : QCFG, 10);
        run_search(SLICE, "slice", d + (T ? " x 2 orientations" : "") + " x sorted lists of <=3 integer positions x 2 axes", tss, 1, {}, 0, {}, 15);
    }
    {
        // sort-fallback family (see namespace aq).  variant = transposed | mirrored<<1 | arrangement<<2
        std::vector<Shape> aqs, aqw;
        int reach = 0, tot = 0;
        std::string range;
        if (T) {
            std::vector<int> all;
            for (int v = 0; v < 16; v++) all.push_back(v);
            build_antiqsort(aqs, 17, 300, 1, {6, 15}, &reach, &tot);   // every n: (x, mirrored, ascending) and (y, mirrored, median first)
            build_antiqsort(aqs, 20, 300, 7, all, &reach, &tot);       // every 7th n: all 16 variants
            for (auto& sh : aqs) { int n = 0, v = 0; sscanf(sh.gen.c_str(), "aq:%d:%d", &n, &v); if (n % 4 == 0) aqw.push_back(sh); }
            range = "n=17..300 x 2 variants + n=20..300 step 7 x 16 variants ({x,y} x {standard,mirrored adversary} x 4 arrangements of the heap-sorted sub-array)";
        } else {
            build_antiqsort(aqs, 24, 120, 8, {2, 3, 6, 7, 14, 15, 4}, &reach, &tot);
            aqw = aqs;
            range = "n=24..120 step 8 x 7 variants ({x,y} x mirrored adversary x arrangements {own, ascending, median first} + x standard ascending)";
        }
        run.note(fmt("antiqsort family (%s): %d of %d polygons drive fracture's sort(coords, n) into intro_sort's max_depth==0 heap_sort branch on a sub-array > 16 "
                     "(probe: comparison trace of gdstk::sort on the sorted coordinate differs from gdstk::intro_sort with unbounded depth)", range.c_str(), reach, tot));
        if (reach < tot / 2) run.internal_error(fmt("antiqsort family is vacuous: only %d of %d members reach the heap_sort fallback", reach, tot));
        run_search(FRACTURE, "fracture", "antiqsort sort-fallback family " + range + " x max_points {5,6,7,8,12,20} x 3 precisions, + limits {0..4}", aqs, 1, LIMF, 0, {}, 30);
        run_search(WRITER, "writer", "antiqsort sort-fallback family" + std::string(T ? " (members with n % 4 == 0)" : "") + " x write_gds max_points {5,6,7,8,12,20,0,4} x configuration unit=1e-6,precision=1e-9 x 2 writers", aqw, 1, LIMF, 0, {3}, 30);
    }
    run_search(SLICE, "slice", "g=3 n=5..7 (+dup) x every sorted list of <=3 positions from {-1,0,1/2,..,3} x 2 axes, scaling 1000", lat36, 2, {}, 3, {}, 5);
    run_search(SLICE, "slice", "families (small parameters) x 2 orientations x sorted lists of <=3 positions around min/mid/max x 2 axes", famslice, 1, {}, 0, {}, 15);

    if (T) {
        run_search(WRITER, "writer", "g=3 n=5..7 (+dup) x write_gds max_points {5,6,7,8,0,4} x remaining configurations (1,2,6) x 2 writers", lat36, 64, LIM, 3, {1, 2, 6}, 10);
        // ---- stage 2: full families
        std::vector<Shape> famT, famTslice;
        build_families(famT, true, {0, 1, 2, 3});
        build_families(famTslice, true, {0, 2});
        run.note(fmt("thorough families: %zu members (comb t<=12, saw t<=12, spiral k<=6, stair/band s<=20, slivers, zigzag bands)", famT.size()));
        run_search(FRACTURE, "fracture", "full families x 4 orientations x max_points {5,6,7,8,12,20} x 3 precisions", famT, 1, LIMF, 0, {}, 30);
        run_search(WRITER, "writer", "full families x write_gds max_points {5,6,7,8,12,20,0,4} x 7 configurations x 2 writers", famT, 2, LIMF, 0, ALLCFG, 30);
        run_search(SLICE, "slice", "full families x 2 orientations x sorted lists of <=3 positions around min/mid/max x 2 axes", famTslice, 1, {}, 0, {}, 30);
        // ---- stage 3: larger lattice alphabets, smallest first; fracture with every repeated-vertex position
        struct L { int g, nmin, nmax; };
        for (L l : {L{3, 7, 7}, L{3, 8, 8}, L{4, 5, 5}}) {  // smallest alphabet first; the 23M-case slice search of g=4 last
            if (run.out_of_time()) { run.bound("fracture", fmt("g=%d n=%d (not started: deadline)", l.g, l.nmin), false, 0); continue; }
            std::vector<Shape> alld, oned;
            build_lattice(alld, l.g, l.nmin, l.nmax, true);
            build_lattice(oned, l.g, l.nmin, l.nmax, false);
            run.note(fmt("alphabet g=%d n=%d: %zu simple polygons; %zu members with every repeated-vertex position", l.g, l.nmin, oned.size() / 2, alld.size()));
            run_search(FRACTURE, "fracture", fmt("g=%d n=%d (+ every repeated-vertex position) x max_points {5,6,7,8} x 3 precisions, + limits {0..4}", l.g, l.nmin), alld, 16, LIM, l.g, {}, 5);
            if (l.g == 3 && l.nmin == 7) continue;  // writer and slice for g=3 n=7 were already completed in stage 1
            run_search(WRITER, "writer", fmt("g=%d n=%d (+1 repeated-vertex version each) x write_gds max_points {5,6,7,8,0,4} x %s x 2 writers", l.g, l.nmin, l.g == 4 ? "configurations 0,3,4,5" : "7 configurations"), oned, 64, LIM, l.g, l.g == 4 ? QCFG : ALLCFG, 10);
            run_search(SLICE, "slice", fmt("g=%d n=%d (+1 repeated-vertex version each) x every sorted list of <=3 positions from {-1,0,1/2,..,%d} x 2 axes", l.g, l.nmin, l.g), oned, 2, {}, l.g, {}, 5);
        }
    }
    return run.finish();
}
