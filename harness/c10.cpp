// C10 — element transforms are the documented affine maps and compose correctly.
//
// Engine E1 (vf::bfs): breadth-first search over histories of transform operations executed on
// real gdstk objects; a reference model (2x3 matrix accumulated with the harness's own long double
// arithmetic, plus width/offset factors derived from it) runs in lock-step.  One search per
// object; sub_check "xf.<object>".  After every step:
//   * Polygon, straight-segment FlexPath: outline(transformed object) == M * outline(reference
//     object built by the harness and never transformed), vertex for vertex (cyclic rotation /
//     orientation reversal allowed), 1e-9.
//   * RobustPath (segment + arc + cubic) and FlexPath with circular bends: both outlines compared
//     as regions at grid samples (winding number, long double) with guard band
//     3*tolerance*max(1,scale) around the reference boundary, plus an area identity; additionally
//     the public evaluation API (position/width/offset) against the model at 1e-9.
//   * Label / Reference: placement matrix built from (origin, rotation, magnification,
//     x_reflection) == outer o inner accumulated by the harness; magnifications multiply; flags
//     xor; rotation sign flips under reflection; own repetition untouched (documented).
//   * Repetition::transform: multiset of denoted offsets (dump::own_offsets) == linear part of M
//     applied to the original multiset.
// Objects beyond the plain ones: "flexpath_ext"/"robustpath_ext" give element 0 a HalfWidth end and
// element 1 an Extended end (end_extensions are lengths: the model scales them by |scale|);
// "flexpath_bend" uses BendType::Circular (bend_radius is a length as well);
// "robustpath_param_grad"/"_numgrad" are segment + parametric section with an analytic gradient
// callback / with the numerical gradient (control), HalfWidth and Extended ends.  They are separate
// searches so that a failure there never stops the exploration of the plain objects.
// Bounds: quick = all histories of length <= 2; thorough = length <= 3 for the curved objects
// (region comparison) and <= 4 for the vertex-exact ones.  A state whose check fails is reported
// and not expanded; the failure class carries the operation signature and a diagnosis
// ("as-if+..." = the observed outline equals the model's with that single convention changed).
// "ang.<object>" searches sweep the right-angle family through every entry point that takes an
// angle (rotate about a centre, transform with/without reflection and magnification): the exact
// doubles k*(M_PI/2), k=-5..5, their one-ulp neighbours and the angles 1e-9 away, with a few
// companions for sequences of two.  The model is the plain affine map with cos/sin of the given angle.
// When scale_width is false the reference object is built with widths divided by the accumulated
// scale, so that M * outline(reference) has unscaled widths and scaled offsets (property text:
// "path widths scale only when width scaling is enabled while offsets always do").
#include <gdstk/gdstk.hpp>
#include <math.h>

#include <functional>
#include <map>
#include <memory>

#include "dump.hpp"
#include "vf.hpp"

using namespace gdstk;
using namespace vf;

static Run* R;
typedef long double ld;

// =============================================================== own arithmetic
struct P2 { ld x, y; };
struct Mat {  // x' = a x + b y + c ; y' = d x + e y + f
    ld a = 1, b = 0, c = 0, d = 0, e = 1, f = 0;
    P2 ap(P2 p) const { return {a * p.x + b * p.y + c, d * p.x + e * p.y + f}; }
    P2 lin(P2 p) const { return {a * p.x + b * p.y, d * p.x + e * p.y}; }
    ld det() const { return a * e - b * d; }
    Mat after(const Mat& o) const {  // this o o
        Mat r;
        r.a = a * o.a + b * o.d; r.b = a * o.b + b * o.e; r.c = a * o.c + b * o.f + c;
        r.d = d * o.a + e * o.d; r.e = d * o.b + e * o.e; r.f = d * o.c + e * o.f + f;
        return r;
    }
    ld maxabs() const { return std::max({fabsl(a), fabsl(b), fabsl(c), fabsl(d), fabsl(e), fabsl(f)}); }
    std::string str() const { return fmt("[%.12Lg %.12Lg %.12Lg; %.12Lg %.12Lg %.12Lg]", a, b, c, d, e, f); }
};
static ld mat_diff(const Mat& p, const Mat& q) {
    return std::max({fabsl(p.a - q.a), fabsl(p.b - q.b), fabsl(p.c - q.c), fabsl(p.d - q.d), fabsl(p.e - q.e), fabsl(p.f - q.f)});
}
// the documented combined transform: magnify, reflect across x, rotate, translate
static Mat placement(ld ox, ld oy, ld rot, ld mag, bool refl) {
    ld ca = cosl(rot), sa = sinl(rot), r = refl ? -1 : 1;
    Mat m;
    m.a = mag * ca; m.b = -mag * r * sa; m.c = ox;
    m.d = mag * sa; m.e = mag * r * ca; m.f = oy;
    return m;
}

enum Kind { TRANSLATE, SCALE, MIRROR, ROTATE, TRANSFORM };
struct Op {
    Kind kind;
    Vec2 v;          // translate vector / centre / origin
    double sx, sy;   // scale factors (sx == sy except for Polygon's non-uniform scale)
    Vec2 p0, p1;     // mirror line
    double angle;    // rotate angle / transform rotation
    double mag;      // transform magnification
    bool refl;       // transform x_reflection
    std::string name;
};
static const char* kind_name(Kind k) {
    static const char* n[] = {"translate", "scale", "mirror", "rotate", "transform"};
    return n[k];
}
static Mat op_matrix(const Op& o) {
    Mat m;
    switch (o.kind) {
        case TRANSLATE: m.c = o.v.x; m.f = o.v.y; break;
        case SCALE:
            m.a = o.sx; m.e = o.sy;
            m.c = (ld)o.v.x * (1 - (ld)o.sx); m.f = (ld)o.v.y * (1 - (ld)o.sy);
            break;
        case MIRROR: {
            ld dx = (ld)o.p1.x - o.p0.x, dy = (ld)o.p1.y - o.p0.y, n = sqrtl(dx * dx + dy * dy);
            dx /= n; dy /= n;
            ld r0 = dx * dx - dy * dy, r1 = 2 * dx * dy;
            m.a = r0; m.b = r1; m.d = r1; m.e = -r0;
            m.c = o.p0.x - (r0 * o.p0.x + r1 * o.p0.y);
            m.f = o.p0.y - (r1 * o.p0.x - r0 * o.p0.y);
        } break;
        case ROTATE: {
            ld ca = cosl((ld)o.angle), sa = sinl((ld)o.angle);
            m.a = ca; m.b = -sa; m.d = sa; m.e = ca;
            m.c = o.v.x - (ca * o.v.x - sa * o.v.y);
            m.f = o.v.y - (sa * o.v.x + ca * o.v.y);
        } break;
        case TRANSFORM: m = placement(o.v.x, o.v.y, o.angle, o.mag, o.refl); break;
    }
    return m;
}
// Angle alphabet of the "ang.*" sweeps: the exact doubles k*(M_PI/2), k = -5..5 (and -M_PI/2 spelled
// directly), each with its two neighbours one ulp away and the two angles 1e-9 away.
struct AngleInfo { double a; std::string label; int k; int nb; };  // nb: 0 exact, 1 = +-1ulp, 2 = +-1e-9
static std::vector<AngleInfo> right_angle_set() {
    std::vector<AngleInfo> out;
    auto add = [&](double a, const std::string& l, int k, int nb) {
        for (auto& x : out) if (memcmp(&x.a, &a, sizeof a) == 0) return;
        out.push_back({a, l, k, nb});
    };
    for (int k = -5; k <= 5; k++) {
        double b = k * (M_PI / 2);
        std::string l = fmt("%d*(pi/2)", k);
        add(b, l, k, 0);
        if (k == -1) add(-M_PI / 2, "-pi/2", k, 0);  // same bits as -1*(M_PI/2): kept for the record, de-duplicated
        add(nextafter(b, INFINITY), l + "+1ulp", k, 1);
        add(nextafter(b, -INFINITY), l + "-1ulp", k, 1);
        add(b + 1e-9, l + "+1e-9", k, 2);
        add(b - 1e-9, l + "-1e-9", k, 2);
    }
    return out;
}
static const AngleInfo* angle_info(double a) {
    static std::vector<AngleInfo> set = right_angle_set();
    for (auto& x : set) if (memcmp(&x.a, &a, sizeof a) == 0) return &x;
    return NULL;
}
static bool ANGLE_LABELS = false;  // set while the sweep alphabets are built
static std::string num(double v) {
    if (ANGLE_LABELS) { const AngleInfo* ai = angle_info(v); if (ai) return ai->label; }
    if (v == M_PI / 2) return "pi/2";
    return fmt("%g", v);
}
static Op mk_translate(Vec2 v) { Op o = {}; o.kind = TRANSLATE; o.v = v; o.name = fmt("translate((%g,%g))", v.x, v.y); return o; }
static Op mk_scale(double sx, double sy, Vec2 c) {
    Op o = {}; o.kind = SCALE; o.sx = sx; o.sy = sy; o.v = c;
    o.name = sx == sy ? fmt("scale(%g, c=(%g,%g))", sx, c.x, c.y) : fmt("scale((%g,%g), c=(%g,%g))", sx, sy, c.x, c.y);
    return o;
}
static Op mk_mirror(Vec2 p0, Vec2 p1, const char* label) { Op o = {}; o.kind = MIRROR; o.p0 = p0; o.p1 = p1; o.name = fmt("mirror(%s)", label); return o; }
static Op mk_rotate(double a, Vec2 c) { Op o = {}; o.kind = ROTATE; o.angle = a; o.v = c; o.name = "rotate(" + num(a) + fmt(", c=(%g,%g))", c.x, c.y); return o; }
static Op mk_transform(double m, bool refl, double rot, Vec2 orig) {
    Op o = {}; o.kind = TRANSFORM; o.mag = m; o.refl = refl; o.angle = rot; o.v = orig;
    o.name = fmt("transform(m=%g, refl=%d, rot=", m, refl ? 1 : 0) + num(rot) + fmt(", orig=(%g,%g))", orig.x, orig.y);
    return o;
}
// alphabet for Polygon / FlexPath / RobustPath (simplest first)
static std::vector<Op> geom_alphabet(bool polygon) {
    std::vector<Op> a;
    Vec2 cs[2] = {Vec2{0, 0}, Vec2{1, 2}};
    a.push_back(mk_translate(Vec2{2, -1}));
    for (double s : {2.0, 0.5, -1.0}) for (Vec2 c : cs) a.push_back(mk_scale(s, s, c));
    a.push_back(mk_mirror(Vec2{0, 0}, Vec2{1, 0}, "x-axis"));
    a.push_back(mk_mirror(Vec2{0, 0}, Vec2{1, 1}, "y=x"));
    a.push_back(mk_mirror(Vec2{1, 0}, Vec2{3, 1}, "line (1,0)-(3,1)"));
    for (double an : {M_PI / 2, 0.6}) for (Vec2 c : cs) a.push_back(mk_rotate(an, c));
    for (double m : {1.0, 2.0}) for (bool refl : {false, true}) for (double rot : {0.0, 0.6}) a.push_back(mk_transform(m, refl, rot, Vec2{3, -2}));
    a.push_back(mk_transform(-1, false, 0, Vec2{0, 0}));  // "all magnifications (including negative ...)"
    if (polygon) for (Vec2 c : cs) a.push_back(mk_scale(2, 1, c));
    return a;
}
// Label / Reference only offer transform()
static std::vector<Op> placement_alphabet() {
    std::vector<Op> a;
    for (double m : {1.0, 2.0, 0.5, -1.0}) for (bool refl : {false, true}) for (double rot : {0.0, 0.6, M_PI / 2}) a.push_back(mk_transform(m, refl, rot, Vec2{3, -2}));
    return a;
}
// Repetition::transform(magnification, x_reflection, rotation) has no origin
static std::vector<Op> repetition_alphabet() {
    std::vector<Op> a;
    for (double m : {1.0, 2.0, 0.5, -1.0}) for (bool refl : {false, true}) for (double rot : {0.0, 0.6, M_PI / 2}) {
        if (m == 1 && !refl && rot == 0) continue;
        Op o = mk_transform(m, refl, rot, Vec2{0, 0});
        o.name = fmt("transform(m=%g, refl=%d, rot=", m, refl ? 1 : 0) + num(rot) + ")";
        a.push_back(o);
    }
    return a;
}

// Sweeps over the right-angle family for every entry point that takes an angle, plus a few
// companions so that sequences of two mix them with scaling / reflection / generic rotation.
static std::vector<Op> angle_geom_alphabet() {
    ANGLE_LABELS = true;
    std::vector<Op> a;
    for (auto& ai : right_angle_set()) {
        a.push_back(mk_rotate(ai.a, Vec2{1, 2}));
        a.push_back(mk_transform(1, false, ai.a, Vec2{3, -2}));
        a.push_back(mk_transform(2, true, ai.a, Vec2{3, -2}));
    }
    ANGLE_LABELS = false;
    a.push_back(mk_translate(Vec2{2, -1}));
    a.push_back(mk_scale(2, 2, Vec2{1, 2}));
    a.push_back(mk_scale(-1, -1, Vec2{0, 0}));
    a.push_back(mk_mirror(Vec2{1, 0}, Vec2{3, 1}, "line (1,0)-(3,1)"));
    a.push_back(mk_rotate(0.6, Vec2{0, 0}));
    return a;
}
static std::vector<Op> angle_placement_alphabet(bool with_origin) {
    std::vector<Op> a;
    Vec2 orig = with_origin ? Vec2{3, -2} : Vec2{0, 0};
    auto mk = [&](double m, bool refl, double rot) {
        Op o = mk_transform(m, refl, rot, orig);
        if (!with_origin) o.name = fmt("transform(m=%g, refl=%d, rot=", m, refl ? 1 : 0) + num(rot) + ")";
        return o;
    };
    ANGLE_LABELS = true;
    for (auto& ai : right_angle_set()) {
        if (with_origin || ai.a != 0) a.push_back(mk(1, false, ai.a));
        a.push_back(mk(1, true, ai.a));
        a.push_back(mk(2, true, ai.a));
    }
    ANGLE_LABELS = false;
    a.push_back(mk(2, true, 0.6));
    a.push_back(mk(-1, false, 0));
    a.push_back(mk(0.5, false, 0.6));
    return a;
}

// =============================================================== reference model
struct Model {
    Mat M;
    // path factors (own arithmetic, cross-checked against det M)
    ld k = 1;     // product of |scale| / |magnification|
    int sgn = 1;  // product of orientation signs
    // placement fields (Label / Reference)
    ld mag = 1, rot = 0;
    bool refl = false;
    // history features (for the non-trivial rule and for violation tags)
    int n_mirror = 0, n_xrefl = 0, n_negscale = 0, n_negmag = 0, n_nonuniform = 0, n_generic_rot = 0, n_any_rot = 0, n_scaling = 0;
    void step(const Op& o) {
        M = op_matrix(o).after(M);
        switch (o.kind) {
            case TRANSLATE: break;
            case SCALE:
                k *= sqrtl(fabsl((ld)o.sx * o.sy));
                if (o.sx * o.sy < 0) sgn = -sgn;
                if (o.sx < 0) n_negscale++;
                if (o.sx != o.sy) n_nonuniform++;
                n_scaling++;
                break;
            case MIRROR: sgn = -sgn; n_mirror++; break;
            case ROTATE:
                n_any_rot++;
                if (o.angle != M_PI / 2) n_generic_rot++;
                break;
            case TRANSFORM:
                k *= fabsl((ld)o.mag);
                if (o.refl) { sgn = -sgn; n_xrefl++; }
                if (o.mag < 0) n_negmag++;
                if (o.mag != 1) n_scaling++;
                if (o.angle != 0) n_any_rot++;
                if (o.angle != 0 && o.angle != M_PI / 2) n_generic_rot++;
                mag *= o.mag;
                if (o.refl) rot = -rot;
                rot += o.angle;
                refl ^= o.refl;
                break;
        }
    }
    bool has_reflection() const { return n_mirror + n_xrefl > 0; }
};

// =============================================================== helpers on gdstk data
static std::vector<P2> pts(const Array<Vec2>& a) {
    std::vector<P2> v(a.count);
    for (uint64_t i = 0; i < a.count; i++) v[i] = {a[i].x, a[i].y};
    return v;
}
static std::string q9(double v) {  // value rounded to 1e-9 (no negative zero)
    if (!(v == v)) return "nan";
    if (fabs(v) > 1e8) return fmt("%.6e", v);
    return std::to_string((long long)llround(v * 1e9));
}
static std::string q9(const Array<Vec2>& a) {
    std::string s = "[";
    for (uint64_t i = 0; i < a.count; i++) s += (i ? " " : "") + q9(a[i].x) + "," + q9(a[i].y);
    return s + "]";
}
static std::string pstr(const std::vector<P2>& p) {
    std::string s = "[";
    for (size_t i = 0; i < p.size(); i++) s += fmt("%s(%.10Lg,%.10Lg)", i ? " " : "", p[i].x, p[i].y);
    return s + "]";
}
static std::vector<P2> map_pts(const Mat& M, const std::vector<P2>& p) {
    std::vector<P2> o(p.size());
    for (size_t i = 0; i < p.size(); i++) o[i] = M.ap(p[i]);
    return o;
}
static ld extent(const std::vector<P2>& p) {
    ld m = 1;
    for (auto& q : p) m = std::max({m, fabsl(q.x), fabsl(q.y)});
    return m;
}
// A equals E vertex for vertex up to cyclic rotation / orientation reversal; worst = best achievable max deviation
static bool match_cyclic(const std::vector<P2>& A, const std::vector<P2>& E, ld tol, ld& worst) {
    worst = INFINITY;
    if (A.size() != E.size()) return false;
    size_t n = A.size();
    if (n == 0) { worst = 0; return true; }
    for (int dir = 1; dir >= -1; dir -= 2)
        for (size_t s = 0; s < n; s++) {
            ld dev = 0;
            for (size_t i = 0; i < n && dev <= worst; i++) {
                size_t j = (s + (dir > 0 ? i : n - i)) % n;
                dev = std::max({dev, fabsl(A[j].x - E[i].x), fabsl(A[j].y - E[i].y)});
            }
            worst = std::min(worst, dev);
        }
    return worst <= tol;
}
static void set_rect_rep(Repetition& r, uint64_t cols, uint64_t rows, Vec2 spacing) {
    memset(&r, 0, sizeof r);
    r.type = RepetitionType::Rectangular;
    r.columns = cols; r.rows = rows; r.spacing = spacing;
}
static void free_polys(Array<Polygon*>& res) {
    for (uint64_t i = 0; i < res.count; i++) { res[i]->clear(); free_allocation(res[i]); }
    res.clear();
}
template <class T>
static void apply_geom(T& obj, const Op& o, std::true_type /*is polygon*/) {
    switch (o.kind) {
        case TRANSLATE: obj.translate(o.v); break;
        case SCALE: obj.scale(Vec2{o.sx, o.sy}, o.v); break;
        case MIRROR: obj.mirror(o.p0, o.p1); break;
        case ROTATE: obj.rotate(o.angle, o.v); break;
        case TRANSFORM: obj.transform(o.mag, o.refl, o.angle, o.v); break;
    }
}
template <class T>
static void apply_geom(T& obj, const Op& o, std::false_type) {
    switch (o.kind) {
        case TRANSLATE: obj.translate(o.v); break;
        case SCALE: obj.scale(o.sx, o.v); break;
        case MIRROR: obj.mirror(o.p0, o.p1); break;
        case ROTATE: obj.rotate(o.angle, o.v); break;
        case TRANSFORM: obj.transform(o.mag, o.refl, o.angle, o.v); break;
    }
}

// =============================================================== region comparison (curved outlines)
static int winding(const std::vector<P2>& p, P2 q) {
    int w = 0;
    size_t n = p.size();
    for (size_t i = 0; i < n; i++) {
        const P2 &a = p[i], &b = p[(i + 1) % n];
        if (a.y <= q.y) {
            if (b.y > q.y && (b.x - a.x) * (q.y - a.y) - (b.y - a.y) * (q.x - a.x) > 0) w++;
        } else {
            if (b.y <= q.y && (b.x - a.x) * (q.y - a.y) - (b.y - a.y) * (q.x - a.x) < 0) w--;
        }
    }
    return w;
}
static ld dist_boundary(const std::vector<P2>& p, P2 q) {
    ld best = INFINITY;
    size_t n = p.size();
    for (size_t i = 0; i < n; i++) {
        const P2 &a = p[i], &b = p[(i + 1) % n];
        ld dx = b.x - a.x, dy = b.y - a.y, l2 = dx * dx + dy * dy;
        ld t = l2 > 0 ? ((q.x - a.x) * dx + (q.y - a.y) * dy) / l2 : 0;
        t = t < 0 ? 0 : t > 1 ? 1 : t;
        ld ex = a.x + t * dx - q.x, ey = a.y + t * dy - q.y;
        best = std::min(best, ex * ex + ey * ey);
    }
    return sqrtl(best);
}
static ld area_abs(const std::vector<P2>& p) {
    ld a = 0;
    size_t n = p.size();
    for (size_t i = 0; i < n; i++) a += p[i].x * p[(i + 1) % n].y - p[(i + 1) % n].x * p[i].y;
    return fabsl(a) / 2;
}
static ld perimeter(const std::vector<P2>& p) {
    ld s = 0;
    size_t n = p.size();
    for (size_t i = 0; i < n; i++) s += hypotl(p[(i + 1) % n].x - p[i].x, p[(i + 1) % n].y - p[i].y);
    return s;
}
struct RefRegion {
    std::vector<std::vector<P2>> polys;          // per element, reference frame
    std::vector<P2> samples;                     // reference frame
    std::vector<std::vector<uint8_t>> inside;    // [element][sample]
    std::vector<std::vector<float>> dist;        // [element][sample] distance to the reference boundary
    std::vector<std::vector<int>> active;        // [element] samples that take part (fine near the shape, coarse elsewhere)
    std::vector<ld> area, perim;
};
static std::shared_ptr<RefRegion> make_ref_region(const std::vector<std::vector<P2>>& polys, ld h) {
    auto r = std::make_shared<RefRegion>();
    r->polys = polys;
    ld x0 = INFINITY, y0 = INFINITY, x1 = -INFINITY, y1 = -INFINITY;
    for (auto& p : polys) for (auto& q : p) { x0 = std::min(x0, q.x); x1 = std::max(x1, q.x); y0 = std::min(y0, q.y); y1 = std::max(y1, q.y); }
    const ld margin = 1.5;
    long i0 = (long)floorl((x0 - margin) / h), i1 = (long)ceill((x1 + margin) / h), j0 = (long)floorl((y0 - margin) / h), j1 = (long)ceill((y1 + margin) / h);
    std::vector<std::pair<long, long>> ij;
    for (long i = i0; i <= i1; i++) for (long j = j0; j <= j1; j++) { r->samples.push_back({(i + (ld)1 / 3) * h, (j + (ld)1 / 7) * h}); ij.push_back({i, j}); }
    size_t ne = polys.size(), ns = r->samples.size();
    r->inside.assign(ne, std::vector<uint8_t>(ns));
    r->dist.assign(ne, std::vector<float>(ns));
    r->active.resize(ne);
    for (size_t e = 0; e < ne; e++) {
        r->area.push_back(area_abs(polys[e]));
        r->perim.push_back(perimeter(polys[e]));
        for (size_t s = 0; s < ns; s++) {
            bool in = winding(polys[e], r->samples[s]) != 0;
            ld d = dist_boundary(polys[e], r->samples[s]);
            r->inside[e][s] = in;
            r->dist[e][s] = (float)d;
            bool coarse = (ij[s].first % 5 == 0) && (ij[s].second % 5 == 0);
            if (in || d < 1.0 || coarse) r->active[e].push_back((int)s);
        }
    }
    return r;
}
struct RegionVerdict { bool ok = true; int element = -1; std::string cls, detail; long compared = 0; };
// actual[e] (transformed frame) against M * ref.polys[e]; k = similarity factor of M; tol = curve tolerance
static RegionVerdict region_compare(const RefRegion& ref, const std::vector<std::vector<P2>>& actual, const Mat& M, ld k, ld tol) {
    RegionVerdict v;
    if (actual.size() != ref.polys.size()) {
        v.ok = false; v.cls = "outline-count";
        v.detail = fmt("to_polygons produced %zu polygons, expected %zu", actual.size(), ref.polys.size());
        return v;
    }
    const ld guard = 3 * tol * std::max((ld)1, k);
    for (size_t e = 0; e < actual.size(); e++) {
        long mism = 0, used = 0;
        P2 first = {0, 0}, first0 = {0, 0};
        bool first_in = false;
        for (int s : ref.active[e]) {
            if ((ld)ref.dist[e][s] * k <= guard) continue;
            P2 q = M.ap(ref.samples[s]);
            bool in = winding(actual[e], q) != 0;
            used++;
            if (in != (bool)ref.inside[e][s]) {
                if (!mism) { first = q; first0 = ref.samples[s]; first_in = ref.inside[e][s]; }
                mism++;
            }
        }
        v.compared += used;
        if (used < 200) {
            v.ok = false; v.element = (int)e; v.cls = "region-vacuous";
            v.detail = fmt("only %ld samples outside the guard band (guard %.3Lg, k %.3Lg)", used, guard, k);
            return v;
        }
        if (mism) {
            v.ok = false; v.element = (int)e; v.cls = "region";
            v.detail = fmt("element %zu: %ld of %ld samples (guard band %.3Lg) classified differently; first at (%.6Lg,%.6Lg) [reference frame (%.6Lg,%.6Lg)]: expected %s, outline of the transformed object says %s",
                           e, mism, used, guard, first.x, first.y, first0.x, first0.y, first_in ? "inside" : "outside", first_in ? "outside" : "inside");
            return v;
        }
        ld a_act = area_abs(actual[e]), a_exp = ref.area[e] * k * k;
        ld slack = 4 * tol * std::max((ld)1, k) * ref.perim[e] * k + 1e-9;
        if (fabsl(a_act - a_exp) > slack) {
            v.ok = false; v.element = (int)e; v.cls = "region-area";
            v.detail = fmt("element %zu: |area| %.9Lg, expected %.9Lg (slack %.3Lg)", e, a_act, a_exp, slack);
            return v;
        }
    }
    return v;
}

// =============================================================== targets
struct Fail { std::string cls, detail; JFields tags; };
struct Target {
    virtual ~Target() {}
    virtual void apply(const Op& o) = 0;
    virtual std::string canon() = 0;
    virtual bool check(const Model& m, Fail& f) = 0;  // true: holds
};

// ---------------------------------------------------------------- Polygon
static const double LSHAPE[6][2] = {{0, 0}, {4, 0}, {4, 1}, {1, 1}, {1, 3}, {0, 3}};
struct PolygonTarget : Target {
    Polygon p;
    std::vector<P2> orig;
    std::string rep0;
    PolygonTarget() {
        memset(&p, 0, sizeof p);
        p.tag = make_tag(1, 2);
        for (auto& q : LSHAPE) p.point_array.append(Vec2{q[0], q[1]});
        set_rect_rep(p.repetition, 2, 2, Vec2{20, 30});
        orig = pts(p.point_array);
        rep0 = dump::repetition(p.repetition);
    }
    ~PolygonTarget() { p.clear(); }
    void apply(const Op& o) override { apply_geom(p, o, std::true_type()); }
    std::string canon() override { return "polygon " + q9(p.point_array); }
    bool check(const Model& m, Fail& f) override {
        std::vector<P2> act = pts(p.point_array), exp = map_pts(m.M, orig);
        ld tol = 1e-9L * extent(exp), worst = 0;
        // point-wise maps keep the vertex order: demand index-wise equality (a cyclic match is reported separately)
        bool same = act.size() == exp.size();
        for (size_t i = 0; same && i < act.size(); i++) {
            worst = std::max({worst, fabsl(act[i].x - exp[i].x), fabsl(act[i].y - exp[i].y)});
        }
        if (!same || worst > tol) {
            ld w2;
            bool cyc = match_cyclic(act, exp, tol, w2);
            f.cls = "outline";
            f.tags.push_back({"diag", jstr(cyc ? "vertex-order-changed" : "points-differ")});
            f.detail = fmt("polygon vertices differ from M*original by %.3Lg (tolerance %.3Lg); M=%s; expected %s, got %s", worst, tol, m.M.str().c_str(), pstr(exp).c_str(), pstr(act).c_str());
            return false;
        }
        if (dump::repetition(p.repetition) != rep0) {
            f.cls = "own-repetition-touched";
            f.detail = "Polygon transform changed the polygon's own repetition: " + dump::repetition(p.repetition);
            return false;
        }
        return true;
    }
};

// ---------------------------------------------------------------- FlexPath
enum FlexVariant { FLEX_PLAIN = 0, FLEX_EXT = 1, FLEX_BEND = 2 };
static const char* flex_variant_name(int v) { return v == FLEX_PLAIN ? "flexpath" : v == FLEX_EXT ? "flexpath_ext" : "flexpath_bend"; }
static const double FLEX_BEND_TOL = 1e-3;
// Built through the public construction API only.  wmul/offmul/extmul scale widths, offsets and
// end extensions of the *reference* object (1,1,1 for the object under test).
static void build_flex(FlexPath& fp, int variant, bool scale_width, double wmul, double offmul, double extmul, double bendmul = 1) {
    memset(&fp, 0, sizeof fp);
    double w[2] = {0.6 * wmul, 0.4 * wmul}, off[2] = {1.0 * offmul, -1.0 * offmul};
    Tag tags[2] = {make_tag(1, 0), make_tag(2, 0)};
    fp.init(Vec2{0, 0}, 2, w, off, variant == FLEX_BEND ? FLEX_BEND_TOL : 0.01, tags);
    fp.scale_width = scale_width;
    fp.simple_path = false;
    if (variant == FLEX_EXT) {
        fp.elements[0].end_type = EndType::HalfWidth;
        fp.elements[1].end_type = EndType::Extended;
        fp.elements[1].end_extensions = Vec2{0.5 * extmul, 0.75 * extmul};
    }
    double w1[2] = {0.6 * wmul, 0.8 * wmul};  // element 0 constant, element 1 tapered 0.4 -> 0.8
    if (variant == FLEX_BEND) {
        for (int e = 0; e < 2; e++) { fp.elements[e].bend_type = BendType::Circular; fp.elements[e].bend_radius = 2.5 * bendmul; }
        fp.segment(Vec2{10, 0}, w1, NULL, false);
        fp.segment(Vec2{10, 9}, NULL, NULL, false);
    } else {
        fp.segment(Vec2{6, 0}, w1, NULL, false);
        fp.segment(Vec2{9, 4}, NULL, NULL, false);  // one bend of 53.13 degrees
    }
    set_rect_rep(fp.repetition, 2, 2, Vec2{40, 50});
}
static bool flex_outline(const FlexPath& fp, std::vector<std::vector<P2>>& out) {
    FlexPath c;
    memset(&c, 0, sizeof c);
    c.copy_from(fp);  // to_polygons() removes overlapping points: observe a copy
    Array<Polygon*> res = {};
    ErrorCode ec = c.to_polygons(false, 0, res);
    for (uint64_t i = 0; i < res.count; i++) out.push_back(pts(res[i]->point_array));
    free_polys(res);
    c.clear();
    return ec == ErrorCode::NoError;
}
static std::map<std::string, std::shared_ptr<RefRegion>> REGION_CACHE;
struct FlexTarget : Target {
    FlexPath fp;
    int variant;
    bool sw;
    std::string rep0;
    FlexTarget(int variant_, bool sw_) : variant(variant_), sw(sw_) {
        build_flex(fp, variant, sw, 1, 1, 1);
        rep0 = dump::repetition(fp.repetition);
    }
    ~FlexTarget() { fp.clear(); }
    void apply(const Op& o) override { apply_geom(fp, o, std::false_type()); }
    std::string canon() override {
        std::string s = std::string(flex_variant_name(variant)) + " sw=" + (sw ? "1" : "0") + " spine " + q9(fp.spine.point_array);
        for (uint64_t e = 0; e < fp.num_elements; e++)
            s += fmt(" el%d wo ", (int)e) + q9(fp.elements[e].half_width_and_offset) + " ext " + q9(fp.elements[e].end_extensions.u) + "," + q9(fp.elements[e].end_extensions.v) + " br " + q9(fp.elements[e].bend_radius);
        return s;
    }
    // reference outline in the reference frame: widths pre-divided by k when they must not scale
    std::vector<std::vector<P2>> ref_outline(const Model& m, double ws, double os, double es) {
        FlexPath r;
        double wmul = sw ? 1.0 : (double)(1 / m.k);
        build_flex(r, variant, sw, wmul * ws, os, es);
        std::vector<std::vector<P2>> out;
        flex_outline(r, out);
        r.clear();
        return out;
    }
    bool check(const Model& m, Fail& f) override {
        std::vector<std::vector<P2>> act;
        bool ok = flex_outline(fp, act);
        if (!ok || act.size() != 2) {
            f.cls = "outline-error";
            f.detail = fmt("to_polygons failed or produced %zu polygons", act.size());
            return false;
        }
        if (variant == FLEX_BEND) {
            std::string key = "flexbend";
            auto it = REGION_CACHE.find(key);
            if (it == REGION_CACHE.end()) it = REGION_CACHE.insert({key, make_ref_region(ref_outline(m, 1, 1, 1), 0.1L)}).first;
            RegionVerdict v = region_compare(*it->second, act, m.M, m.k, FLEX_BEND_TOL);
            R->count("region_samples_compared", v.compared);
            if (!v.ok) {
                f.cls = v.cls; f.detail = v.detail;
                f.tags.push_back({"element", jint(v.element)});
                // which deviation from the model would explain the observed outline?  (diagnosis only)
                std::string diag = "other";
                // (negative reference widths are not tried here: with circular bends they send a negative
                //  radius into Curve::arc, which overflows its buffer)
                for (int c = 2; c < 8 && diag == "other"; c += 2) {
                    bool unscaled = c & 4;
                    if (unscaled && m.k == 1) continue;
                    std::string hkey = fmt("flexbend-hyp c%d k%.12Lg", c, unscaled ? m.k : (ld)1);
                    auto hit = REGION_CACHE.find(hkey);
                    if (hit == REGION_CACHE.end()) {
                        FlexPath r;
                        build_flex(r, variant, sw, 1, c & 2 ? -1 : 1, 1, unscaled ? (double)(1 / m.k) : 1.0);
                        std::vector<std::vector<P2>> alt;
                        flex_outline(r, alt);
                        r.clear();
                        hit = REGION_CACHE.insert({hkey, alt.size() == 2 ? make_ref_region(alt, 0.1L) : nullptr}).first;
                    }
                    auto rr = hit->second;
                    if (!rr) continue;
                    if (region_compare(*rr, act, m.M, m.k, FLEX_BEND_TOL).ok)
                        diag = std::string("as-if") + (c & 1 ? "+widths-negated" : "") + (c & 2 ? "+offset-side-not-following-orientation" : "") + (c & 4 ? "+bend-radius-not-scaled" : "");
                }
                f.tags.push_back({"diag", jstr(diag)});
                return false;
            }
        } else {
            std::vector<std::vector<P2>> ref = ref_outline(m, 1, 1, 1);
            for (size_t e = 0; e < 2; e++) {
                std::vector<P2> exp = map_pts(m.M, ref[e]);
                ld tol = 1e-9L * extent(exp), worst;
                if (match_cyclic(act[e], exp, tol, worst)) continue;
                // which sign convention would explain the observed outline?  (diagnosis only)
                std::string diag = "other";
                for (int c = 1; c < 8 && diag == "other"; c++) {
                    double ws = c & 1 ? -1 : 1, os = c & 2 ? -1 : 1, es = c & 4 ? -1 : 1;
                    std::vector<std::vector<P2>> alt = ref_outline(m, ws, os, es);
                    ld w2;
                    if (alt.size() == 2 && match_cyclic(act[e], map_pts(m.M, alt[e]), tol, w2))
                        diag = std::string("as-if") + (c & 1 ? "+widths-negated" : "") + (c & 2 ? "+offset-side-not-following-orientation" : "") + (c & 4 ? "+end-extensions-negated" : "");
                }
                f.cls = "outline";
                f.tags.push_back({"element", jint((int)e)});
                f.tags.push_back({"end_type", jstr(end_type_name(fp.elements[e].end_type))});
                f.tags.push_back({"diag", jstr(diag)});
                f.detail = fmt("element %zu: outline of the transformed path differs from M*outline(original) by %.6Lg (tolerance %.3Lg, %zu vs %zu vertices); M=%s k=%.6Lg orientation=%d; expected %s, got %s; fields: %s",
                               e, worst, tol, act[e].size(), exp.size(), m.M.str().c_str(), m.k, m.sgn, pstr(exp).c_str(), pstr(act[e]).c_str(), canon().c_str());
                return false;
            }
        }
        if (dump::repetition(fp.repetition) != rep0) {
            f.cls = "own-repetition-touched";
            f.detail = "FlexPath transform changed the path's own repetition: " + dump::repetition(fp.repetition);
            return false;
        }
        return true;
    }
};

// ---------------------------------------------------------------- RobustPath
static const double ROBUST_TOL = 1e-3;
static const double ROBUST_U[] = {0, 0.5, 1, 1.5, 2.25, 3};
// Variants 3/4: segment + *parametric* section, created with an analytic gradient callback (3) or
// with the numerical gradient (4, control).  The callback's value is in the untransformed frame;
// the library must carry it through the path's trafo like every other section kind.  Ends are
// HalfWidth / Extended so that the caps depend on the end direction as well.
enum RobustVariant { ROBUST_PARAM_GRAD = 3, ROBUST_PARAM_NUM = 4 };
static bool robust_has_ext(int variant) { return variant == FLEX_EXT || variant == ROBUST_PARAM_GRAD || variant == ROBUST_PARAM_NUM; }
static Vec2 param_curve(double u, void*) { return Vec2{6 * u, 3 * u * u}; }   // leaves along +x: smooth join, radius of curvature >= 6
static Vec2 param_curve_grad(double u, void*) { return Vec2{6, 6 * u}; }
static void build_robust(RobustPath& rp, int variant, bool scale_width, double wmul, double offmul = 1, double extmul = 1) {
    memset(&rp, 0, sizeof rp);
    double w[2] = {0.6 * wmul, 0.4 * wmul}, off[2] = {1.0 * offmul, -1.0 * offmul};
    Tag tags[2] = {make_tag(1, 0), make_tag(2, 0)};
    rp.init(Vec2{0, 0}, 2, w, off, ROBUST_TOL, 1000, tags);
    rp.scale_width = scale_width;
    rp.simple_path = false;
    if (robust_has_ext(variant)) {
        rp.elements[0].end_type = EndType::HalfWidth;
        rp.elements[1].end_type = EndType::Extended;
        rp.elements[1].end_extensions = Vec2{0.5 * extmul, 0.75 * extmul};
    }
    Interpolation wi[2];
    memset(wi, 0, sizeof wi);
    wi[0].type = InterpolationType::Constant; wi[0].value = 0.6 * wmul;
    wi[1].type = InterpolationType::Linear; wi[1].initial_value = 0.4 * wmul; wi[1].final_value = 0.8 * wmul;
    rp.segment(Vec2{4, 0}, wi, NULL, false);
    if (variant == ROBUST_PARAM_GRAD || variant == ROBUST_PARAM_NUM) {
        rp.parametric(param_curve, NULL, variant == ROBUST_PARAM_GRAD ? param_curve_grad : NULL, NULL, NULL, NULL, true);  // to (10,3)
        set_rect_rep(rp.repetition, 2, 2, Vec2{40, 50});
        return;
    }
    rp.arc(3, 3, -M_PI / 2, 0, 0, NULL, NULL);                         // quarter turn to the left, ends at (7,3) heading +y
    rp.cubic(Vec2{0, 2}, Vec2{1, 4}, Vec2{1, 6}, NULL, NULL, true);   // gentle S to (8,9)
    set_rect_rep(rp.repetition, 2, 2, Vec2{40, 50});
}
static bool robust_outline(const RobustPath& rp, std::vector<std::vector<P2>>& out) {
    Array<Polygon*> res = {};
    ErrorCode ec = rp.to_polygons(false, 0, res);
    for (uint64_t i = 0; i < res.count; i++) out.push_back(pts(res[i]->point_array));
    free_polys(res);
    return ec == ErrorCode::NoError;
}
struct RobustTarget : Target {
    RobustPath rp;
    int variant;
    bool sw;
    std::string rep0;
    std::vector<P2> pos0;
    std::vector<std::vector<double>> w0, o0;
    RobustTarget(int variant_, bool sw_) : variant(variant_), sw(sw_) {
        build_robust(rp, variant, sw, 1);
        rep0 = dump::repetition(rp.repetition);
        for (double u : ROBUST_U) {
            Vec2 p = rp.position(u, true);
            pos0.push_back({p.x, p.y});
            double a[2], b[2];
            rp.width(u, true, a);
            rp.offset(u, true, b);
            w0.push_back({a[0], a[1]});
            o0.push_back({b[0], b[1]});
        }
    }
    ~RobustTarget() { rp.clear(); }
    void apply(const Op& o) override { apply_geom(rp, o, std::false_type()); }
    std::string canon() override {
        std::string s = std::string("robustpath v") + std::to_string(variant) + " sw=" + (sw ? "1" : "0") + " trafo";
        for (int i = 0; i < 6; i++) s += " " + q9(rp.trafo[i]);
        s += " ws " + q9(rp.width_scale) + " os " + q9(rp.offset_scale);
        for (uint64_t e = 0; e < rp.num_elements; e++) s += fmt(" el%d ext ", (int)e) + q9(rp.elements[e].end_extensions.u) + "," + q9(rp.elements[e].end_extensions.v);
        return s;
    }
    static std::string region_key(int variant, bool sw, ld k) { return fmt("robust v%d sw%d k%.12Lg", variant, sw ? 1 : 0, sw ? (ld)1 : k); }
    static std::shared_ptr<RefRegion> region_for(int variant, bool sw, ld k) {
        std::string key = region_key(variant, sw, k);
        auto it = REGION_CACHE.find(key);
        if (it != REGION_CACHE.end()) return it->second;
        RobustPath r;
        build_robust(r, variant, sw, sw ? 1.0 : (double)(1 / k));
        std::vector<std::vector<P2>> out;
        robust_outline(r, out);
        r.clear();
        auto reg = make_ref_region(out, 0.1L);
        REGION_CACHE[key] = reg;
        return reg;
    }
    bool check(const Model& m, Fail& f) override {
        // (1) evaluation API against the model, 1e-9
        const ld wf = sw ? m.k : 1;
        for (size_t i = 0; i < pos0.size(); i++) {
            double u = ROBUST_U[i];
            Vec2 p = rp.position(u, true);
            P2 e = m.M.ap(pos0[i]);
            ld tol = 1e-9L * std::max({(ld)1, fabsl(e.x), fabsl(e.y)});
            if (fabsl(p.x - e.x) > tol || fabsl(p.y - e.y) > tol) {
                f.cls = "spine-position";
                f.detail = fmt("position(u=%g) = (%.12g,%.12g), M*original = (%.12Lg,%.12Lg); M=%s trafo=[%g %g %g; %g %g %g]", u, p.x, p.y, e.x, e.y, m.M.str().c_str(),
                               rp.trafo[0], rp.trafo[1], rp.trafo[2], rp.trafo[3], rp.trafo[4], rp.trafo[5]);
                return false;
            }
            double a[2], b[2];
            rp.width(u, true, a);
            rp.offset(u, true, b);
            for (int e2 = 0; e2 < 2; e2++) {
                if (fabsl(a[e2] - wf * w0[i][e2]) > 1e-9L * std::max((ld)1, wf)) {
                    f.cls = "width-factor";
                    f.tags.push_back({"element", jint(e2)});
                    f.detail = fmt("width(u=%g)[%d] = %.12g, expected %.12Lg (original %.12g x factor %.12Lg; scale_width=%d)", u, e2, a[e2], wf * w0[i][e2], w0[i][e2], wf, sw ? 1 : 0);
                    return false;
                }
                if (fabsl(fabs(b[e2]) - m.k * fabs(o0[i][e2])) > 1e-9L * std::max((ld)1, m.k)) {
                    f.cls = "offset-factor";
                    f.tags.push_back({"element", jint(e2)});
                    f.detail = fmt("|offset(u=%g)[%d]| = %.12g, expected %.12Lg (original %.12g x |scale| %.12Lg)", u, e2, fabs(b[e2]), m.k * fabs(o0[i][e2]), o0[i][e2], m.k);
                    return false;
                }
            }
        }
        // (2) outlines as regions
        std::vector<std::vector<P2>> act;
        bool ok = robust_outline(rp, act);
        if (!ok) {
            f.cls = "outline-error";
            f.detail = "to_polygons returned an error code on the transformed path (it does not on the original)";
            return false;
        }
        auto ref = region_for(variant, sw, m.k);
        RegionVerdict v = region_compare(*ref, act, m.M, m.k, ROBUST_TOL);
        R->count("region_samples_compared", v.compared);
        if (!v.ok) {
            f.cls = v.cls;
            f.detail = v.detail + fmt("; M=%s k=%.6Lg orientation=%d; fields: ", m.M.str().c_str(), m.k, m.sgn) + canon();
            f.tags.push_back({"element", jint(v.element)});
            if (v.element >= 0) f.tags.push_back({"end_type", jstr(end_type_name(rp.elements[v.element].end_type))});
            // which deviation from the model would explain the observed outline?  (diagnosis only)
            std::string diag = "other";
            for (int c = 1; c < 4 && diag == "other"; c++) {
                if ((c & 2) && !robust_has_ext(variant)) continue;
                std::string hkey = fmt("robust-hyp v%d sw%d c%d k%.12Lg", variant, sw ? 1 : 0, c, sw ? (ld)1 : m.k);
                auto hit = REGION_CACHE.find(hkey);
                if (hit == REGION_CACHE.end()) {
                    RobustPath r;
                    build_robust(r, variant, sw, sw ? 1.0 : (double)(1 / m.k), c & 1 ? -1 : 1, c & 2 ? -1 : 1);
                    std::vector<std::vector<P2>> alt;
                    robust_outline(r, alt);
                    r.clear();
                    hit = REGION_CACHE.insert({hkey, alt.size() == 2 ? make_ref_region(alt, 0.1L) : nullptr}).first;
                }
                auto rr = hit->second;
                if (!rr) continue;
                if (region_compare(*rr, act, m.M, m.k, ROBUST_TOL).ok)
                    diag = std::string("as-if") + (c & 1 ? "+offset-side-not-following-orientation" : "") + (c & 2 ? "+end-extensions-negated" : "");
            }
            f.tags.push_back({"diag", jstr(diag)});
            return false;
        }
        if (dump::repetition(rp.repetition) != rep0) {
            f.cls = "own-repetition-touched";
            f.detail = "RobustPath transform changed the path's own repetition: " + dump::repetition(rp.repetition);
            return false;
        }
        return true;
    }
};

// ---------------------------------------------------------------- Label / Reference
static bool check_placement(const char* what, Vec2 origin, double rotation, double magnification, bool x_reflection, const Model& m, Fail& f) {
    Mat got = placement(origin.x, origin.y, rotation, magnification, x_reflection);
    ld tol = 1e-9L * std::max((ld)1, m.M.maxabs());
    if (fabsl(magnification - m.mag) > 1e-12L * std::max((ld)1, fabsl(m.mag))) {
        f.cls = "magnification";
        f.detail = fmt("%s magnification %.15g, product of magnifications %.15Lg", what, magnification, m.mag);
        return false;
    }
    if (x_reflection != m.refl) {
        f.cls = "reflection-flag";
        f.detail = fmt("%s x_reflection %d, composition has %d", what, x_reflection ? 1 : 0, m.refl ? 1 : 0);
        return false;
    }
    ld dr = remainderl((ld)rotation - m.rot, 2 * M_PIl);
    if (fabsl(dr) > 1e-9L) {
        f.cls = "rotation";
        f.detail = fmt("%s rotation %.12g, composition has %.12Lg (rotation sign flips under reflection, then the outer rotation is added)", what, rotation, m.rot);
        return false;
    }
    if (mat_diff(got, m.M) > tol) {
        f.cls = "placement";
        f.detail = fmt("%s placement built from (origin,rotation,magnification,x_reflection) = %s, outer o inner = %s", what, got.str().c_str(), m.M.str().c_str());
        return false;
    }
    return true;
}
struct LabelTarget : Target {
    Label l;
    std::string rep0;
    LabelTarget() {
        memset(&l, 0, sizeof l);
        l.init("L");
        l.tag = make_tag(3, 1);
        l.origin = Vec2{1, 2};
        l.anchor = Anchor::SW;
        l.rotation = 0.3;
        l.magnification = 1.5;
        l.x_reflection = false;
        set_rect_rep(l.repetition, 2, 3, Vec2{4, 5});
        rep0 = dump::repetition(l.repetition);
    }
    ~LabelTarget() { l.clear(); }
    static Model model0() {
        Model m;
        m.M = placement(1, 2, (ld)0.3, (ld)1.5, false);
        m.mag = 1.5; m.rot = 0.3; m.refl = false;
        return m;
    }
    void apply(const Op& o) override { l.transform(o.mag, o.refl, o.angle, o.v); }
    std::string canon() override { return "label o " + q9(l.origin.x) + "," + q9(l.origin.y) + " r " + q9(l.rotation) + " m " + q9(l.magnification) + " x " + (l.x_reflection ? "1" : "0"); }
    bool check(const Model& m, Fail& f) override {
        if (!check_placement("label", l.origin, l.rotation, l.magnification, l.x_reflection, m, f)) return false;
        if (dump::repetition(l.repetition) != rep0 || l.anchor != Anchor::SW || strcmp(l.text, "L") != 0 || l.tag != make_tag(3, 1)) {
            f.cls = "own-repetition-touched";
            f.detail = "Label::transform changed the repetition/anchor/text/tag: " + dump::label(l);
            return false;
        }
        return true;
    }
};
static Cell CHILD;
static std::vector<P2> CHILD_PTS;
static void init_child() {
    memset(&CHILD, 0, sizeof CHILD);
    CHILD.name = copy_string("CHILD", NULL);
    Polygon* p = (Polygon*)allocate_clear(sizeof(Polygon));
    p->tag = make_tag(1, 2);
    for (auto& q : LSHAPE) p->point_array.append(Vec2{q[0] + 0.5, q[1] - 0.25});
    CHILD.polygon_array.append(p);
    CHILD_PTS = pts(p->point_array);
}
struct ReferenceTarget : Target {
    Reference r;
    std::string rep0;
    ReferenceTarget() {
        memset(&r, 0, sizeof r);
        r.init(&CHILD);
        r.origin = Vec2{-1, 0.5};
        r.rotation = -0.4;
        r.magnification = 0.5;
        r.x_reflection = true;
        set_rect_rep(r.repetition, 3, 2, Vec2{7, 6});
        rep0 = dump::repetition(r.repetition);
    }
    ~ReferenceTarget() { r.clear(); }
    static Model model0() {
        Model m;
        m.M = placement(-1, (ld)0.5, (ld)-0.4, (ld)0.5, true);
        m.mag = 0.5; m.rot = -0.4; m.refl = true;
        return m;
    }
    void apply(const Op& o) override { r.transform(o.mag, o.refl, o.angle, o.v); }
    std::string canon() override { return "reference o " + q9(r.origin.x) + "," + q9(r.origin.y) + " r " + q9(r.rotation) + " m " + q9(r.magnification) + " x " + (r.x_reflection ? "1" : "0"); }
    bool check(const Model& m, Fail& f) override {
        if (!check_placement("reference", r.origin, r.rotation, r.magnification, r.x_reflection, m, f)) return false;
        if (dump::repetition(r.repetition) != rep0 || r.type != ReferenceType::Cell || r.cell != &CHILD) {
            f.cls = "own-repetition-touched";
            f.detail = "Reference::transform changed the reference's repetition or target: " + dump::reference(r);
            return false;
        }
        // what the fields mean geometrically: the placed child (offset-0 copy) is M * child
        Reference one = r;
        memset(&one.repetition, 0, sizeof one.repetition);
        one.properties = NULL;
        Array<Polygon*> res = {};
        one.get_polygons(true, true, -1, false, 0, res);
        bool good = res.count == 1;
        ld worst = 0;
        std::vector<P2> exp = map_pts(m.M, CHILD_PTS), act;
        if (good) {
            act = pts(res[0]->point_array);
            good = act.size() == exp.size();
            for (size_t i = 0; good && i < act.size(); i++) worst = std::max({worst, fabsl(act[i].x - exp[i].x), fabsl(act[i].y - exp[i].y)});
        }
        free_polys(res);
        if (!good || worst > 1e-9L * extent(exp)) {
            f.cls = "placed-geometry";
            f.detail = fmt("child polygon placed by the transformed reference differs from (outer o inner)*child by %.3Lg: expected %s, got %s", worst, pstr(exp).c_str(), pstr(act).c_str());
            return false;
        }
        return true;
    }
};

// ---------------------------------------------------------------- Repetition
static const char* REP_KINDS[] = {"rectangular", "regular", "explicit", "explicit_x", "explicit_y"};
struct RepetitionTarget : Target {
    Repetition rep;
    int kind;
    std::vector<Vec2> off0;
    RepetitionTarget(int kind_) : kind(kind_) {
        memset(&rep, 0, sizeof rep);
        switch (kind) {
            case 0: set_rect_rep(rep, 3, 2, Vec2{2, 1.5}); break;
            case 1:
                rep.type = RepetitionType::Regular; rep.columns = 2; rep.rows = 3;
                rep.v1 = Vec2{2, 0.5}; rep.v2 = Vec2{-0.5, 1.5};
                break;
            case 2:
                rep.type = RepetitionType::Explicit;
                rep.offsets.append(Vec2{1, 2}); rep.offsets.append(Vec2{-3, 0.5}); rep.offsets.append(Vec2{2, -1});
                break;
            case 3:
                rep.type = RepetitionType::ExplicitX;
                rep.coords.append(1.5); rep.coords.append(-2); rep.coords.append(4);
                break;
            case 4:
                rep.type = RepetitionType::ExplicitY;
                rep.coords.append(1); rep.coords.append(-2.5);
                break;
        }
        off0 = dump::own_offsets(rep);
    }
    ~RepetitionTarget() { rep.clear(); }
    void apply(const Op& o) override { rep.transform(o.mag, o.refl, o.angle); }
    std::string canon() override {
        static const char* names[] = {"none", "rectangular", "regular", "explicit", "explicit_x", "explicit_y"};
        std::string s = std::string("repetition ") + names[(int)rep.type];
        switch (rep.type) {
            case RepetitionType::Rectangular: s += fmt(" %llux%llu ", (unsigned long long)rep.columns, (unsigned long long)rep.rows) + q9(rep.spacing.x) + "," + q9(rep.spacing.y); break;
            case RepetitionType::Regular: s += fmt(" %llux%llu ", (unsigned long long)rep.columns, (unsigned long long)rep.rows) + q9(rep.v1.x) + "," + q9(rep.v1.y) + " " + q9(rep.v2.x) + "," + q9(rep.v2.y); break;
            case RepetitionType::Explicit: s += " " + q9(rep.offsets); break;
            case RepetitionType::ExplicitX:
            case RepetitionType::ExplicitY:
                for (uint64_t i = 0; i < rep.coords.count; i++) s += " " + q9(rep.coords[i]);
                break;
            default: break;
        }
        return s;
    }
    bool check(const Model& m, Fail& f) override {
        std::vector<Vec2> got = dump::own_offsets(rep);
        std::vector<P2> exp;
        ld scale = 1;
        for (auto& v : off0) { P2 e = m.M.lin({v.x, v.y}); exp.push_back(e); scale = std::max({scale, fabsl(e.x), fabsl(e.y)}); }
        ld tol = 1e-12L * scale;
        bool good = got.size() == exp.size();
        std::vector<bool> used(exp.size(), false);
        ld worst = 0;
        size_t bad_i = 0;
        for (size_t i = 0; good && i < got.size(); i++) {  // multiset matching (nearest unused expected offset)
            ld best = INFINITY;
            size_t bj = 0;
            for (size_t j = 0; j < exp.size(); j++) {
                if (used[j]) continue;
                ld d = std::max(fabsl(got[i].x - exp[j].x), fabsl(got[i].y - exp[j].y));
                if (d < best) { best = d; bj = j; }
            }
            used[bj] = true;
            if (best > worst) { worst = best; bad_i = i; }
        }
        if (!good || worst > tol) {
            std::vector<P2> g;
            for (auto& v : got) g.push_back({v.x, v.y});
            f.cls = "offsets";
            static const char* tn[] = {"none", "rectangular", "regular", "explicit", "explicit_x", "explicit_y"};
            f.tags.push_back({"result_type", jstr(tn[(int)rep.type])});
            f.detail = fmt("offset multiset differs from linear part of M applied to the original offsets by %.3Lg (tolerance %.3Lg) at offset #%zu; expected %s, got %s; %s", worst, tol, bad_i, pstr(exp).c_str(), pstr(g).c_str(), canon().c_str());
            return false;
        }
        return true;
    }
};

// =============================================================== the bfs system
struct XfSys {
    struct Obj { Target* t; Model m; bool bad = false; };
    std::string sub, object, family;  // family: polygon | path | placement | repetition
    std::vector<Op> ops;
    std::function<Target*()> factory;
    std::function<Model()> model0 = [] { return Model(); };
    JFields static_tags;
    int depth_quick = 0, depth_thorough = 0;  // 0: the default of the tier
    bool sweep = false;                       // "ang.*" right-angle sweep

    Obj* make() { Obj* o = new Obj(); o->t = factory(); o->m = model0(); return o; }
    void destroy(Obj* o) { delete o->t; delete o; }
    int nops() { return (int)ops.size(); }
    std::string op_name(int op) { return ops[op].name; }
    bool poisoned(Obj& o) { return o.bad; }
    std::string canon(Obj& o) {
        const Mat& M = o.m.M;
        return o.t->canon() + " | model " + q9((double)M.a) + " " + q9((double)M.b) + " " + q9((double)M.c) + " " + q9((double)M.d) + " " + q9((double)M.e) + " " + q9((double)M.f) +
               " k " + q9((double)o.m.k) + " s " + std::to_string(o.m.sgn);
    }
    bool nontrivial(const Model& m) const {
        if (family == "path") return m.has_reflection() || m.n_negscale + m.n_negmag > 0;
        if (family == "polygon") return m.n_nonuniform > 0 && m.n_generic_rot > 0;
        if (family == "placement") return m.n_xrefl > 0;            // inner rotation is non-zero: every reflection exercises the sign flip
        return m.n_xrefl > 0 && m.n_any_rot > 0;                    // repetition
    }
    bool apply(Obj& o, int op, const std::vector<int>& hist, bool check) {
        const Op& p = ops[op];
        o.t->apply(p);
        o.m.step(p);
        if (!check) return true;
        // model self-consistency: the factors used for paths agree with det M
        if (family == "path") {
            ld det = o.m.M.det();
            if (fabsl(sqrtl(fabsl(det)) - o.m.k) > 1e-12L * o.m.k || (det < 0) != (o.m.sgn < 0)) R->internal_error("model factors disagree with det M at " + hist_str(hist));
        }
        R->count("cases");
        R->count("cases:" + sub);
        if (nontrivial(o.m)) {
            R->count("nontrivial");
            if (family == "path") R->count("nt_reflection_or_negative_scale_on_offset_path");
            else if (family == "polygon") R->count("nt_polygon_nonuniform_scale_x_generic_rotation");
            else if (family == "placement") R->count("nt_placement_reflection_over_rotated_inner");
            else R->count("nt_repetition_reflection_and_rotation");
        }
        if (family == "path" && o.m.has_reflection()) R->count("hist_with_reflection_on_offset_path");
        if (o.m.n_negscale + o.m.n_negmag > 0) R->count("hist_with_negative_scale_or_magnification");
        const AngleInfo* ai = (p.kind == ROTATE || p.kind == TRANSFORM) ? angle_info(p.angle) : NULL;
        if (sweep && ai) {
            R->count(ai->nb == 0 ? "ang_ops_exact_multiple_of_pi_over_2" : ai->nb == 1 ? "ang_ops_one_ulp_off" : "ang_ops_1e-9_off");
            if (ai->k < 0 && (ai->k & 1)) R->count("ang_ops_negative_odd_multiple");
            if (ai->k < -4 || ai->k > 4) R->count("ang_ops_beyond_full_turn");
        }
        Fail f;
        if (!o.t->check(o.m, f)) {
            o.bad = true;
            std::vector<int> h = hist;
            h.push_back(op);
            JFields tags = static_tags;
            tags.push_back({"object", jstr(object)});
            tags.push_back({"op", jstr(kind_name(p.kind))});
            if (p.kind == TRANSFORM) {
                tags.push_back({"x_reflection", jbool(p.refl)});
                tags.push_back({"mag_sign", jstr(p.mag < 0 ? "neg" : "pos")});
                tags.push_back({"mag_is_one", jbool(p.mag == 1)});
                tags.push_back({"rotated", jbool(p.angle != 0)});
            }
            if (p.kind == SCALE) {
                tags.push_back({"scale_sign", jstr(p.sx < 0 ? "neg" : "pos")});
                tags.push_back({"uniform", jbool(p.sx == p.sy)});
            }
            if (p.kind == ROTATE || p.kind == TRANSFORM) {
                tags.push_back({"angle", jnum(p.angle)});
                if (ai) {
                    tags.push_back({"angle_k_pi_over_2", jint(ai->k)});
                    tags.push_back({"angle_neighbour", jstr(ai->nb == 0 ? "exact" : ai->nb == 1 ? "1ulp" : "1e-9")});
                }
            }
            tags.push_back({"depth", jint((int64_t)h.size())});
            tags.push_back({"prior_reflections", jint(o.m.n_mirror + o.m.n_xrefl - ((p.kind == MIRROR || (p.kind == TRANSFORM && p.refl)) ? 1 : 0))});
            std::string diag;
            for (auto& t : f.tags) {
                tags.push_back(t);
                if (t.first == "diag") diag = t.second.substr(1, t.second.size() - 2);
            }
            // The failure class names the operation signature and the diagnosis, so that the per-class
            // output cap of the engine can never hide one kind of failure behind another.
            std::string opsig = kind_name(p.kind);
            if (p.kind == TRANSFORM) opsig += std::string(p.refl ? ".xrefl" : "") + (p.mag < 0 ? ".negmag" : p.mag != 1 ? ".mag" : "");
            if (p.kind == SCALE) opsig += std::string(p.sx < 0 ? ".neg" : "") + (p.sx != p.sy ? ".nonuniform" : "");
            if (ai && (p.kind == ROTATE || p.kind == TRANSFORM))  // right-angle family: sign / parity / exactness are part of the class
                opsig += std::string(".q") + (ai->k < 0 ? "neg" : ai->k > 0 ? "pos" : "zero") + (ai->k & 1 ? "odd" : "even") + (ai->nb == 0 ? "" : ai->nb == 1 ? "~ulp" : "~1e-9");
            f.cls += ":" + opsig + (diag.empty() ? "" : ":" + diag);
            R->violation(sub, f.cls, tags, jobj({{"object", jstr(object)}, {"history", describe_hist(*this, h)}, {"state", jstr(canon(o))}}), f.detail, "sub=" + sub + " hist=" + hist_str(h));
            if (R->replaying()) fprintf(stderr, "    ** VIOLATION [%s] %s\n", f.cls.c_str(), f.detail.c_str());
        }
        return true;
    }
};

static std::vector<std::unique_ptr<XfSys>> build_systems() {
    std::vector<std::unique_ptr<XfSys>> v;
    auto add = [&](const std::string& sub, const std::string& object, const std::string& family, std::vector<Op> ops, std::function<Target*()> fac) -> XfSys* {
        std::unique_ptr<XfSys> s(new XfSys());
        s->sub = sub; s->object = object; s->family = family; s->ops = std::move(ops); s->factory = fac;
        v.push_back(std::move(s));
        return v.back().get();
    };
    add("xf.polygon", "polygon", "polygon", geom_alphabet(true), [] { return (Target*)new PolygonTarget(); });
    for (int sw = 1; sw >= 0; sw--) {
        XfSys* s = add(std::string("xf.flexpath.") + (sw ? "sw" : "nosw"), "flexpath", "path", geom_alphabet(false), [sw] { return (Target*)new FlexTarget(FLEX_PLAIN, sw); });
        s->static_tags = {{"scale_width", jbool(sw)}};
    }
    for (int sw = 1; sw >= 0; sw--) {
        XfSys* s = add(std::string("xf.flexpath_ext.") + (sw ? "sw" : "nosw"), "flexpath_ext", "path", geom_alphabet(false), [sw] { return (Target*)new FlexTarget(FLEX_EXT, sw); });
        s->static_tags = {{"scale_width", jbool(sw)}};
    }
    {
        XfSys* s = add("xf.flexpath_bend.sw", "flexpath_bend", "path", geom_alphabet(false), [] { return (Target*)new FlexTarget(FLEX_BEND, true); });
        s->static_tags = {{"scale_width", jbool(true)}};
    }
    add("xf.label", "label", "placement", placement_alphabet(), [] { return (Target*)new LabelTarget(); })->model0 = LabelTarget::model0;
    add("xf.reference", "reference", "placement", placement_alphabet(), [] { return (Target*)new ReferenceTarget(); })->model0 = ReferenceTarget::model0;
    for (int k = 0; k < 5; k++) add(std::string("xf.repetition.") + REP_KINDS[k], std::string("repetition.") + REP_KINDS[k], "repetition", repetition_alphabet(), [k] { return (Target*)new RepetitionTarget(k); });
    for (int sw = 1; sw >= 0; sw--) {
        XfSys* s = add(std::string("xf.robustpath.") + (sw ? "sw" : "nosw"), "robustpath", "path", geom_alphabet(false), [sw] { return (Target*)new RobustTarget(FLEX_PLAIN, sw); });
        s->static_tags = {{"scale_width", jbool(sw)}};
    }
    {
        XfSys* s = add("xf.robustpath_ext.sw", "robustpath_ext", "path", geom_alphabet(false), [] { return (Target*)new RobustTarget(FLEX_EXT, true); });
        s->static_tags = {{"scale_width", jbool(true)}};
    }
    {
        XfSys* s = add("xf.robustpath_param.grad", "robustpath_param_grad", "path", geom_alphabet(false), [] { return (Target*)new RobustTarget(ROBUST_PARAM_GRAD, true); });
        s->static_tags = {{"scale_width", jbool(true)}, {"parametric_gradient", jstr("callback")}};
        s = add("xf.robustpath_param.numgrad", "robustpath_param_numgrad", "path", geom_alphabet(false), [] { return (Target*)new RobustTarget(ROBUST_PARAM_NUM, true); });
        s->static_tags = {{"scale_width", jbool(true)}, {"parametric_gradient", jstr("numerical")}};
    }
    // ---- right-angle sweeps ("all angles": exact k*pi/2 for k=-5..5, their ulp / 1e-9 neighbours),
    //      every entry point that takes an angle, every element kind; sequences of two for the cheap kinds
    auto addang = [&](const std::string& object, const std::string& family, std::vector<Op> ops, std::function<Target*()> fac, int dq, int dt) -> XfSys* {
        XfSys* s = add("ang." + object, object, family, std::move(ops), fac);
        s->sweep = true; s->depth_quick = dq; s->depth_thorough = dt;
        return s;
    };
    addang("polygon", "polygon", angle_geom_alphabet(), [] { return (Target*)new PolygonTarget(); }, 2, 2);
    addang("flexpath", "path", angle_geom_alphabet(), [] { return (Target*)new FlexTarget(FLEX_PLAIN, true); }, 2, 2)->static_tags = {{"scale_width", jbool(true)}};
    addang("label", "placement", angle_placement_alphabet(true), [] { return (Target*)new LabelTarget(); }, 2, 2)->model0 = LabelTarget::model0;
    addang("reference", "placement", angle_placement_alphabet(true), [] { return (Target*)new ReferenceTarget(); }, 2, 2)->model0 = ReferenceTarget::model0;
    for (int k = 0; k < 5; k++) addang(std::string("repetition.") + REP_KINDS[k], "repetition", angle_placement_alphabet(false), [k] { return (Target*)new RepetitionTarget(k); }, 2, 2);
    addang("robustpath", "path", angle_geom_alphabet(), [] { return (Target*)new RobustTarget(FLEX_PLAIN, true); }, 1, 2)->static_tags = {{"scale_width", jbool(true)}};
    addang("robustpath_param_grad", "path", angle_geom_alphabet(), [] { return (Target*)new RobustTarget(ROBUST_PARAM_GRAD, true); }, 1, 2)->static_tags = {{"scale_width", jbool(true)}, {"parametric_gradient", jstr("callback")}};
    return v;
}

int main(int argc, char** argv) {
    Run run("C10", argc, argv);
    R = &run;
    error_logger = NULL;
    init_child();
    auto systems = build_systems();
    if (run.replaying()) {
        std::string sub = run.rarg("sub");
        for (auto& s : systems)
            if (s->sub == sub) {
                if (!run.rarg("hist").empty()) replay_hist(run, *s, s->sub, parse_hist(run.rarg("hist")));
                else expand_inprocess(run, *s, parse_hist(run.rarg("expand")));
            }
        return run.finish();
    }
    const int depth = run.thorough() ? 3 : 2;
    // reference regions for every scale the searches can reach are computed once, before forking
    for (int e = -depth; e <= depth; e++) {
        ld k = powl(2, e);
        RobustTarget::region_for(FLEX_PLAIN, false, k);
        if (e == 0) { RobustTarget::region_for(FLEX_PLAIN, true, k); RobustTarget::region_for(FLEX_EXT, true, k); RobustTarget::region_for(ROBUST_PARAM_GRAD, true, k); RobustTarget::region_for(ROBUST_PARAM_NUM, true, k); }
    }
    run.note(fmt("alphabets: geometry %zu ops (+2 non-uniform scales for Polygon), placement %zu ops, repetition %zu ops; depth %d (vertex-exact objects in the thorough tier: %d)", geom_alphabet(false).size(), placement_alphabet().size(), repetition_alphabet().size(), depth, depth + (run.thorough() ? 1 : 0)));
    for (auto& s : systems) {
        if (run.out_of_time()) { run.bound(s->sub, "not started (deadline)", false, 0); continue; }
        // vertex-exact objects are cheap: the thorough tier takes them one level further than the
        // curved ones (whose region comparison dominates the cost)
        bool curved = s->object.find("robustpath") == 0 || s->object == "flexpath_bend";
        int d = depth + (run.thorough() && !curved ? 1 : 0);
        if (run.thorough() && s->depth_thorough) d = s->depth_thorough;
        if (!run.thorough() && s->depth_quick) d = s->depth_quick;
        BfsResult r = bfs(run, *s, s->sub, d, 60);
        (void)r;
    }
    return run.finish();
}
