// c08_oracle.hpp — analytic reference for C08, independent of gdstk: own vector type, own section
// formulas (segment, elliptical arc, Bezier by de Casteljau, quarter circle), own interpolation
// formulas, own affine maps, strip-indexed winding test and the per-element centre-curve oracle.
#pragma once
#include <math.h>

#include <algorithm>
#include <string>
#include <vector>

namespace c08 {

struct V { double x, y; };
static inline V operator+(V a, V b) { return {a.x + b.x, a.y + b.y}; }
static inline V operator-(V a, V b) { return {a.x - b.x, a.y - b.y}; }
static inline V operator*(V a, double s) { return {a.x * s, a.y * s}; }
static inline double dot(V a, V b) { return a.x * b.x + a.y * b.y; }
static inline double cross(V a, V b) { return a.x * b.y - a.y * b.x; }
static inline double len(V a) { return sqrt(a.x * a.x + a.y * a.y); }
static inline V unit(V a) { double l = len(a); return {a.x / l, a.y / l}; }
static inline V leftn(V t) { double l = len(t); return {-t.y / l, t.x / l}; }
static inline V rot(V a, double ang) { double c = cos(ang), s = sin(ang); return {a.x * c - a.y * s, a.x * s + a.y * c}; }
static inline double dist_seg(V q, V a, V b) {
    V d = b - a;
    double l2 = dot(d, d), t = l2 > 0 ? dot(q - a, d) / l2 : 0;
    t = t < 0 ? 0 : t > 1 ? 1 : t;
    return len(a + d * t - q);
}

// ---------------------------------------------------------------- spine sections (untransformed)
struct OSec {
    int type = 0;  // 0 segment, 1 elliptical arc, 2 Bezier, 3 left-turning quarter circle
    V a{}, b{};
    V c{}; double rx = 0, ry = 0, t0 = 0, t1 = 0, rotn = 0;
    std::vector<V> ctrl;
    V ref{}; double Rr = 0, h = 0;
    int kind = -1;
    bool numeric_grad = false, approx = false;
    static OSec segment(V a, V b) { OSec s; s.type = 0; s.a = a; s.b = b; return s; }
    static OSec arc(V c, double rx, double ry, double t0, double t1, double rotn) { OSec s; s.type = 1; s.c = c; s.rx = rx; s.ry = ry; s.t0 = t0; s.t1 = t1; s.rotn = rotn; return s; }
    static OSec bezier(std::vector<V> ctrl) { OSec s; s.type = 2; s.ctrl = std::move(ctrl); return s; }
    static OSec circle(V ref, double R, double h) { OSec s; s.type = 3; s.ref = ref; s.Rr = R; s.h = h; return s; }
    static V casteljau(const V* p, int n, double u) {
        V t[8];
        for (int i = 0; i < n; i++) t[i] = p[i];
        for (int r = 1; r < n; r++)
            for (int i = 0; i + r < n; i++) t[i] = t[i] * (1 - u) + t[i + 1] * u;
        return t[0];
    }
    V eval(double u) const {  // analytic, also outside [0,1]
        switch (type) {
            case 0: return a + (b - a) * u;
            case 1: { double t = t0 + (t1 - t0) * u; return c + rot(V{rx * cos(t), ry * sin(t)}, rotn); }
            case 2: return casteljau(ctrl.data(), (int)ctrl.size(), u);
            default: { double t = 0.5 * M_PI * u; return ref + rot(V{Rr * sin(t), Rr * (1 - cos(t))}, h); }
        }
    }
    V der(double u) const {
        switch (type) {
            case 0: return b - a;
            case 1: { double t = t0 + (t1 - t0) * u; return rot(V{-rx * sin(t), ry * cos(t)}, rotn) * (t1 - t0); }
            case 2: {
                V d[8];
                int n = (int)ctrl.size() - 1;
                for (int i = 0; i < n; i++) d[i] = (ctrl[i + 1] - ctrl[i]) * (double)n;
                return casteljau(d, n, u);
            }
            default: { double t = 0.5 * M_PI * u; return rot(V{cos(t), sin(t)}, h) * (Rr * 0.5 * M_PI); }
        }
    }
};

// ---------------------------------------------------------------- width / offset interpolation
struct IM { int type; double a, b; };  // 0 constant a; 1 linear a->b; 2 smooth a->b; 3 user quadratic b+(a-b)(1-u)^2
static inline double im_eval(const IM& m, double u) {  // polynomial, not clamped (used inside [0,1] and a hair outside)
    switch (m.type) {
        case 0: return m.a;
        case 1: return m.a + (m.b - m.a) * u;
        case 2: return m.a + (m.b - m.a) * (3 - 2 * u) * u * u;
        default: return m.b + (m.a - m.b) * (1 - u) * (1 - u);
    }
}

// ---------------------------------------------------------------- similarity maps
struct Xf {
    double m[4] = {1, 0, 0, 1};
    V t{0, 0};
    double mag = 1;
    bool reflect = false;
    V apply(V p) const { return V{m[0] * p.x + m[1] * p.y + t.x, m[2] * p.x + m[3] * p.y + t.y}; }
    static Xf identity() { return Xf(); }
    static Xf rotation(double ang, V c) {  // p -> c + R(p - c)
        Xf x; double cs = cos(ang), sn = sin(ang);
        x.m[0] = cs; x.m[1] = -sn; x.m[2] = sn; x.m[3] = cs;
        V rc = rot(c, ang); x.t = c - rc; return x;
    }
    static Xf reflection(V p0, V p1) {  // mirror image across the line p0 p1
        Xf x; V d = unit(p1 - p0);
        x.m[0] = 2 * d.x * d.x - 1; x.m[1] = 2 * d.x * d.y; x.m[2] = 2 * d.x * d.y; x.m[3] = 2 * d.y * d.y - 1;
        V mp = V{x.m[0] * p0.x + x.m[1] * p0.y, x.m[2] * p0.x + x.m[3] * p0.y};
        x.t = p0 - mp; x.reflect = true; return x;
    }
    static Xf scaling(double s, V c) { Xf x; x.m[0] = x.m[3] = s; x.t = c * (1 - s); x.mag = s; return x; }
    static Xf reference(double magn, bool xr, double ang, V origin) {  // magnify, reflect across x, rotate, translate
        Xf x; double cs = cos(ang), sn = sin(ang), f = xr ? -1 : 1;
        x.m[0] = magn * cs; x.m[1] = -magn * f * sn; x.m[2] = magn * sn; x.m[3] = magn * f * cs;
        x.t = origin; x.mag = magn; x.reflect = xr; return x;
    }
};

// ---------------------------------------------------------------- polygon with a strip index
struct PolyIndex {
    std::vector<V> p;
    struct E { double ax, ay, bx, by; };
    double ymin = 0, ymax = 0, xmin = 0, xmax = 0, inv = 0;
    int B = 1;
    std::vector<std::vector<E>> strips;
    explicit PolyIndex(const std::vector<V>& pts) : p(pts) {
        ymin = xmin = INFINITY; ymax = xmax = -INFINITY;
        for (auto& q : p) { ymin = std::min(ymin, q.y); ymax = std::max(ymax, q.y); xmin = std::min(xmin, q.x); xmax = std::max(xmax, q.x); }
        B = (int)std::min<size_t>(2048, std::max<size_t>(8, 2 * p.size()));
        inv = ymax > ymin ? B / (ymax - ymin) : 0;
        strips.assign(B, {});
        size_t n = p.size();
        for (size_t i = 0; i < n; i++) {
            V a = p[i], b = p[(i + 1) % n];
            int s0 = strip(std::min(a.y, b.y) - 1e-9), s1 = strip(std::max(a.y, b.y) + 1e-9);
            for (int s = s0; s <= s1; s++) strips[s].push_back(E{a.x, a.y, b.x, b.y});
        }
    }
    int strip(double y) const { int s = (int)floor((y - ymin) * inv); return s < 0 ? 0 : s >= B ? B - 1 : s; }
    // non-zero winding, or on the boundary
    bool covered(V q) const {
        if (q.y < ymin - 1e-9 || q.y > ymax + 1e-9 || q.x < xmin - 1e-9 || q.x > xmax + 1e-9) return false;
        int w = 0;
        for (const E& e : strips[strip(q.y)]) {
            double cr = (e.bx - e.ax) * (q.y - e.ay) - (e.by - e.ay) * (q.x - e.ax);
            if (e.ay <= q.y) { if (e.by > q.y && cr > 0) w++; }
            else if (e.by <= q.y && cr < 0) w--;
            if (fabs(cr) <= 1e-7 && dist_seg(q, V{e.ax, e.ay}, V{e.bx, e.by}) <= 1e-9) return true;
        }
        return w != 0;
    }
    double dist_boundary(V q) const {
        double d = INFINITY;
        size_t n = p.size();
        for (size_t i = 0; i < n; i++) d = std::min(d, dist_seg(q, p[i], p[(i + 1) % n]));
        return d;
    }
};

struct Miss {
    int64_t count = 0, tested = 0, covered = 0;
    int sec = -1;
    double u = 0, r = 0, hw = 0;
    double excess = 0;  // largest distance of a missed point from the outline
    V q{0, 0};
    std::string where, note;
};

// ---------------------------------------------------------------- per-element centre-curve oracle
struct ElemOracle {
    struct Sec {
        std::vector<V> C, Tt, Nn;
        std::vector<double> hw;
        double ulo = 0, uhi = 1;       // part of the centre curve kept at trimmed joints
        double slo[2] = {0, 0}, shi[2] = {1, 1};  // the same for the left [0] and right [1] edge curves
        double rim_lo[2] = {0, 0}, rim_hi[2] = {1, 1};  // rim only (|r| = w/2-g): corner of the edge curves at a centre-curve corner
        int klo = 0, khi = 0;          // sample range taking part in must-cover
        std::vector<V> bc; std::vector<double> br, bh;  // blocks of BL samples: centre, radius, max half width
    };
    static const int BL = 50;
    std::vector<Sec> S;
    const std::vector<OSec>* secs = nullptr;
    const std::vector<IM>*wim = nullptr, *oim = nullptr;
    Xf T;
    int N = 0, end = 0;
    double g = 0, ext0 = 0, ext1 = 0;
    struct Disc { V p; double r; };
    std::vector<Disc> discs;
    std::vector<std::pair<V, V>> extsegs;
    std::vector<std::pair<V, int>> corner_pts;  // must-cover points on the corner diagonals of trimmed joints
    std::string error, degenerate;
    int mixed_joints = 0, trimmed_joints = 0, extended_joints = 0;
    // root-cause predicates of the element (tags of violations)
    bool offset_slope_jump = false;   // tangent-continuous joint where d(offset)/d(arc length) jumps: centre curve has a corner there
    bool nograd_offset_slope = false; // section without gradient function ends with offset != 0 and d(offset)/du != 0
    bool taper_at_angled_joint = false;  // width or offset still changing where an angled joint extends / trims the edges
    double kink_max = 0;

    V edge(int i, double u, int sd) const {  // sd = +1 left, -1 right
        return cen(i, u) + leftn(cen_tan(i, u)) * (sd * 0.5 * im_eval((*wim)[i], u) * T.mag);
    }
    V edge_tan(int i, double u, int sd) const { const double h = 1e-5; return (edge(i, u + h, sd) - edge(i, u - h, sd)) * (1 / (2 * h)); }
    // Newton iteration for curveA(ua) = curveB(ub) from (1, 0); sd = 0: centre curves
    bool cross_param(int i, int sd, double& ua, double& ub) const {
        ua = 1; ub = 0;
        for (int it = 0; it < 80; it++) {
            V F = sd ? edge(i, ua, sd) - edge(i + 1, ub, sd) : cen(i, ua) - cen(i + 1, ub);
            // edge curves may also cross on the (analytically continued) prolongation of one of them
            if (len(F) < 1e-8) return sd ? (ua <= 1.1 && ua > 0.2 && ub >= -0.1 && ub < 0.8 && (ua < 1 || ub > 0)) : (ua <= 1 + 1e-9 && ua > 0.2 && ub >= -1e-9 && ub < 0.8);
            V dA = sd ? edge_tan(i, ua, sd) : cen_tan(i, ua), dB = sd ? edge_tan(i + 1, ub, sd) : cen_tan(i + 1, ub);
            double dd = cross(dA, dB);
            if (fabs(dd) < 1e-12) return false;
            double x = -cross(F, dB) / dd, y = -cross(F, dA) / dd;  // Cramer: dA x - dB y = -F
            double stepmax = std::max(fabs(x), fabs(y)), sc = stepmax > 0.25 ? 0.25 / stepmax : 1;
            ua += sc * x; ub += sc * y;
            if (ua < -0.5 || ua > 1.5 || ub < -0.5 || ub > 1.5) return false;
        }
        return false;
    }

    V cen(int i, double u) const {
        const OSec& s = (*secs)[i];
        V p = s.eval(u), n = leftn(s.der(u));
        return T.apply(p + n * im_eval((*oim)[i], u));
    }
    V cen_tan(int i, double u) const { const double h = 1e-6; return (cen(i, u + h) - cen(i, u - h)) * (1 / (2 * h)); }
    V spine_tan(int i, double u) const { const double h = 1e-6; const OSec& s = (*secs)[i]; return (T.apply(s.eval(u + h)) - T.apply(s.eval(u - h))) * (1 / (2 * h)); }
    static bool line_x(V p, V d, V q, V e, V& out) {
        double den = cross(d, e);
        if (fabs(den) < 1e-12) return false;
        double t = cross(q - p, e) / den;
        out = p + d * t;
        return true;
    }

    void init(const std::vector<OSec>& secs_, const std::vector<IM>& w, const std::vector<IM>& o, const Xf& T_, int N_, double g_, int end_, double ext0_, double ext1_) {
        secs = &secs_; wim = &w; oim = &o; T = T_; N = N_; g = g_; end = end_; ext0 = ext0_; ext1 = ext1_;
        int n = (int)secs_.size();
        S.assign(n, Sec());
        for (int i = 0; i < n; i++) {
            Sec& s = S[i];
            s.C.resize(N + 1); s.Tt.resize(N + 1); s.Nn.resize(N + 1); s.hw.resize(N + 1);
            for (int k = 0; k <= N; k++) s.C[k] = cen(i, (double)k / N);
            V before = cen(i, -1.0 / N), after = cen(i, 1 + 1.0 / N);  // analytic continuation, for the end tangents
            for (int k = 0; k <= N; k++) {
                double u = (double)k / N;
                V t = ((k < N ? s.C[k + 1] : after) - (k > 0 ? s.C[k - 1] : before)) * (0.5 * N);  // central difference, step 1/N
                double l = len(t);
                if (!(l > 1e-9)) { error = "centre curve is singular"; return; }
                s.Tt[k] = t * (1 / l);
                s.Nn[k] = leftn(t);
                s.hw[k] = 0.5 * im_eval(w[i], u) * T.mag;
            }
            for (int k0 = 0; k0 < N; k0 += BL) {
                int k1 = std::min(N, k0 + BL);
                V c = s.C[(k0 + k1) / 2];
                double r = 0, h = 0;
                for (int k = k0; k <= k1; k++) { r = std::max(r, len(s.C[k] - c)); h = std::max(h, s.hw[k]); }
                s.bc.push_back(c); s.br.push_back(r); s.bh.push_back(h);
            }
        }
        // joints
        const double sg = T.reflect ? -1 : 1;
        auto dslope = [&](const IM& m, double u) { return (im_eval(m, u + 1e-6) - im_eval(m, u - 1e-6)) / 2e-6; };
        for (int i = 0; i < n; i++) {
            if (secs_[i].numeric_grad)
                for (double u : {0.0, 1.0}) if (fabs(im_eval(o[i], u)) > 1e-9 && fabs(dslope(o[i], u)) > 1e-9) nograd_offset_slope = true;
        }
        for (int i = 0; i + 1 < n; i++) {
            V tA = unit(spine_tan(i, 1)), tB = unit(spine_tan(i + 1, 0));
            double turn = atan2(cross(tA, tB), dot(tA, tB));
            if (fabs(turn) < 1e-3) {
                V a = S[i].Tt[N], b = S[i + 1].Tt[0];
                double kink = fabs(atan2(cross(a, b), dot(a, b)));
                kink_max = std::max(kink_max, kink);
                if (kink > 1e-4) offset_slope_jump = true;
                // the centre curve has a corner here: on its inner side the edge curves cross before the joint,
                // and the rim beyond that corner is not part of the outline (it lies in the neighbour's body only
                // as long as the neighbour does not taper); the corner diagonal must be covered instead
                if (kink > 1e-3) {
                    double kc = atan2(cross(a, b), dot(a, b));
                    int sd = kc > 0 ? 1 : -1, si = sd > 0 ? 0 : 1;
                    double ua, ub;
                    if (cross_param(i, sd, ua, ub)) {
                        S[i].rim_hi[si] = std::min(1.0, ua); S[i + 1].rim_lo[si] = std::max(0.0, ub);
                        V Xc = S[i].C[N], Xe = edge(i, ua, sd), d = Xe - Xc;
                        double L = len(d);
                        if (L > 3 * g) for (double f : {0.5, 1.0}) corner_pts.push_back({Xc + d * (f * (L - 2 * g) / L), i});
                    }
                }
                continue;
            }
            if (fabs(dslope(o[i], 1)) > 1e-9 || fabs(dslope(o[i + 1], 0)) > 1e-9 || fabs(dslope(w[i], 1)) > 1e-9 || fabs(dslope(w[i + 1], 0)) > 1e-9) taper_at_angled_joint = true;
            V P = T.apply(secs_[i].eval(1));
            V nA = leftn(tA), nB = leftn(tB);
            double oA = im_eval(o[i], 1) * T.mag * sg, oB = im_eval(o[i + 1], 0) * T.mag * sg;
            double hA = S[i].hw[N], hB = S[i + 1].hw[0];
            double det = nA.x * nB.y - nA.y * nB.x, Rj = 0;
            for (int side = -1; side <= 1; side++) {
                double dA = oA + side * hA, dB = oB + side * hB;
                V x = V{nB.y * dA - nA.y * dB, -nB.x * dA + nA.x * dB} * (1 / det);
                Rj = std::max(Rj, len(x));
            }
            discs.push_back({P, Rj});
            // A curve displaced to the inner side of the turn crosses its successor before the joint and both are
            // trimmed there (own Newton iteration on the analytic curves, from the joint); on the outer side they
            // are extended to their corner.  Decided separately for the centre curve and the two edge curves.
            double oJ = fabs(oA) >= fabs(oB) ? oA : oB, hJ = std::max(hA, hB);
            bool centre_trim = turn * oJ > 1e-9 * fabs(turn);
            V Xc = P;
            if (centre_trim) {
                double ua, ub;
                if (!cross_param(i, 0, ua, ub)) { degenerate = "the displaced sections do not cross near an angled joint"; return; }
                S[i].uhi = std::min(1.0, ua); S[i + 1].ulo = std::max(0.0, ub); trimmed_joints++;
                Xc = cen(i, ua);
            } else if (fabs(oJ) > 1e-9) {
                extended_joints++;
                V cA = S[i].C[N], cB = S[i + 1].C[0], X;
                if (line_x(cA, tA, cB, tB, X)) { extsegs.push_back({cA, X}); extsegs.push_back({X, cB}); }
                if (line_x(cA, S[i].Tt[N], cB, S[i + 1].Tt[0], X)) { extsegs.push_back({cA, X}); extsegs.push_back({X, cB}); }
            }
            for (int si = 0; si < 2; si++) {
                int sd = si ? -1 : 1;
                if (!(turn * (oJ + sd * hJ) > 0)) continue;  // this edge is on the outer side: extended
                double ua, ub;
                if (!cross_param(i, sd, ua, ub)) { degenerate = "the edge curves do not cross near an angled joint"; return; }
                if (centre_trim) { S[i].shi[si] = std::min(1.0, ua); S[i + 1].slo[si] = std::max(0.0, ub); }
                else { S[i].rim_hi[si] = std::min(1.0, ua); S[i + 1].rim_lo[si] = std::max(0.0, ub); }
                // the corner diagonal from the centre corner to this edge corner lies in both bodies
                V Xe = edge(i, ua, sd), d = Xe - Xc;
                double L = len(d);
                if (L > 3 * g && (centre_trim || fabs(oJ) <= 1e-9)) for (double f : {0.5, 1.0}) corner_pts.push_back({Xc + d * (f * (L - 2 * g) / L), i});
            }
            if (centre_trim || fabs(oJ) <= 1e-9) corner_pts.push_back({Xc, i});
        }
        for (int i = 0; i < n; i++) {
            Sec& s = S[i];
            s.klo = (int)ceil(s.ulo * N - 1e-9);
            s.khi = (int)floor(s.uhi * N + 1e-9);
        }
        // a flush end cross-section lies ON the outline: stay g (arc length) away from it
        if (end == 0) {
            Sec& f = S[0];
            double a = 0;
            int k = 0;
            while (k < N && a < g) { a += len(f.C[k + 1] - f.C[k]); k++; }
            f.klo = std::max(f.klo, k);
            Sec& l = S[n - 1];
            a = 0; k = N;
            while (k > 0 && a < g) { a += len(l.C[k] - l.C[k - 1]); k--; }
            l.khi = std::min(l.khi, k);
        }
    }

    Miss must_cover(const PolyIndex& pi, int rim_stride = 1) const {
        Miss m;
        int n = (int)S.size();
        auto test = [&](V q, int sec, double u, double r, double hw, const char* where) {
            m.tested++;
            if (!pi.covered(q)) {
                double d = m.count < 3000 ? pi.dist_boundary(q) : 0;
                if (m.count++ == 0 || d > m.excess) { m.sec = sec; m.u = u; m.r = r; m.hw = hw; m.q = q; m.where = where; m.excess = d; }
            }
        };
        for (int i = 0; i < n; i++) {
            const Sec& s = S[i];
            for (int k = s.klo; k <= s.khi; k++) {
                double hw = s.hw[k], rm = hw - g;
                if (rm <= 0) continue;
                const int J1 = N / 100;
                bool joint = (k <= J1 && i > 0) || (k >= N - J1 && i + 1 < n) || (s.ulo > 0 && k <= s.klo + J1) || (s.uhi < 1 && k >= s.khi - J1);  // within 1% of a joint
                const double f[] = {1, -1, 0, 0.5, -0.5};
                if (!joint && k % rim_stride) continue;
                int nf = (joint || k % 4 == 0) ? 5 : 2;  // the rims at every (rim_stride-th) parameter, the interior at every fourth
                double u = (double)k / N;
                for (int j = 0; j < nf; j++) {
                    if (f[j] > 0 && (u < s.slo[0] || u > s.shi[0])) continue;  // beyond the corner of the left edges
                    if (f[j] < 0 && (u < s.slo[1] || u > s.shi[1])) continue;
                    if (f[j] == 1 && (u < s.rim_lo[0] || u > s.rim_hi[0])) continue;
                    if (f[j] == -1 && (u < s.rim_lo[1] || u > s.rim_hi[1])) continue;
                    test(s.C[k] + s.Nn[k] * (f[j] * rm), i, u, f[j] * rm, hw, joint ? "joint" : "body");
                }
            }
        }
        for (auto& cp : corner_pts) test(cp.first, cp.second, 1, 0, 0, "joint");
        // the chosen end caps
        for (int which = 0; which < 2; which++) {
            const Sec& s = which ? S[n - 1] : S[0];
            int k = which ? N : 0;
            V c = s.C[k], t = which ? s.Tt[k] : s.Tt[k] * -1.0, nn = s.Nn[k];  // t points out of the path
            double hw = s.hw[k], rm = hw - g;
            if (rm <= 0) continue;
            double ext = end == 1 ? hw : end == 2 ? (which ? ext1 : ext0) : 0;
            if (end == 1 || end == 2) {
                if (ext - g <= 0) continue;
                const double as[] = {0, 0.5, 1};
                const double fs[] = {0, 0.5, -0.5, 1, -1};
                for (double a : as) for (double fr : fs) test(c + t * (a * (ext - g)) + nn * (fr * rm), which ? n - 1 : 0, which, fr * rm, hw, "cap");
            } else if (end == 3) {
                for (int j = -4; j <= 4; j++) for (double rho : {0.5 * rm, rm}) {
                    double ph = j * (M_PI / 2) / 4.5;
                    test(c + t * (rho * cos(ph)) + nn * (rho * sin(ph)), which ? n - 1 : 0, which, rho, hw, "cap");
                }
            }
        }
        return m;
    }

    bool allowed(V q) const {
        int n = (int)S.size();
        for (int i = 0; i < n; i++) {
            const Sec& s = S[i];
            for (size_t bI = 0; bI < s.bc.size(); bI++) {
                if (len(q - s.bc[bI]) > s.br[bI] + s.bh[bI] + g) continue;
                int k0 = (int)bI * BL, k1 = std::min(N, k0 + BL);
                for (int k = k0; k < k1; k++)
                    if (dist_seg(q, s.C[k], s.C[k + 1]) <= std::max(s.hw[k], s.hw[k + 1]) + g) return true;
            }
        }
        for (auto& d : discs) if (len(q - d.p) <= d.r + g) return true;
        for (int which = 0; which < 2; which++) {
            const Sec& s = which ? S[n - 1] : S[0];
            int k = which ? N : 0;
            V c = s.C[k], t = which ? s.Tt[k] : s.Tt[k] * -1.0, nn = s.Nn[k];
            double hw = s.hw[k];
            if (end == 1 || end == 2) {
                double ext = end == 1 ? hw : (which ? ext1 : ext0);
                double a = dot(q - c, t), bb = dot(q - c, nn);
                if (a >= -g && a <= ext + g && fabs(bb) <= hw + g) return true;
            } else if (end == 3) {
                if (len(q - c) <= hw + g) return true;
            }
        }
        return false;
    }

    Miss must_not_cover(const PolyIndex& pi) const {
        Miss m;
        const double step = 0.25;
        long i0 = (long)floor((pi.xmin - 0.5) / step), i1 = (long)ceil((pi.xmax + 0.5) / step);
        long j0 = (long)floor((pi.ymin - 0.5) / step), j1 = (long)ceil((pi.ymax + 0.5) / step);
        for (long i = i0; i <= i1; i++)
            for (long j = j0; j <= j1; j++) {
                V q = {(i + 1.0 / 3) * step, (j + 1.0 / 7) * step};
                m.tested++;
                if (!pi.covered(q)) continue;
                m.covered++;
                if (allowed(q)) continue;
                if (m.count++ == 0) {
                    m.q = q;
                    double best = INFINITY;
                    for (size_t s = 0; s < S.size(); s++)
                        for (int k = 0; k <= N; k++) {
                            double d = len(q - S[s].C[k]);
                            if (d < best) { best = d; m.sec = (int)s; m.u = (double)k / N; m.hw = S[s].hw[k]; }
                        }
                    m.r = best;
                }
            }
        return m;
    }

    // PATH record: every re-read vertex within vtol of the centre line (incl. the straight extension to
    // the corner at an angled joint), and the centre line within ctol of the re-read polyline
    std::string check_centre_line(const std::vector<V>& pts, double vtol, double ctol) const {
        if (pts.size() < 2) return "re-read path has fewer than 2 points";
        int n = (int)S.size();
        char buf[400];
        for (size_t v = 0; v < pts.size(); v++) {
            V q = pts[v];
            bool ok = false;
            for (int i = 0; i < n && !ok; i++) {
                const Sec& s = S[i];
                for (size_t bI = 0; bI < s.bc.size() && !ok; bI++) {
                    if (len(q - s.bc[bI]) > s.br[bI] + vtol) continue;
                    int k0 = (int)bI * BL, k1 = std::min(N, k0 + BL);
                    for (int k = k0; k < k1; k++) if (dist_seg(q, s.C[k], s.C[k + 1]) <= vtol) { ok = true; break; }
                }
            }
            for (auto& e : extsegs) if (!ok && dist_seg(q, e.first, e.second) <= vtol) ok = true;
            if (!ok) {
                snprintf(buf, sizeof buf, "re-read vertex %zu (%.9g, %.9g) is farther than %.3g from the element's centre curve", v, q.x, q.y, vtol);
                return buf;
            }
        }
        if (len(pts.front() - S[0].C[0]) > ctol) return "re-read path does not start at c(0)";
        if (len(pts.back() - S[n - 1].C[N]) > ctol) return "re-read path does not end at c(count)";
        for (int i = 0; i < n; i++) {
            const Sec& s = S[i];
            int klo = (int)ceil(s.ulo * N - 1e-9), khi = (int)floor(s.uhi * N + 1e-9);
            for (int k = klo; k <= khi; k += 8) {
                double d = INFINITY;
                for (size_t v = 0; v + 1 < pts.size() && d > ctol; v++) d = std::min(d, dist_seg(s.C[k], pts[v], pts[v + 1]));
                if (d > ctol) {
                    snprintf(buf, sizeof buf, "centre curve point of section %d at u=%.4g (%.9g, %.9g) is %.3g from the re-read centre line (limit %.3g)", i, (double)k / N, s.C[k].x, s.C[k].y, d, ctol);
                    return buf;
                }
            }
        }
        return "";
    }
};

}  // namespace c08
