// dump.hpp — canonical JSON dump of gdstk objects *by walking the public struct fields only*.
// It calls no gdstk function under test (no get_polygons, apply_repetition, get_offsets …);
// repetition lattices are dumped as their defining fields and, separately, expanded by the
// three-line loops below (own_offsets).  Doubles are printed with %.17g (round-trip exact).
#pragma once
#include <gdstk/gdstk.hpp>

#include <string>
#include <vector>

#include "vf.hpp"

namespace dump {
using namespace gdstk;
using vf::jarr; using vf::jbool; using vf::jint; using vf::jnum; using vf::jobj; using vf::jstr; using vf::juint; using vf::JFields;

inline std::string vec(const Vec2& v) { return "[" + jnum(v.x) + "," + jnum(v.y) + "]"; }
inline std::string tag(Tag t) { return "[" + juint(get_layer(t)) + "," + juint(get_type(t)) + "]"; }
inline std::string points(const Array<Vec2>& a) {
    std::vector<std::string> v;
    for (uint64_t i = 0; i < a.count; i++) v.push_back(vec(a[i]));
    return jarr(v);
}
inline std::string bytes_hex(const uint8_t* b, uint64_t n) {
    std::string s;
    char t[4];
    for (uint64_t i = 0; i < n; i++) { snprintf(t, sizeof t, "%02x", b[i]); s += t; }
    return jstr(s);
}
// properties: list of {name, values:[{t:"u"|"i"|"r"|"s", v:...}]} in list order
inline std::string properties(const Property* p) {
    std::vector<std::string> out;
    for (; p; p = p->next) {
        std::vector<std::string> vals;
        for (PropertyValue* v = p->value; v; v = v->next) {
            switch (v->type) {
                case PropertyType::UnsignedInteger: vals.push_back(jobj({{"t", jstr("u")}, {"v", jstr(std::to_string(v->unsigned_integer))}})); break;
                case PropertyType::Integer: vals.push_back(jobj({{"t", jstr("i")}, {"v", jstr(std::to_string(v->integer))}})); break;
                case PropertyType::Real: vals.push_back(jobj({{"t", jstr("r")}, {"v", jnum(v->real)}})); break;
                case PropertyType::String: vals.push_back(jobj({{"t", jstr("s")}, {"hex", bytes_hex(v->bytes, v->count)}})); break;
            }
        }
        out.push_back(jobj({{"name", jstr(p->name)}, {"values", jarr(vals)}}));
    }
    return jarr(out);
}
// the denoted offsets, zero vector first, computed here from the fields
inline std::vector<Vec2> own_offsets(const Repetition& r) {
    std::vector<Vec2> o;
    switch (r.type) {
        case RepetitionType::None: o.push_back(Vec2{0, 0}); break;
        case RepetitionType::Rectangular:
            for (uint64_t i = 0; i < r.columns; i++) for (uint64_t j = 0; j < r.rows; j++) o.push_back(Vec2{i * r.spacing.x, j * r.spacing.y});
            break;
        case RepetitionType::Regular:
            for (uint64_t i = 0; i < r.columns; i++) for (uint64_t j = 0; j < r.rows; j++) o.push_back(Vec2{i * r.v1.x + j * r.v2.x, i * r.v1.y + j * r.v2.y});
            break;
        case RepetitionType::Explicit:
            o.push_back(Vec2{0, 0});
            for (uint64_t i = 0; i < r.offsets.count; i++) o.push_back(r.offsets[i]);
            break;
        case RepetitionType::ExplicitX:
            o.push_back(Vec2{0, 0});
            for (uint64_t i = 0; i < r.coords.count; i++) o.push_back(Vec2{r.coords[i], 0});
            break;
        case RepetitionType::ExplicitY:
            o.push_back(Vec2{0, 0});
            for (uint64_t i = 0; i < r.coords.count; i++) o.push_back(Vec2{0, r.coords[i]});
            break;
    }
    return o;
}
inline std::string repetition(const Repetition& r) {
    static const char* names[] = {"none", "rectangular", "regular", "explicit", "explicit_x", "explicit_y"};
    JFields f = {{"type", jstr(names[(int)r.type])}};
    if (r.type == RepetitionType::Rectangular) { f.push_back({"columns", juint(r.columns)}); f.push_back({"rows", juint(r.rows)}); f.push_back({"spacing", vec(r.spacing)}); }
    if (r.type == RepetitionType::Regular) { f.push_back({"columns", juint(r.columns)}); f.push_back({"rows", juint(r.rows)}); f.push_back({"v1", vec(r.v1)}); f.push_back({"v2", vec(r.v2)}); }
    if (r.type == RepetitionType::Explicit) f.push_back({"offsets", points(r.offsets)});
    if (r.type == RepetitionType::ExplicitX || r.type == RepetitionType::ExplicitY) {
        std::vector<std::string> c;
        for (uint64_t i = 0; i < r.coords.count; i++) c.push_back(jnum(r.coords[i]));
        f.push_back({"coords", jarr(c)});
    }
    std::vector<std::string> o;
    for (auto& v : own_offsets(r)) o.push_back(vec(v));
    f.push_back({"expanded", jarr(o)});
    return jobj(f);
}
inline std::string polygon(const Polygon& p) {
    return jobj({{"tag", tag(p.tag)}, {"points", points(p.point_array)}, {"repetition", repetition(p.repetition)}, {"properties", properties(p.properties)}});
}
inline std::string flexpath(const FlexPath& fp) {
    std::vector<std::string> els;
    for (uint64_t i = 0; i < fp.num_elements; i++) {
        const FlexPathElement& e = fp.elements[i];
        els.push_back(jobj({{"tag", tag(e.tag)}, {"half_width_and_offset", points(e.half_width_and_offset)}, {"join", jstr(join_type_name(e.join_type))},
                            {"end", jstr(end_type_name(e.end_type))}, {"end_extensions", vec(e.end_extensions)}, {"bend", jstr(bend_type_name(e.bend_type))}, {"bend_radius", jnum(e.bend_radius)}}));
    }
    return jobj({{"spine", points(fp.spine.point_array)}, {"tolerance", jnum(fp.spine.tolerance)}, {"simple_path", jbool(fp.simple_path)}, {"scale_width", jbool(fp.scale_width)},
                 {"elements", jarr(els)}, {"repetition", repetition(fp.repetition)}, {"properties", properties(fp.properties)}});
}
inline std::string robustpath(const RobustPath& rp) {
    std::vector<std::string> els;
    for (uint64_t i = 0; i < rp.num_elements; i++) {
        const RobustPathElement& e = rp.elements[i];
        els.push_back(jobj({{"tag", tag(e.tag)}, {"end_width", jnum(e.end_width)}, {"end_offset", jnum(e.end_offset)}, {"end", jstr(end_type_name(e.end_type))}, {"end_extensions", vec(e.end_extensions)}}));
    }
    std::vector<std::string> tr;
    for (int i = 0; i < 6; i++) tr.push_back(jnum(rp.trafo[i]));
    return jobj({{"end_point", vec(rp.end_point)}, {"subpaths", juint(rp.subpath_array.count)}, {"tolerance", jnum(rp.tolerance)}, {"max_evals", juint(rp.max_evals)},
                 {"width_scale", jnum(rp.width_scale)}, {"offset_scale", jnum(rp.offset_scale)}, {"trafo", jarr(tr)}, {"simple_path", jbool(rp.simple_path)}, {"scale_width", jbool(rp.scale_width)},
                 {"elements", jarr(els)}, {"repetition", repetition(rp.repetition)}, {"properties", properties(rp.properties)}});
}
inline std::string label(const Label& l) {
    return jobj({{"tag", tag(l.tag)}, {"text", jstr(l.text ? l.text : "")}, {"origin", vec(l.origin)}, {"anchor", jint((int)l.anchor)}, {"rotation", jnum(l.rotation)},
                 {"magnification", jnum(l.magnification)}, {"x_reflection", jbool(l.x_reflection)}, {"repetition", repetition(l.repetition)}, {"properties", properties(l.properties)}});
}
inline std::string reference(const Reference& r) {
    const char* kind = r.type == ReferenceType::Cell ? "cell" : r.type == ReferenceType::RawCell ? "rawcell" : "name";
    const char* target = r.type == ReferenceType::Cell ? r.cell->name : r.type == ReferenceType::RawCell ? r.rawcell->name : r.name;
    return jobj({{"kind", jstr(kind)}, {"target", jstr(target ? target : "")}, {"origin", vec(r.origin)}, {"rotation", jnum(r.rotation)}, {"magnification", jnum(r.magnification)},
                 {"x_reflection", jbool(r.x_reflection)}, {"repetition", repetition(r.repetition)}, {"properties", properties(r.properties)}});
}
inline std::string cell(const Cell& c) {
    std::vector<std::string> po, fp, rp, la, re;
    for (uint64_t i = 0; i < c.polygon_array.count; i++) po.push_back(polygon(*c.polygon_array[i]));
    for (uint64_t i = 0; i < c.flexpath_array.count; i++) fp.push_back(flexpath(*c.flexpath_array[i]));
    for (uint64_t i = 0; i < c.robustpath_array.count; i++) rp.push_back(robustpath(*c.robustpath_array[i]));
    for (uint64_t i = 0; i < c.label_array.count; i++) la.push_back(label(*c.label_array[i]));
    for (uint64_t i = 0; i < c.reference_array.count; i++) re.push_back(reference(*c.reference_array[i]));
    return jobj({{"name", jstr(c.name ? c.name : "")}, {"polygons", jarr(po)}, {"flexpaths", jarr(fp)}, {"robustpaths", jarr(rp)}, {"labels", jarr(la)}, {"references", jarr(re)},
                 {"properties", properties(c.properties)}});
}
inline std::string library(const Library& l) {
    std::vector<std::string> cells, raws;
    for (uint64_t i = 0; i < l.cell_array.count; i++) cells.push_back(cell(*l.cell_array[i]));
    for (uint64_t i = 0; i < l.rawcell_array.count; i++) raws.push_back(jstr(l.rawcell_array[i]->name));
    return jobj({{"name", jstr(l.name ? l.name : "")}, {"unit", jnum(l.unit)}, {"precision", jnum(l.precision)}, {"cells", jarr(cells)}, {"rawcells", jarr(raws)}, {"properties", properties(l.properties)}});
}
}  // namespace dump
