// c01_model.hpp — the abstract integer-grid layout model of C01 (DESIGN.md 1.4 / C01) and its comparison.
//
// The model of a gdstk Library is computed by walking the public struct fields here; no function
// under test (write_gds, read_gds, *::to_gds, properties_to_gds, Repetition::get_offsets,
// apply_repetition, fracture) is called.  The only gdstk functions called are FlexPath/RobustPath
// ::copy_from + ::to_polygons on a *copy* of a non-simple path, because the property defines the
// expected outcome of such a path as "plain elements covering the same region" and the outline itself
// is C07/C08's subject.
#pragma once
#include <float.h>
#include <gdstk/gdstk.hpp>
#include <math.h>

#include <algorithm>
#include <map>
#include <string>
#include <vector>

#include "dump.hpp"
#include "exactgeom.hpp"
#include "vf.hpp"

namespace c01 {
using namespace gdstk;
using eg::i128;
using eg::P;
using eg::Poly;
using vf::fmt;

typedef std::vector<std::pair<int, std::string>> Props;  // (attribute, value as C string), sorted

struct MPoly { int layer = 0, type = 0; Props props; Poly pts; bool big = false; };
// optional[i] (source model only): spine vertex i is closer to its predecessor than the path's own tolerance
// (strictly); gdstk documents that such points are merged into the earlier one, so the centre line with or
// without vertex i is admissible.  Vertices exactly the tolerance apart, or further, must survive.
struct MPath { std::vector<char> optional; int layer = 0, type = 0; Props props; Poly pts; int64_t width = 0; bool scale_width = true; int end = 0; int64_t ext0 = 0, ext1 = 0; bool collinear_ok = false; };
struct MLabel { int layer = 0, type = 0; Props props; std::string text; P pos{0, 0}; int anchor = 0; double rot = 0, mag = 1; bool refl = false; };
struct MRef {
    std::string target; Props props; double rot = 0, mag = 1; bool refl = false;
    int64_t qx = 0, qy = 0;  // position in 1/1000 grid steps
    // (source model only) a coordinate this position derives from is exactly half a grid step: whether
    // origin, origin + offset and origin + n*v round up or down is then decided by floating-point noise of
    // the evaluation order, so the neighbouring grid value is admissible too
    bool tie = false;
};
struct MRefGroup { std::vector<MRef> a, s; bool alt = false; };  // one source reference: AREF form / one-SREF-per-offset form
struct MCell {
    std::string name;
    std::vector<MPoly> polys;
    std::vector<MPath> paths;
    std::vector<MLabel> labels;
    std::vector<MRefGroup> refs;
};
struct MLib {
    double unit = 0, precision = 0;
    std::string name;
    std::map<std::string, MCell> cells;
    std::vector<std::string> duplicate_cells;
};
struct Ctx {
    double unit = 0, precision = 0, S = 0;
    uint64_t max_points = 0;
    int64_t tie_sensitive = 0;   // coordinates whose rounding differs between double and long-double evaluation
    int64_t exact_ties = 0;      // coordinates that are exactly half a grid step in double evaluation
    int64_t off_grid = 0;        // loaded coordinates further than 1e-3 grid steps from the grid
    int64_t out_of_range = 0;    // expected coordinates that do not fit 32 bits (outside the quantifier)
    bool saw_tie = false;        // set by src_grid whenever a coordinate is within 1e-9 of half a grid step
    std::vector<std::string> problems;  // inputs the model does not cover (corpus bug, not a violation)
};

// ---------------------------------------------------------------- rounding (own code, no lround)
inline int64_t round_half_away(double v) {
    double a = fabs(v), f = floor(a);
    int64_t k = (int64_t)f + ((a - f) >= 0.5 ? 1 : 0);
    return v < 0 ? -k : k;
}
inline int64_t round_half_away_l(long double v) {
    long double a = fabsl(v), f = floorl(a);
    int64_t k = (int64_t)f + ((a - f) >= 0.5L ? 1 : 0);
    return v < 0 ? -k : k;
}
// source coordinate -> grid.  The documented rule is lround(coord * (unit / precision)) in double.
inline int64_t src_grid(double c, Ctx& ctx) {
    double v = c * ctx.S;
    int64_t k = round_half_away(v);
    if (fabs(v) - floor(fabs(v)) == 0.5) ctx.exact_ties++;
    if (fabs((fabs(v) - floor(fabs(v))) - 0.5) < 1e-9) ctx.saw_tie = true;
    long double vl = (long double)c * ((long double)ctx.unit / (long double)ctx.precision);
    if (round_half_away_l(vl) != k) ctx.tie_sensitive++;
    if (k > 2147483647LL || k < -2147483648LL) ctx.out_of_range++;
    return k;
}
// loaded coordinate -> grid: must already be (numerically) on the grid
inline int64_t load_grid(double c, Ctx& ctx) {
    double v = c * ctx.S;
    int64_t k = round_half_away(v);
    if (fabs(v - (double)k) > 1e-3) ctx.off_grid++;
    return k;
}

// ---------------------------------------------------------------- properties
inline Props props_of(const Property* p) {
    Props out;
    for (; p; p = p->next) {
        if (!p->name || strcmp(p->name, "S_GDS_PROPERTY") != 0) continue;
        const PropertyValue* a = p->value;
        if (!a || a->type != PropertyType::UnsignedInteger || !a->next || a->next->type != PropertyType::String) continue;
        const PropertyValue* v = a->next;
        std::string s;
        for (uint64_t i = 0; i < v->count && v->bytes[i]; i++) s += (char)v->bytes[i];
        out.push_back({(int)a->unsigned_integer, s});
    }
    std::sort(out.begin(), out.end());
    return out;
}
inline std::string props_str(const Props& p) {
    std::string s = "{";
    for (auto& kv : p) s += fmt("%d:'%s' ", kv.first, kv.second.c_str());
    return s + "}";
}

// ---------------------------------------------------------------- model of a library
template <class GridFn>
void add_polygon(const Polygon& p, MCell& c, Ctx& ctx, GridFn grid, bool source) {
    if (p.point_array.count < 3 && source) return;  // Polygon::to_gds documents nothing for these; not in the corpus
    for (auto& o : dump::own_offsets(p.repetition)) {
        MPoly m;
        m.layer = (int)get_layer(p.tag);
        m.type = (int)get_type(p.tag);
        m.props = props_of(p.properties);
        for (uint64_t i = 0; i < p.point_array.count; i++) m.pts.push_back(P{grid(o.x + p.point_array[i].x, ctx), grid(o.y + p.point_array[i].y, ctx)});
        m.big = source && ctx.max_points > 4 && p.point_array.count > ctx.max_points;
        c.polys.push_back(m);
    }
}
// Corners of the polyline that runs parallel to `pts` at signed distance `o` to the left of the direction
// of travel (own long-double arithmetic): end points are shifted along the normal of their segment, interior
// corners are the intersections of consecutive shifted lines.  This is the centre line of a path element
// with a constant offset from the spine.
typedef std::pair<long double, long double> LP;
inline std::vector<LP> offset_polyline(const std::vector<LP>& pts, long double o) {
    size_t m = pts.size();
    if (o == 0 || m < 2) return pts;
    std::vector<LP> a(m - 1), d(m - 1), out;
    for (size_t k = 0; k + 1 < m; k++) {
        long double dx = pts[k + 1].first - pts[k].first, dy = pts[k + 1].second - pts[k].second, len = hypotl(dx, dy);
        d[k] = {dx, dy};
        a[k] = {pts[k].first - o * dy / len, pts[k].second + o * dx / len};
    }
    out.push_back(a[0]);
    for (size_t k = 1; k + 1 < m; k++) {
        long double cr = d[k - 1].first * d[k].second - d[k - 1].second * d[k].first;
        if (fabsl(cr) < 1e-18L) { out.push_back({a[k].first, a[k].second}); continue; }
        long double t = ((a[k].first - a[k - 1].first) * d[k].second - (a[k].second - a[k - 1].second) * d[k].first) / cr;
        out.push_back({a[k - 1].first + t * d[k - 1].first, a[k - 1].second + t * d[k - 1].second});
    }
    out.push_back({a[m - 2].first + d[m - 2].first, a[m - 2].second + d[m - 2].second});
    return out;
}
inline int end_code(EndType e) { return e == EndType::Flush ? 0 : e == EndType::Round ? 1 : e == EndType::HalfWidth ? 2 : e == EndType::Extended ? 4 : 99; }

template <class GridFn>
void add_cell(const Cell& cell, MLib& lib, Ctx& ctx, GridFn grid, bool source) {
    MCell c;
    c.name = cell.name ? cell.name : "";
    for (uint64_t i = 0; i < cell.polygon_array.count; i++) add_polygon(*cell.polygon_array[i], c, ctx, grid, source);
    for (uint64_t i = 0; i < cell.flexpath_array.count; i++) {
        const FlexPath& fp = *cell.flexpath_array[i];
        if (!fp.simple_path) {
            FlexPath cp = {};
            cp.copy_from(fp);
            Array<Polygon*> out = {};
            cp.to_polygons(false, 0, out);
            for (uint64_t k = 0; k < out.count; k++) { add_polygon(*out[k], c, ctx, grid, source); out[k]->clear(); free_allocation(out[k]); }
            out.clear();
            cp.clear();
            continue;
        }
        for (uint64_t ne = 0; ne < fp.num_elements; ne++) {
            const FlexPathElement& el = fp.elements[ne];
            double eo = el.half_width_and_offset.count ? el.half_width_and_offset[0].y : 0;
            for (uint64_t k = 0; k < el.half_width_and_offset.count; k++)
                if (el.half_width_and_offset[k].y != eo) { ctx.problems.push_back("simple flexpath with a varying element offset is outside the model"); break; }
            std::vector<LP> centre;
            for (uint64_t k = 0; k < fp.spine.point_array.count; k++) centre.push_back({fp.spine.point_array[k].x, fp.spine.point_array[k].y});
            centre = offset_polyline(centre, eo);
            std::vector<char> optional;
            if (source && eo == 0) {
                bool any = false;
                optional.assign(centre.size(), 0);
                for (size_t k = 1; k < centre.size(); k++) {
                    long double dx = centre[k].first - centre[k - 1].first, dy = centre[k].second - centre[k - 1].second;
                    if (dx * dx + dy * dy < (long double)fp.spine.tolerance * fp.spine.tolerance) { optional[k] = 1; any = true; }
                }
                if (!any) optional.clear();
            }
            for (auto& o : dump::own_offsets(fp.repetition)) {
                MPath m;
                m.layer = (int)get_layer(el.tag);
                m.type = (int)get_type(el.tag);
                m.props = props_of(fp.properties);
                for (auto& c : centre) m.pts.push_back(P{grid((double)c.first + o.x, ctx), grid((double)c.second + o.y, ctx)});
                m.optional = optional;
                m.width = el.half_width_and_offset.count ? grid(2 * el.half_width_and_offset[0].x, ctx) : 0;
                m.scale_width = fp.scale_width;
                m.end = end_code(el.end_type);
                if (m.end == 4) { m.ext0 = grid(el.end_extensions.x, ctx); m.ext1 = grid(el.end_extensions.y, ctx); }
                c.paths.push_back(m);
            }
        }
    }
    for (uint64_t i = 0; i < cell.robustpath_array.count; i++) {
        const RobustPath& rp = *cell.robustpath_array[i];
        if (!rp.simple_path) {
            RobustPath cp = {};
            cp.copy_from(rp);
            Array<Polygon*> out = {};
            cp.to_polygons(false, 0, out);
            for (uint64_t k = 0; k < out.count; k++) { add_polygon(*out[k], c, ctx, grid, source); out[k]->clear(); free_allocation(out[k]); }
            out.clear();
            cp.clear();
            continue;
        }
        for (uint64_t ne = 0; ne < rp.num_elements; ne++) {
            const RobustPathElement& el = rp.elements[ne];
            bool ok = rp.subpath_array.count > 0 && el.width_array.count > 0 && el.width_array[0].type == InterpolationType::Constant;
            for (uint64_t k = 0; k < rp.subpath_array.count && ok; k++)
                ok = rp.subpath_array[k].type == SubPathType::Segment && el.offset_array[k].type == InterpolationType::Constant && el.offset_array[k].value == el.offset_array[0].value;
            if (!ok) { ctx.problems.push_back("simple robustpath with curves/varying offsets/variable width is outside the model"); continue; }
            // spine corners through the path's own 2x3 matrix, then the element's offset (scaled by offset_scale,
            // whose sign carries reflections) to the left of the transformed direction of travel
            auto T = [&](Vec2 v) { return LP{(long double)v.x * rp.trafo[0] + (long double)v.y * rp.trafo[1] + rp.trafo[2], (long double)v.x * rp.trafo[3] + (long double)v.y * rp.trafo[4] + rp.trafo[5]}; };
            std::vector<LP> centre;
            centre.push_back(T(rp.subpath_array[0].begin));
            for (uint64_t k = 0; k < rp.subpath_array.count; k++) centre.push_back(T(rp.subpath_array[k].end));
            centre = offset_polyline(centre, (long double)el.offset_array[0].value * rp.offset_scale);
            for (auto& o : dump::own_offsets(rp.repetition)) {
                MPath m;
                m.layer = (int)get_layer(el.tag);
                m.type = (int)get_type(el.tag);
                m.props = props_of(rp.properties);
                m.collinear_ok = true;  // the centre line is a union of straight segments; gdstk samples extra collinear points
                for (auto& c : centre) m.pts.push_back(P{grid((double)c.first + o.x, ctx), grid((double)c.second + o.y, ctx)});
                m.width = grid(el.width_array[0].value * rp.width_scale, ctx);
                m.scale_width = rp.scale_width;
                m.end = end_code(el.end_type);
                if (m.end == 4) { m.ext0 = grid(el.end_extensions.x, ctx); m.ext1 = grid(el.end_extensions.y, ctx); }
                c.paths.push_back(m);
            }
        }
    }
    for (uint64_t i = 0; i < cell.label_array.count; i++) {
        const Label& l = *cell.label_array[i];
        for (auto& o : dump::own_offsets(l.repetition)) {
            MLabel m;
            m.layer = (int)get_layer(l.tag);
            m.type = (int)get_type(l.tag);
            m.props = props_of(l.properties);
            m.text = l.text ? l.text : "";
            m.pos = P{grid(l.origin.x + o.x, ctx), grid(l.origin.y + o.y, ctx)};
            m.anchor = (int)l.anchor;
            m.rot = l.rotation;
            m.mag = l.magnification;
            m.refl = l.x_reflection;
            c.labels.push_back(m);
        }
    }
    for (uint64_t i = 0; i < cell.reference_array.count; i++) {
        const Reference& r = *cell.reference_array[i];
        MRef base;
        base.target = r.type == ReferenceType::Cell ? (r.cell && r.cell->name ? r.cell->name : "") : r.type == ReferenceType::RawCell ? r.rawcell->name : (r.name ? r.name : "");
        base.props = props_of(r.properties);
        base.rot = r.rotation;
        base.mag = r.magnification;
        base.refl = r.x_reflection;
        MRefGroup g;
        const Repetition& rep = r.repetition;
        if (source) {
            // form S: one placement per offset, each rounded on its own
            for (auto& o : dump::own_offsets(rep)) {
                MRef m = base;
                ctx.saw_tie = false;
                m.qx = 1000 * grid(r.origin.x + o.x, ctx);
                m.qy = 1000 * grid(r.origin.y + o.y, ctx);
                m.tie = ctx.saw_tie;
                g.s.push_back(m);
            }
            // form A (lattices only): GDSII stores the origin and the two far corners origin + n*v, each rounded
            if (rep.type == RepetitionType::Rectangular || rep.type == RepetitionType::Regular) {
                Vec2 v1 = rep.type == RepetitionType::Rectangular ? Vec2{rep.spacing.x, 0} : rep.v1;
                Vec2 v2 = rep.type == RepetitionType::Rectangular ? Vec2{0, rep.spacing.y} : rep.v2;
                ctx.saw_tie = false;
                long double ox = grid(r.origin.x, ctx), oy = grid(r.origin.y, ctx);
                long double ax = grid(r.origin.x + rep.columns * v1.x, ctx), ay = grid(r.origin.y + rep.columns * v1.y, ctx);
                long double bx = grid(r.origin.x + rep.rows * v2.x, ctx), by = grid(r.origin.y + rep.rows * v2.y, ctx);
                for (uint64_t a = 0; a < rep.columns; a++)
                    for (uint64_t b = 0; b < rep.rows; b++) {
                        MRef m = base;
                        m.tie = ctx.saw_tie;
                        m.qx = (int64_t)llroundl(1000 * (ox + a * (ax - ox) / rep.columns + b * (bx - ox) / rep.rows));
                        m.qy = (int64_t)llroundl(1000 * (oy + a * (ay - oy) / rep.columns + b * (by - oy) / rep.rows));
                        g.a.push_back(m);
                    }
                auto key = [](const MRef& m) { return std::make_pair(m.qx, m.qy); };
                std::vector<std::pair<int64_t, int64_t>> ka, ks;
                for (auto& m : g.a) ka.push_back(key(m));
                for (auto& m : g.s) ks.push_back(key(m));
                std::sort(ka.begin(), ka.end());
                std::sort(ks.begin(), ks.end());
                g.alt = ka != ks;
            }
            if (!g.alt) g.a = g.s;
        } else {
            for (auto& o : dump::own_offsets(rep)) {
                MRef m = base;
                long double x = ((long double)r.origin.x + o.x) * ctx.S, y = ((long double)r.origin.y + o.y) * ctx.S;
                m.qx = (int64_t)llroundl(1000 * x);
                m.qy = (int64_t)llroundl(1000 * y);
                g.a.push_back(m);
            }
            g.s = g.a;
        }
        c.refs.push_back(g);
    }
    if (lib.cells.count(c.name)) lib.duplicate_cells.push_back(c.name);
    lib.cells[c.name] = c;
}
inline MLib model_of(const Library& l, Ctx& ctx, bool source) {
    MLib m;
    m.unit = l.unit;
    m.precision = l.precision;
    m.name = l.name ? l.name : "";
    ctx.unit = l.unit;
    ctx.precision = l.precision;
    ctx.S = l.unit / l.precision;
    for (uint64_t i = 0; i < l.cell_array.count; i++) {
        if (source) add_cell(*l.cell_array[i], m, ctx, src_grid, true);
        else add_cell(*l.cell_array[i], m, ctx, load_grid, false);
    }
    return m;
}

// ---------------------------------------------------------------- printing (replay / details)
inline std::string pts_str(const Poly& p, size_t lim = 12) {
    std::string s;
    for (size_t i = 0; i < p.size() && i < lim; i++) s += fmt("(%lld,%lld)", (long long)p[i].x, (long long)p[i].y);
    if (p.size() > lim) s += fmt("...[%zu]", p.size());
    return s;
}
inline std::string str(const MPoly& m) { return fmt("polygon %d/%d %s%s ", m.layer, m.type, props_str(m.props).c_str(), m.big ? " (to be fractured)" : "") + pts_str(m.pts); }
inline std::string str(const MPath& m) { return fmt("path %d/%d %s width=%lld%s pathtype=%d ext=(%lld,%lld) ", m.layer, m.type, props_str(m.props).c_str(), (long long)m.width, m.scale_width ? "" : " (absolute)", m.end, (long long)m.ext0, (long long)m.ext1) + pts_str(m.pts); }
inline std::string str(const MLabel& m) { return fmt("label %d/%d %s '%s' at (%lld,%lld) anchor=%d rot=%.17g mag=%.17g refl=%d", m.layer, m.type, props_str(m.props).c_str(), m.text.c_str(), (long long)m.pos.x, (long long)m.pos.y, m.anchor, m.rot, m.mag, (int)m.refl); }
inline std::string str(const MRef& m) { return fmt("ref ->'%s' %s at (%.3f,%.3f) rot=%.17g mag=%.17g refl=%d", m.target.c_str(), props_str(m.props).c_str(), m.qx / 1000.0, m.qy / 1000.0, m.rot, m.mag, (int)m.refl); }
inline std::string str(const MLib& l) {
    std::string s = fmt("library '%s' unit=%.17g precision=%.17g\n", l.name.c_str(), l.unit, l.precision);
    for (auto& kv : l.cells) {
        s += " cell '" + kv.first + "'\n";
        for (auto& x : kv.second.polys) s += "  " + str(x) + "\n";
        for (auto& x : kv.second.paths) s += "  " + str(x) + "\n";
        for (auto& x : kv.second.labels) s += "  " + str(x) + "\n";
        for (auto& g : kv.second.refs) {
            for (auto& x : g.a) s += "  " + str(x) + "\n";
            if (g.alt) for (auto& x : g.s) s += "  (or, as single references) " + str(x) + "\n";
        }
    }
    return s;
}

// ---------------------------------------------------------------- comparison primitives
inline bool ulp_close(double a, double b, int ulps) {
    if (a == b) return true;
    if (!(a == a) || !(b == b)) return false;
    double u = nextafter(fabs(a), INFINITY) - fabs(a);
    return fabs(a - b) <= ulps * u;
}
inline bool angle_close(double a, double b) {
    double d = fmod(a - b, 2 * M_PI);
    if (d > M_PI) d -= 2 * M_PI;
    if (d < -M_PI) d += 2 * M_PI;
    return fabs(d) <= 1e-12;
}
inline bool real_close(double a, double b) { return fabs(a - b) <= 1e-12 * std::max(1.0, fabs(a)); }
// canonical rotation of a vertex cycle (orientation kept)
inline Poly canon_cycle(const Poly& p) {
    size_t n = p.size();
    if (n == 0) return p;
    Poly best;
    P mn = p[0];
    for (size_t k = 1; k < n; k++) if (p[k] < mn) mn = p[k];
    for (size_t s = 0; s < n; s++) {
        if (p[s] != mn) continue;
        Poly r(n);
        for (size_t k = 0; k < n; k++) r[k] = p[(s + k) % n];
        if (best.empty() || std::lexicographical_compare(r.begin(), r.end(), best.begin(), best.end())) best = r;
    }
    return best;
}
// drop interior points that lie on the straight segment between their neighbours (same direction)
inline Poly drop_collinear(const Poly& p) {
    Poly r;
    for (size_t i = 0; i < p.size(); i++) {
        if (!r.empty() && r.back() == p[i]) continue;
        while (r.size() >= 2) {
            P a = r[r.size() - 2], b = r.back();
            if (eg::cross(a, b, p[i]) == 0 && eg::dot(b, a, p[i]) < 0) r.pop_back();
            else break;
        }
        r.push_back(p[i]);
    }
    return r;
}

// Centre line of a simple RobustPath: the source holds straight segments (corner points `corners`, on the
// grid after rounding); gdstk samples additional points along each segment and each of them is rounded to
// the grid on its own.  `pts` follows the polyline iff it starts and ends at the first/last corner, passes
// through every corner in order, and between two corners stays within 1.5 grid steps of the segment
// (0.71 for the rounding of the sample + 0.71 for the rounding of the corners) while advancing monotonically.
inline bool follows_polyline(const Poly& corners, const Poly& pts) {
    if (corners.size() < 2 || pts.size() < 2 || pts[0] != corners[0] || pts.back() != corners.back()) return false;
    size_t j = 0;
    for (size_t k = 0; k + 1 < corners.size(); k++) {
        P a = corners[k], b = corners[k + 1];
        i128 last = 0;
        size_t i = j + 1;
        for (;; i++) {
            if (i >= pts.size()) return false;
            if (pts[i] == b) break;
            if (eg::dist_seg(a, b, pts[i]) > 1.5L) return false;
            i128 t = eg::dot(a, b, pts[i]);
            if (t < last) return false;
            last = t;
        }
        j = i;
    }
    return j + 1 == pts.size();
}

struct Diff { std::string cls, detail; };

inline std::vector<std::string> attrs(const MPoly& e, const MPoly& g) {
    std::vector<std::string> d;
    if (e.layer != g.layer || e.type != g.type) d.push_back("tag");
    if (e.props != g.props) d.push_back("properties");
    if (canon_cycle(e.pts) != canon_cycle(g.pts)) d.push_back(e.pts.size() != g.pts.size() ? "vertex_count" : "vertices");
    return d;
}
inline std::vector<std::string> attrs(const MPath& e, const MPath& g) {
    std::vector<std::string> d;
    if (e.layer != g.layer || e.type != g.type) d.push_back("tag");
    if (e.props != g.props) d.push_back("properties");
    // a repeated vertex does not change the centre line (gdstk drops coincident spine points when it saves)
    auto dedup = [](const Poly& p) { Poly r; for (auto& v : p) if (r.empty() || r.back() != v) r.push_back(v); return r; };
    Poly ep = dedup(e.pts), gp = dedup(g.pts);
    bool same = ep == gp || (e.collinear_ok && follows_polyline(ep, gp));
    if (!same && !e.optional.empty() && e.optional.size() == e.pts.size()) {
        std::vector<size_t> idx;
        for (size_t k = 0; k < e.optional.size(); k++) if (e.optional[k]) idx.push_back(k);
        for (uint64_t mask = 1; mask < (1ull << std::min<size_t>(idx.size(), 8)) && !same; mask++) {
            Poly r;
            for (size_t k = 0; k < e.pts.size(); k++) {
                bool drop = false;
                for (size_t b = 0; b < idx.size() && b < 8; b++) if (idx[b] == k && (mask >> b & 1)) drop = true;
                if (!drop) r.push_back(e.pts[k]);
            }
            same = dedup(r) == gp;
        }
    }
    if (!same) d.push_back("centre_line");
    if (e.width != g.width) d.push_back("width");
    if (e.scale_width != g.scale_width) d.push_back("scale_width");
    if (e.end != g.end) d.push_back("end_style");
    if (e.end == 4 && g.end == 4 && (e.ext0 != g.ext0 || e.ext1 != g.ext1)) d.push_back("extensions");
    return d;
}
inline std::vector<std::string> attrs(const MLabel& e, const MLabel& g) {
    std::vector<std::string> d;
    if (e.layer != g.layer || e.type != g.type) d.push_back("tag");
    if (e.props != g.props) d.push_back("properties");
    if (e.text != g.text) d.push_back("text");
    if (e.pos != g.pos) d.push_back("position");
    if (e.anchor != g.anchor) d.push_back("anchor");
    if (!angle_close(e.rot, g.rot)) d.push_back("rotation");
    if (!real_close(e.mag, g.mag)) d.push_back("magnification");
    if (e.refl != g.refl) d.push_back("reflection");
    return d;
}
inline std::vector<std::string> attrs(const MRef& e, const MRef& g) {
    std::vector<std::string> d;
    if (e.target != g.target) d.push_back("target");
    if (e.props != g.props) d.push_back("properties");
    const int64_t tol = (e.tie || g.tie) ? 1001 : 1;
    if (llabs(e.qx - g.qx) > tol || llabs(e.qy - g.qy) > tol) d.push_back("position");
    if (!angle_close(e.rot, g.rot)) d.push_back("rotation");
    if (!real_close(e.mag, g.mag)) d.push_back("magnification");
    if (e.refl != g.refl) d.push_back("reflection");
    return d;
}
inline std::string join(const std::vector<std::string>& v) {
    std::string s;
    for (size_t i = 0; i < v.size(); i++) s += (i ? "+" : "") + v[i];
    return s;
}
// exact matching first; then every unmatched expected element is paired with the closest unmatched
// loaded element of the same kind and the differing attributes are named.  `used` marks loaded
// elements that found their partner.
template <class T>
void match(const std::vector<T>& exp, const std::vector<T>& got, const char* kind, const std::string& where, std::vector<Diff>& out, std::vector<char>* used_out = NULL, const std::vector<char>* skip_exp = NULL) {
    std::vector<char> used(got.size(), 0), done(exp.size(), 0);
    for (size_t i = 0; i < exp.size(); i++) {
        if (skip_exp && (*skip_exp)[i]) { done[i] = 1; continue; }
        for (size_t j = 0; j < got.size(); j++)
            if (!used[j] && attrs(exp[i], got[j]).empty()) { used[j] = done[i] = 1; break; }
    }
    if (used_out) { *used_out = used; }
    for (size_t i = 0; i < exp.size(); i++) {
        if (done[i]) continue;
        size_t best = got.size(), bestn = 99;
        for (size_t j = 0; j < got.size(); j++) {
            if (used[j]) continue;
            size_t n = attrs(exp[i], got[j]).size();
            if (n < bestn) { bestn = n; best = j; }
        }
        if (best == got.size()) out.push_back({std::string(kind) + ":missing", where + ": expected " + str(exp[i]) + " but no such element was loaded"});
        else {
            used[best] = 1;
            if (used_out) (*used_out)[best] = 1;
            out.push_back({std::string(kind) + ":" + join(attrs(exp[i], got[best])), where + ": expected " + str(exp[i]) + " | loaded " + str(got[best])});
        }
    }
    if (!used_out)
        for (size_t j = 0; j < got.size(); j++)
            if (!used[j]) out.push_back({std::string(kind) + ":extra", where + ": loaded " + str(got[j]) + " has no counterpart"});
}

// ---------------------------------------------------------------- region equality (fractured polygons)
// 0 outside, 1 inside (non-zero winding), 2 on the boundary
inline int classify(const Poly& p, P q) {
    int w = 0;
    size_t n = p.size();
    for (size_t i = 0; i < n; i++) {
        P a = p[i], b = p[i + 1 == n ? 0 : i + 1];
        int64_t lox = std::min(a.x, b.x), hix = std::max(a.x, b.x), loy = std::min(a.y, b.y), hiy = std::max(a.y, b.y);
        if (q.y < loy || q.y > hiy) continue;
        if (q.x > hix) continue;  // the edge is entirely to the left: neither on it nor crossed by the rightward ray
        if (q.x >= lox) {
            i128 cr = eg::cross(a, b, q);
            if (cr == 0) return 2;
            if (a.y <= q.y) { if (b.y > q.y && cr > 0) w++; }
            else if (b.y <= q.y && cr < 0) w--;
        } else {  // edge strictly to the right of q
            if (a.y <= q.y) { if (b.y > q.y) w++; }
            else if (b.y <= q.y) w--;
        }
    }
    return w != 0 ? 1 : 0;
}
// A polygon with a bucket index over the longer axis of its bounding box: classify()/near() only visit the
// edges whose extent along that axis contains the query (the same exact per-edge predicates as above).
struct IPoly {
    Poly p;
    bool swapped = false;
    int64_t lx = 0, ly = 0, hx = 0, hy = 0, bh = 1;
    std::vector<std::vector<uint32_t>> buckets;
    explicit IPoly(const Poly& src) : p(src) {
        lx = ly = INT64_MAX; hx = hy = INT64_MIN;
        for (auto& v : p) { lx = std::min(lx, v.x); hx = std::max(hx, v.x); ly = std::min(ly, v.y); hy = std::max(hy, v.y); }
        if (p.empty()) { lx = ly = 0; hx = hy = -1; return; }
        if (hx - lx > hy - ly) { swapped = true; for (auto& v : p) std::swap(v.x, v.y); std::swap(lx, ly); std::swap(hx, hy); }
        size_t n = p.size(), nb = n < 64 ? 1 : std::min<size_t>(n / 4, 4096);
        bh = std::max<int64_t>(1, (hy - ly + (int64_t)nb) / (int64_t)nb);
        buckets.resize(nb);
        for (size_t i = 0; i < n; i++) {
            P a = p[i], b = p[i + 1 == n ? 0 : i + 1];
            size_t b0 = (size_t)((std::min(a.y, b.y) - ly) / bh), b1 = (size_t)((std::max(a.y, b.y) - ly) / bh);
            for (size_t k = b0; k <= b1 && k < nb; k++) buckets[k].push_back((uint32_t)i);
        }
    }
    P tr(P q) const { return swapped ? P{q.y, q.x} : q; }
    int classify(P q0) const {
        P q = tr(q0);
        if (q.x < lx || q.x > hx || q.y < ly || q.y > hy) return 0;
        const std::vector<uint32_t>& es = buckets[std::min<size_t>((size_t)((q.y - ly) / bh), buckets.size() - 1)];
        int w = 0;
        size_t n = p.size();
        for (uint32_t i : es) {
            P a = p[i], b = p[i + 1 == n ? 0 : i + 1];
            int64_t lox = std::min(a.x, b.x), hix = std::max(a.x, b.x), loy = std::min(a.y, b.y), hiy = std::max(a.y, b.y);
            if (q.y < loy || q.y > hiy || q.x > hix) continue;
            if (q.x >= lox) {
                i128 cr = eg::cross(a, b, q);
                if (cr == 0) return 2;
                if (a.y <= q.y) { if (b.y > q.y && cr > 0) w++; }
                else if (b.y <= q.y && cr < 0) w--;
            } else {
                if (a.y <= q.y) { if (b.y > q.y) w++; }
                else if (b.y <= q.y) w--;
            }
        }
        return w != 0 ? 1 : 0;
    }
    bool near(P q0, int64_t guard) const {
        P q = tr(q0);
        if (q.x < lx - guard || q.x > hx + guard || q.y < ly - guard || q.y > hy + guard) return false;
        size_t nb = buckets.size(), n = p.size();
        size_t b0 = (size_t)(std::max<int64_t>(q.y - guard - ly, 0) / bh), b1 = std::min<size_t>((size_t)(std::max<int64_t>(q.y + guard - ly, 0) / bh), nb - 1);
        for (size_t k = std::min(b0, nb - 1); k <= b1; k++)
            for (uint32_t i : buckets[k]) {
                P a = p[i], b = p[i + 1 == n ? 0 : i + 1];
                if (q.x < std::min(a.x, b.x) - guard || q.x > std::max(a.x, b.x) + guard || q.y < std::min(a.y, b.y) - guard || q.y > std::max(a.y, b.y) + guard) continue;
                if (eg::dist_seg(a, b, q) <= (long double)guard) return true;
            }
        return false;
    }
};
struct Region {
    std::vector<IPoly> v;
    explicit Region(const std::vector<Poly>& g, int64_t scale = 1) {
        for (auto& p : g) {
            if (scale == 1) v.emplace_back(p);
            else { Poly q = p; for (auto& t : q) { t.x *= scale; t.y *= scale; } v.emplace_back(q); }
        }
    }
    int classify(P q) const {
        int r = 0;
        for (auto& p : v) {
            int c = p.classify(q);
            if (c == 2) return 2;
            if (c == 1) r = 1;
        }
        return r;
    }
    bool on_boundary(P q) const { for (auto& p : v) if (p.classify(q) == 2) return true; return false; }
    bool near(P q, int64_t guard) const { for (auto& p : v) if (p.near(q, guard)) return true; return false; }
};
inline i128 iabs(i128 v) { return v < 0 ? -v : v; }
struct RegionReport { bool ok = true; std::string why; int64_t samples = 0, skipped = 0, piece_probes = 0; bool exact = true; };
// expected: the original polygons on the grid; got: the loaded pieces on the grid.
inline RegionReport region_equal(const std::vector<Poly>& expected, const std::vector<Poly>& got) {
    RegionReport rep;
    if (got.empty()) { rep.ok = false; rep.why = "no pieces were loaded"; return rep; }
    int64_t lox = INT64_MAX, loy = INT64_MAX, hix = INT64_MIN, hiy = INT64_MIN;
    size_t nv = 0;
    for (auto* g : {&expected, &got})
        for (auto& p : *g)
            for (auto& v : p) { lox = std::min(lox, v.x); hix = std::max(hix, v.x); loy = std::min(loy, v.y); hiy = std::max(hiy, v.y); nv++; }
    // 1. exactness: is every piece vertex exactly on the boundary of an expected polygon?  If so no
    //    rounding happened and the identities below are checked without slack.
    i128 slack2 = 0;
    const Region E1(expected), G1(got);
    // The exactness test below looks at *any* polygon of the other side; that is only sound when different
    // originals cannot touch each other's pieces, i.e. when their bounding boxes are more than 2 grid steps apart.
    bool separated = true;
    {
        struct BB { int64_t lx, ly, hx, hy; };
        std::vector<BB> bb;
        for (auto& p : expected) {
            BB b{INT64_MAX, INT64_MAX, INT64_MIN, INT64_MIN};
            for (auto& v : p) { b.lx = std::min(b.lx, v.x); b.hx = std::max(b.hx, v.x); b.ly = std::min(b.ly, v.y); b.hy = std::max(b.hy, v.y); }
            bb.push_back(b);
        }
        for (size_t i = 0; i < bb.size() && separated; i++)
            for (size_t j = i + 1; j < bb.size(); j++)
                if (!(bb[i].hx + 2 < bb[j].lx || bb[j].hx + 2 < bb[i].lx || bb[i].hy + 2 < bb[j].ly || bb[j].hy + 2 < bb[i].ly)) { separated = false; break; }
    }
    // moving one vertex by at most one grid step changes twice the area by at most |d x (next - prev)|
    auto vertex_slack = [](const Poly& p, size_t i) {
        size_t n = p.size();
        P a = p[(i + n - 1) % n], b = p[(i + 1) % n];
        return (i128)2 * ((i128)llabs(b.x - a.x) + llabs(b.y - a.y)) + 2;
    };
    // A piece vertex that is exactly on an original boundary was not moved by rounding.  One that is further
    // than 1.5 grid steps from every original boundary is the crossing of two cut lines (or of a cut line
    // with an earlier cut): every piece sharing it rounds it identically and edges along an axis-parallel cut
    // stay on the rounded cut line, so it does not change the *sum* of the piece areas.  Only vertices near,
    // but not on, an original boundary (cut x slanted original edge, rounded) contribute slack.
    for (auto& p : got)
        for (size_t i = 0; i < p.size(); i++) {
            bool on = E1.on_boundary(p[i]);
            if (on && separated) continue;
            if (separated && !E1.near(p[i], 2)) continue;
            rep.exact = false;
            slack2 += vertex_slack(p, i);
        }
    // ... and an original vertex that no piece passes through was simplified away before rounding
    for (auto& e : expected)
        for (size_t i = 0; i < e.size(); i++) {
            bool on = G1.on_boundary(e[i]);
            if (!on || !separated) { rep.exact = false; slack2 += vertex_slack(e, i); }
        }
    // 2. area identity: pieces of a simple polygon are interior-disjoint, so areas add up
    i128 ae = 0, ag = 0;
    for (auto& p : expected) ae += iabs(eg::area2(p));
    for (auto& p : got) ag += iabs(eg::area2(p));
    if (iabs(ae - ag) > slack2) {
        rep.ok = false;
        rep.why = fmt("area: twice the area of the originals is %.17Lg, of the loaded pieces %.17Lg, allowed rounding slack %.17Lg (%s)", (long double)ae, (long double)ag, (long double)slack2, rep.exact ? "every piece vertex is exactly on the original boundary and every original vertex on a piece boundary" : "some vertices were rounded off the other side's boundary");
        return rep;
    }
    // 3. membership at sample points (i + 1/3, j + 1/7) of the grid, in coordinates scaled by 21
    const Region e21(expected, 21), g21(got, 21);
    const int64_t guard = rep.exact ? 0 : 32;  // 1.5 grid steps
    int64_t W = hix - lox + 2, H = hiy - loy + 2;
    int64_t budget = std::max<int64_t>(256, std::min<int64_t>(4096, 50000000 / (int64_t)(got.size() + expected.size() + 1)));
    int64_t nx = std::min<int64_t>(W, 64), ny = std::min<int64_t>(H, 64);
    while (nx * ny > budget) { if (nx >= ny) nx = (nx + 1) / 2; else ny = (ny + 1) / 2; }
    for (int64_t a = 0; a < nx && rep.ok; a++)
        for (int64_t b = 0; b < ny; b++) {
            int64_t ci = lox - 1 + (int64_t)(((i128)(2 * a + 1) * W) / (2 * nx)), cj = loy - 1 + (int64_t)(((i128)(2 * b + 1) * H) / (2 * ny));
            P q{21 * ci + 7, 21 * cj + 3};
            int ce = e21.classify(q), cg = g21.classify(q);
            if (ce == 2 || cg == 2 || (guard && (e21.near(q, guard) || g21.near(q, guard)))) { rep.skipped++; continue; }
            rep.samples++;
            if (ce != cg) {
                rep.ok = false;
                rep.why = fmt("membership: the point (%lld+1/3, %lld+1/7) (grid steps) is %s the original polygons but %s the loaded pieces", (long long)ci, (long long)cj, ce ? "inside" : "outside", cg ? "inside" : "outside");
                break;
            }
        }
    if (!rep.ok) return rep;
    // 4. one interior probe per piece (centroid of a vertex triple that falls strictly inside the piece)
    for (size_t k = 0; k < got.size() && rep.ok; k++) {
        Poly p = got[k];
        for (auto& t : p) { t.x *= 21; t.y *= 21; }
        size_t n = p.size();
        for (size_t i = 0; i + 2 < n + 2 && n >= 3; i++) {
            P a = p[i % n], b = p[(i + 1) % n], c = p[(i + 2) % n];
            if (eg::cross(a, b, c) == 0) continue;
            // vertices are multiples of 21, so the centroid is an integer point in these coordinates; nudge it off lattice lines
            P q{(a.x + b.x + c.x) / 3 + 1, (a.y + b.y + c.y) / 3 + 2};
            if (classify(p, q) != 1) continue;
            if (guard && e21.near(q, guard)) { rep.skipped++; break; }
            int ce = e21.classify(q);
            if (ce == 2) { rep.skipped++; break; }
            rep.piece_probes++;
            if (ce != 1) {
                rep.ok = false;
                rep.why = fmt("membership: loaded piece %zu (%s) contains the point (%.3f,%.3f) which is outside every original polygon", k, pts_str(got[k], 8).c_str(), q.x / 21.0, q.y / 21.0);
            }
            break;
        }
    }
    return rep;
}

// ---------------------------------------------------------------- library comparison
struct CompareStats { int64_t region_checks = 0, region_exact = 0, region_samples = 0, region_skipped = 0, aref_alternatives = 0; };

inline void compare_polys(const MCell& e, const MCell& g, const std::string& where, uint64_t max_points, std::vector<Diff>& out, CompareStats& st) {
    std::vector<char> skip(e.polys.size(), 0), used;
    bool any_big = false;
    for (size_t i = 0; i < e.polys.size(); i++) if (e.polys[i].big) { skip[i] = 1; any_big = true; }
    if (!any_big) { match(e.polys, g.polys, "polygon", where, out); return; }
    match(e.polys, g.polys, "polygon", where, out, &used, &skip);
    // group the polygons that must have been fractured with the loaded polygons nobody claimed
    typedef std::tuple<int, int, Props> Key;
    std::map<Key, std::pair<std::vector<Poly>, std::vector<Poly>>> groups;
    for (size_t i = 0; i < e.polys.size(); i++)
        if (skip[i]) groups[Key(e.polys[i].layer, e.polys[i].type, e.polys[i].props)].first.push_back(e.polys[i].pts);
    for (size_t j = 0; j < g.polys.size(); j++) {
        if (used[j]) continue;
        Key k(g.polys[j].layer, g.polys[j].type, g.polys[j].props);
        if (!groups.count(k)) { out.push_back({"polygon:extra", where + ": loaded " + str(g.polys[j]) + " has no counterpart (no over-long polygon with this tag and these properties)"}); continue; }
        groups[k].second.push_back(g.polys[j].pts);
        if (g.polys[j].pts.size() > max_points) out.push_back({"fracture:piece_too_long", where + fmt(": loaded piece has %zu vertices, limit %llu: ", g.polys[j].pts.size(), (unsigned long long)max_points) + str(g.polys[j])});
    }
    for (auto& kv : groups) {
        RegionReport r = region_equal(kv.second.first, kv.second.second);
        st.region_checks++;
        st.region_exact += r.exact;
        st.region_samples += r.samples + r.piece_probes;
        st.region_skipped += r.skipped;
        if (!r.ok) out.push_back({"fracture:region", where + fmt(": %zu over-long polygon(s) tag %d/%d vs %zu loaded pieces: ", kv.second.first.size(), std::get<0>(kv.first), std::get<1>(kv.first), kv.second.second.size()) + r.why});
    }
}

inline void compare_refs(const MCell& e, const MCell& g, const std::string& where, std::vector<Diff>& out, CompareStats& st) {
    std::vector<MRef> got;
    for (auto& grp : g.refs) for (auto& m : grp.a) got.push_back(m);
    std::vector<size_t> alts;
    for (size_t i = 0; i < e.refs.size(); i++) if (e.refs[i].alt) alts.push_back(i);
    st.aref_alternatives += (int64_t)alts.size();
    std::vector<Diff> best;
    bool have = false;
    for (uint64_t mask = 0; mask < (1ull << std::min<size_t>(alts.size(), 10)); mask++) {
        std::vector<MRef> exp;
        for (size_t i = 0; i < e.refs.size(); i++) {
            bool use_s = false;
            for (size_t k = 0; k < alts.size() && k < 10; k++) if (alts[k] == i && (mask >> k & 1)) use_s = true;
            for (auto& m : (use_s ? e.refs[i].s : e.refs[i].a)) exp.push_back(m);
        }
        std::vector<Diff> d;
        match(exp, got, "reference", where, d);
        if (!have || d.size() < best.size()) { best = d; have = true; }
        if (d.empty()) break;
    }
    for (auto& d : best) out.push_back(d);
}

// fast path for the thousands of pieces of a fractured polygon: equal multisets of (tag, properties, canonical cycle)
inline std::string poly_key(const MPoly& m) {
    std::string k = fmt("%d/%d|", m.layer, m.type) + props_str(m.props) + "|";
    Poly c = canon_cycle(m.pts);
    k.append((const char*)c.data(), c.size() * sizeof(P));
    return k;
}
inline bool same_polygon_multiset(const std::vector<MPoly>& a, const std::vector<MPoly>& b) {
    if (a.size() != b.size()) return false;
    std::vector<std::string> ka, kb;
    for (auto& m : a) ka.push_back(poly_key(m));
    for (auto& m : b) kb.push_back(poly_key(m));
    std::sort(ka.begin(), ka.end());
    std::sort(kb.begin(), kb.end());
    return ka == kb;
}
// expected: model of the source (source == true) or of the first re-load; got: model of a re-load
inline std::vector<Diff> compare(const MLib& e, const MLib& g, bool source, uint64_t max_points, const std::string& stage, CompareStats& st) {
    std::vector<Diff> out;
    if (!ulp_close(e.unit, g.unit, 2)) out.push_back({"library:unit", fmt("%s: unit %.17g became %.17g", stage.c_str(), e.unit, g.unit)});
    if (!ulp_close(e.precision, g.precision, 2)) out.push_back({"library:precision", fmt("%s: precision %.17g became %.17g", stage.c_str(), e.precision, g.precision)});
    for (auto& n : g.duplicate_cells) out.push_back({"cell:duplicate", stage + ": cell '" + n + "' loaded twice"});
    for (auto& kv : e.cells)
        if (!g.cells.count(kv.first)) out.push_back({"cell:missing", stage + ": cell '" + kv.first + "' was not loaded"});
    for (auto& kv : g.cells)
        if (!e.cells.count(kv.first)) out.push_back({"cell:extra", stage + ": loaded cell '" + kv.first + "' does not exist in the original"});
    for (auto& kv : e.cells) {
        auto it = g.cells.find(kv.first);
        if (it == g.cells.end()) continue;
        std::string where = stage + ", cell '" + kv.first + "'";
        if (source) compare_polys(kv.second, it->second, where, max_points, out, st);
        else if (!same_polygon_multiset(kv.second.polys, it->second.polys)) match(kv.second.polys, it->second.polys, "polygon", where, out);
        match(kv.second.paths, it->second.paths, "path", where, out);
        match(kv.second.labels, it->second.labels, "label", where, out);
        compare_refs(kv.second, it->second, where, out, st);
    }
    return out;
}

// ---------------------------------------------------------------- GDSII record streams (byte comparison of saves)
struct Rec { int type = 0, dtype = 0; std::string data; };
inline bool split_records(const std::string& bytes, std::vector<Rec>& out) {
    size_t i = 0;
    while (i + 4 <= bytes.size()) {
        size_t n = ((unsigned char)bytes[i] << 8) | (unsigned char)bytes[i + 1];
        if (n < 4 || i + n > bytes.size()) return false;
        Rec r;
        r.type = (unsigned char)bytes[i + 2];
        r.dtype = (unsigned char)bytes[i + 3];
        r.data = bytes.substr(i + 4, n - 4);
        out.push_back(r);
        i += n;
    }
    return i == bytes.size();
}
// own decoder of the 8-byte excess-64 base-16 real (Appendix A.1)
inline long double real8(const std::string& d, size_t off) {
    if (off + 8 > d.size()) return NAN;
    unsigned char b0 = (unsigned char)d[off];
    uint64_t m = 0;
    for (int k = 1; k < 8; k++) m = (m << 8) | (unsigned char)d[off + k];
    long double v = ldexpl((long double)m, -56) * powl(16.0L, (int)(b0 & 0x7f) - 64);
    return (b0 & 0x80) ? -v : v;
}
// how do two saves differ?  "" identical; "property_order" only the order of PROPATTR/PROPVALUE pairs
// inside elements; "real8_ulp" only UNITS/MAG/ANGLE values within 1e-12 relative; otherwise a description.
inline std::string bytes_difference(const std::string& a, const std::string& b) {
    if (a == b) return "";
    std::vector<Rec> ra, rb;
    if (!split_records(a, ra) || !split_records(b, rb)) return "record framing of a written file is broken";
    auto canon = [](std::vector<Rec>& r) {  // sort (PROPATTR, PROPVALUE) pairs inside each element
        for (size_t i = 0; i < r.size();) {
            if (r[i].type != 0x2B) { i++; continue; }
            size_t j = i;
            std::vector<std::pair<std::string, std::string>> pairs;
            while (j + 1 < r.size() && r[j].type == 0x2B && r[j + 1].type == 0x2C) { pairs.push_back({r[j].data, r[j + 1].data}); j += 2; }
            std::sort(pairs.begin(), pairs.end());
            for (size_t k = 0; k < pairs.size(); k++) { r[i + 2 * k].data = pairs[k].first; r[i + 2 * k + 1].data = pairs[k].second; }
            i = j > i ? j : i + 1;
        }
    };
    bool order_only = true;
    {
        std::vector<Rec> ca = ra, cb = rb;
        canon(ca); canon(cb);
        if (ca.size() != cb.size()) order_only = false;
        for (size_t i = 0; order_only && i < ca.size(); i++) if (ca[i].type != cb[i].type || ca[i].dtype != cb[i].dtype || ca[i].data != cb[i].data) order_only = false;
    }
    if (order_only) return "property_order";
    std::vector<Rec> ca = ra, cb = rb;
    canon(ca); canon(cb);
    if (ca.size() != cb.size()) return fmt("different number of records (%zu vs %zu)", ca.size(), cb.size());
    bool real_only = true;
    std::string first;
    for (size_t i = 0; i < ca.size(); i++) {
        if (ca[i].type == cb[i].type && ca[i].dtype == cb[i].dtype && ca[i].data == cb[i].data) continue;
        bool close = false;
        if (ca[i].type == cb[i].type && ca[i].dtype == 5 && cb[i].dtype == 5 && ca[i].data.size() == cb[i].data.size()) {
            close = true;
            for (size_t o = 0; o + 8 <= ca[i].data.size(); o += 8) {
                long double x = real8(ca[i].data, o), y = real8(cb[i].data, o);
                if (!(fabsl(x - y) <= 1e-12L * std::max(fabsl(x), fabsl(y)))) close = false;
            }
        }
        if (!close) {
            real_only = false;
            if (first.empty()) first = fmt("record %zu: type 0x%02X/0x%02X, %zu/%zu data bytes", i, ca[i].type, cb[i].type, ca[i].data.size(), cb[i].data.size());
        }
    }
    if (real_only) return "real8_ulp";
    return "records differ, first at " + first;
}

}  // namespace c01
