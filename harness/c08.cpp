// C08 — RobustPath outlines follow their parametric spine, width and offset.
// E2: bounded exhaustive enumeration of section sequences x interpolation kinds x end types x
// tolerances x transform states, executed on the real RobustPath code and judged by an analytic
// oracle written here from the section formulas (own Bezier / arc / circle code, own affine maps).
// DESIGN.md section 2/C08.  Oracle code lives in c08_oracle.hpp.
#include <gdstk/gdstk.hpp>

#include <deque>
#include <memory>

#include "vf.hpp"
#include "c08_oracle.hpp"
#include "c08_long.hpp"

using namespace gdstk;
using namespace vf;
using namespace c08;

static Run* R;
static bool VERBOSE = false;
static bool PROFILE = false;
static int QUICK_TRIM = 0;  // quick tier: 2000 oracle samples per section, rims at every second of them
static inline void prof(const char* name, double t0) { if (PROFILE) R->count(name, (int64_t)((now() - t0) * 1e6)); }

// ------------------------------------------------------------------ alphabet
enum Kind { K_SEG, K_ARCC, K_ARCE, K_TURNL, K_TURNR, K_QUAD, K_CUBIC, K_QSM, K_CSM, K_BEZ, K_INTERP, K_PARG, K_PARN, K_ARCER, K_ARCCR, NKINDS };
static const char* KNAME[] = {"segment", "arc_circular", "arc_elliptical", "turn+90", "turn-90", "quadratic", "cubic", "quadratic_smooth", "cubic_smooth", "bezier4", "interpolation2", "parametric+grad", "parametric_nograd", "arc_elliptical_rot_pi/6", "arc_circular_rot0.7"};
static bool forced_smooth(int k) { return k == K_TURNL || k == K_TURNR || k == K_QSM || k == K_CSM; }
static bool curved(int k) { return k != K_SEG; }
static const double JOINT[] = {0.0, M_PI / 4, -M_PI / 2};
static const char* JNAME[] = {"tangent", "+45deg", "-90deg"};
static const char* WNAME[] = {"constant", "linear", "smooth", "parametric"};
static const char* ONAME[] = {"constant0", "constant1.5", "linear0-1", "smooth0-1"};
static const char* ENAME[] = {"flush", "halfwidth", "extended", "round"};
static const EndType ETYPE[] = {EndType::Flush, EndType::HalfWidth, EndType::Extended, EndType::Round};
static const double TOLS[] = {1e-2, 1e-3};
static const char* TNAME[] = {"identity", "rotate0.6", "mirror", "scale2", "transform(1.5,xrefl,0.6,(1,2))"};
static const int NTR = 5;
static const double EXT_U = 1.0, EXT_V = 0.5;  // Extended end: (start, end) extensions
static const uint64_t MAX_EVALS = 1000;
static int NS = 4000;                           // oracle samples per section (quick tier: 2000)

struct Step { int kind, joint; };
struct Case {
    std::vector<Step> seq;
    int wk = 0, ok = 0, nel = 1, end = 0, tol = 0, tr = 0;
    int eu = -1, ev = -1;  // PATH-extension stage: kind of the start / end extension (-1: the fixed pair (1, 0.5))
};
// extension kinds, relative to the element's own half width hw (constant width): the OASIS writer has a special
// encoding for 0 and for hw, the reader classifies (0,0) / (hw,hw) / anything else
static const char* XNAME[] = {"zero", "halfwidth", "positive", "negative"};
static double ext_value(int kind, double hw) { return kind == 0 ? 0.0 : kind == 1 ? hw : kind == 2 ? 0.75 * hw : -0.25 * hw; }
static std::string seq_str(const std::vector<Step>& s) {
    std::string o;
    for (size_t i = 0; i < s.size(); i++) o += (i ? "," : "") + std::to_string(s[i].kind) + "." + std::to_string(s[i].joint);
    return o;
}
static std::string seq_names(const std::vector<Step>& s) {
    std::string o;
    for (size_t i = 0; i < s.size(); i++) o += (i ? " | " : "") + std::string(i ? JNAME[s[i].joint] : "start") + ":" + KNAME[s[i].kind];
    return o;
}
// Coordinates of section si are handed to gdstk RELATIVE to the current end point (relative = true) or absolute,
// alternating with the position and the offset kind, so that every kind that has the flag is built both ways in
// every position (the path starts at (1,-2), never at the origin).  arc/turn have no such flag.
static bool rel_of(const Case& c, size_t si) { return ((si + (size_t)c.ok) & 1) == 0; }
static std::string rel_str(const Case& c) {
    std::string o;
    for (size_t i = 0; i < c.seq.size(); i++) o += rel_of(c, i) ? "r" : "a";
    return o;
}
static std::string replay_of(const Case& c) {
    std::string r = fmt("seq=%s wk=%d ok=%d nel=%d end=%d tol=%d tr=%d", seq_str(c.seq).c_str(), c.wk, c.ok, c.nel, c.end, c.tol, c.tr);
    if (c.eu >= 0) r += fmt(" eu=%d ev=%d", c.eu, c.ev);
    return r;
}
static std::string case_json(const Case& c) {
    return jobj({{"sections", jstr(seq_names(c.seq))}, {"coordinates_relative_or_absolute", jstr(rel_str(c))}, {"width", jstr(WNAME[c.wk])}, {"offset", jstr(ONAME[c.ok])}, {"elements", jint(c.nel)},
                 {"end", jstr(c.eu >= 0 ? fmt("extended(start=%s,end=%s)", XNAME[c.eu], XNAME[c.ev]) : std::string(ENAME[c.end]))}, {"tolerance", jnum(TOLS[c.tol])}, {"transform", jstr(TNAME[c.tr])}, {"max_evals", jint(MAX_EVALS)}});
}
static JFields tags_of(const Case& c, int el, int sec_kind) {
    JFields t = {{"sections", jstr(seq_names(c.seq))}, {"nsections", jint((int64_t)c.seq.size())}, {"width", jstr(WNAME[c.wk])}, {"offset", jstr(ONAME[c.ok])},
                 {"elements", jint(c.nel)}, {"element", jint(el)}, {"end", jstr(ENAME[c.end])}, {"tolerance", jnum(TOLS[c.tol])}, {"transform", jstr(TNAME[c.tr])}};
    if (sec_kind >= 0) t.push_back({"section_kind", jstr(KNAME[sec_kind])});
    t.push_back({"coordinates", jstr(rel_str(c))});
    if (c.eu >= 0) { t.push_back({"ext_start", jstr(XNAME[c.eu])}); t.push_back({"ext_end", jstr(XNAME[c.ev])}); }
    return t;
}

// ------------------------------------------------------------------ user functions handed to gdstk
struct CircData { double R, h, ox, oy; };  // (ox, oy): origin added by the function itself (absolute variant)
static Vec2 circ_f(double u, void* d) {
    CircData* c = (CircData*)d;
    double a = 0.5 * M_PI * u, x = c->R * sin(a), y = c->R * (1 - cos(a));
    return Vec2{c->ox + x * cos(c->h) - y * sin(c->h), c->oy + x * sin(c->h) + y * cos(c->h)};
}
static Vec2 circ_g(double u, void* d) {
    CircData* c = (CircData*)d;
    double a = 0.5 * M_PI * u, x = c->R * 0.5 * M_PI * cos(a), y = c->R * 0.5 * M_PI * sin(a);
    return Vec2{x * cos(c->h) - y * sin(c->h), x * sin(c->h) + y * cos(c->h)};
}
static double quad_w(double u, void* d) { return im_eval(*(IM*)d, u); }  // the user's function IS the input

// ------------------------------------------------------------------ build: real path + oracle, in lock-step
struct Built {
    RobustPath path = {};
    std::vector<OSec> secs;                  // oracle spine sections (untransformed)
    std::vector<IM> wim[2], oim[2];          // per element, per section
    std::deque<CircData> circ;               // stable addresses for user data
    std::deque<IM> imdata;
    Xf T;                                    // harness-side transform
    double extu[2] = {EXT_U, EXT_U}, extv[2] = {EXT_V, EXT_V};  // Extended end: per element (start, end), untransformed
    std::string construct_error;
    ~Built() { path.clear(); }
};

static Interpolation to_gdstk(const IM& m, std::deque<IM>& store) {
    Interpolation it = {};
    switch (m.type) {
        case 0: it.type = InterpolationType::Constant; it.value = m.a; break;
        case 1: it.type = InterpolationType::Linear; it.initial_value = m.a; it.final_value = m.b; break;
        case 2: it.type = InterpolationType::Smooth; it.initial_value = m.a; it.final_value = m.b; break;
        default:
            store.push_back(m);
            it.type = InterpolationType::Parametric; it.function = quad_w; it.data = &store.back();
    }
    return it;
}

static const double W_HI[2] = {2.0, 1.0}, W_LO[2] = {1.0, 0.5};   // element 1: half the widths
static const double O_SIGN[2] = {1.0, -1.0};                      // element 1: opposite side

static void build(const Case& c, Built& b) {
    RobustPath& p = b.path;
    const V start = {1, -2};
    double w0[2], o0[2];
    Tag tg[2] = {make_tag(1, 0), make_tag(2, 0)};
    double cw[2], co[2];  // current width / offset per element (continuity)
    for (int e = 0; e < 2; e++) {
        cw[e] = w0[e] = W_HI[e];
        co[e] = o0[e] = (c.ok == 1 ? 1.5 : 0.0) * O_SIGN[e];
    }
    p.init(Vec2{start.x, start.y}, (uint64_t)c.nel, w0, o0, TOLS[c.tol], MAX_EVALS, tg);
    p.scale_width = true;
    for (int e = 0; e < c.nel; e++) {
        p.elements[e].end_type = ETYPE[c.end];
        if (c.eu >= 0) { b.extu[e] = ext_value(c.eu, 0.5 * W_HI[e]); b.extv[e] = ext_value(c.ev, 0.5 * W_HI[e]); }
        if (ETYPE[c.end] == EndType::Extended) p.elements[e].end_extensions = Vec2{b.extu[e], b.extv[e]};
    }
    V pen = start;
    double heading = 0;
    V prevder = {0, 0};
    bool have_prev = false, prev_numeric = false, chain_approx = false;
    for (size_t si = 0; si < c.seq.size(); si++) {
        int k = c.seq[si].kind;
        double h = heading + (si ? JOINT[c.seq[si].joint] : 0.0);
        auto G = [&](double lx, double ly) { return pen + rot(V{lx, ly}, h); };
        // interpolations for this call (interpolation(): NULL => constant at the current values)
        Interpolation wi[2], oi[2];
        IM wm[2], om[2];
        bool pass_null = k == K_INTERP;
        for (int e = 0; e < c.nel; e++) {
            double wt = (cw[e] == W_HI[e]) ? W_LO[e] : W_HI[e];
            wm[e] = (c.wk == 0 || pass_null) ? IM{0, cw[e], cw[e]} : IM{c.wk, cw[e], wt};
            if (c.ok <= 1 || pass_null) om[e] = IM{0, co[e], co[e]};
            else { double ot = (co[e] == 0.0) ? 1.0 * O_SIGN[e] : 0.0; om[e] = IM{c.ok == 2 ? 1 : 2, co[e], ot}; }
            wi[e] = to_gdstk(wm[e], b.imdata);
            oi[e] = to_gdstk(om[e], b.imdata);
            cw[e] = wm[e].b; co[e] = om[e].b;
        }
        const Interpolation* W = pass_null ? NULL : wi;
        const Interpolation* O = pass_null ? NULL : oi;
        std::vector<OSec> added;
        const bool rel = rel_of(c, si);
        auto A = [&](V q) { V d = rel ? q - pen : q; return Vec2{d.x, d.y}; };  // absolute point -> argument
        switch (k) {
            case K_SEG: {
                V e = G(6, 0);
                p.segment(A(e), W, O, rel);
                added.push_back(OSec::segment(pen, e));
            } break;
            case K_ARCC: {
                p.arc(5, 5, h - M_PI / 2, h, 0, W, O);
                V ctr = pen - V{5 * cos(h - M_PI / 2), 5 * sin(h - M_PI / 2)};
                added.push_back(OSec::arc(ctr, 5, 5, h - M_PI / 2, h, 0));
            } break;
            case K_ARCE: {
                const double rx = 10, ry = 5, t0 = -M_PI / 2, t1 = -M_PI / 4;
                p.arc(rx, ry, t0 + h, t1 + h, h, W, O);
                V ctr = pen - rot(V{rx * cos(t0), ry * sin(t0)}, h);
                added.push_back(OSec::arc(ctr, rx, ry, t0, t1, h));
            } break;
            case K_ARCER: {
                // ellipse 10 x 5 whose own axes are turned by pi/6 against the direction of travel: rotation argument
                // h + pi/6 (never 0); the parameter range starts where the ellipse's tangent points along the heading
                const double rx = 10, ry = 5, rotn = h + M_PI / 6;
                const double dx = cos(h - rotn), dy = sin(h - rotn);      // heading in the ellipse's frame
                const double t0 = atan2(-dx / rx, dy / ry), t1 = t0 + M_PI / 4;
                p.arc(rx, ry, t0 + rotn, t1 + rotn, rotn, W, O);
                V ctr = pen - rot(V{rx * cos(t0), ry * sin(t0)}, rotn);
                added.push_back(OSec::arc(ctr, rx, ry, t0, t1, rotn));    // own end point: ctr + R(rotn)(rx cos t1, ry sin t1)
            } break;
            case K_ARCCR: {
                // circular quarter arc given with rotation 0.7: a circle does not depend on it (oracle: plain circle)
                p.arc(5, 5, h - M_PI / 2, h, 0.7, W, O);
                V ctr = pen - V{5 * cos(h - M_PI / 2), 5 * sin(h - M_PI / 2)};
                added.push_back(OSec::arc(ctr, 5, 5, h - M_PI / 2, h, 0));
            } break;
            case K_TURNL: case K_TURNR: {
                double dir = have_prev ? atan2(prevder.y, prevder.x) : 0.0;  // documented: +x for an empty path
                const double r = 5;
                double sgn = k == K_TURNL ? 1 : -1;
                p.turn(r, sgn * M_PI / 2, W, O);
                V ctr = pen + V{-sin(dir), cos(dir)} * (sgn * r);  // centre on the left (right) of the direction of travel
                double a0 = dir - sgn * M_PI / 2;
                added.push_back(OSec::arc(ctr, r, r, a0, a0 + sgn * M_PI / 2, 0));
            } break;
            case K_QUAD: {
                V r1 = rot(V{4, 0}, h), r2 = rot(V{8, 3}, h);
                p.quadratic(A(pen + r1), A(pen + r2), W, O, rel);
                added.push_back(OSec::bezier({pen, pen + r1, pen + r2}));
            } break;
            case K_CUBIC: {
                V a = G(3, 0), q = G(6, 1), e = G(9, 3);
                p.cubic(A(a), A(q), A(e), W, O, rel);
                added.push_back(OSec::bezier({pen, a, q, e}));
            } break;
            case K_QSM: {
                V e = G(9, 2);
                p.quadratic_smooth(A(e), W, O, rel);
                added.push_back(OSec::bezier({pen, pen + prevder * 0.5, e}));  // first control = continuation of the previous tangent
            } break;
            case K_CSM: {
                V r2 = rot(V{6, 1}, h), r3 = rot(V{9, 3}, h);
                p.cubic_smooth(A(pen + r2), A(pen + r3), W, O, rel);
                added.push_back(OSec::bezier({pen, pen + prevder * (1.0 / 3), pen + r2, pen + r3}));
            } break;
            case K_BEZ: {
                V c1 = G(2, 0), c2 = G(5, 0), c3 = G(7, 1.5), c4 = G(9, 4);
                Vec2 pts[4] = {A(c1), A(c2), A(c3), A(c4)};
                Array<Vec2> arr = {};
                arr.items = pts; arr.count = 4; arr.capacity = 0;
                p.bezier(arr, W, O, rel);  // general Bezier of degree 4 (bezier() builds the same generic section for any count)
                added.push_back(OSec::bezier({pen, c1, c2, c3, c4}));
            } break;
            case K_INTERP: {
                V q1 = G(5, 1.5), q2 = G(10, 0);
                Vec2 pts[2] = {A(q1), A(q2)};
                Array<Vec2> arr = {};
                arr.items = pts; arr.count = 2; arr.capacity = 0;
                // the start angle is given within pi of the chord direction (hobby_interpolation does not reduce
                // the difference modulo 2 pi: an equivalent angle 2 pi away produces a looping curve - C15's subject)
                double chord = atan2(q1.y - pen.y, q1.x - pen.x);
                double angles[3] = {chord + remainder(h - chord, 2 * M_PI), 0, 0};
                bool cons[3] = {true, false, false};
                Vec2 tens[3] = {{1, 1}, {1, 1}, {1, 1}};
                uint64_t before = p.subpath_array.count;
                p.interpolation(arr, angles, cons, tens, 1, 1, false, NULL, NULL, rel);
                // The Hobby control points are an INPUT of the outline stage (their derivation is C15's
                // subject): read them back, but check what an interpolation promises.
                if (p.subpath_array.count != before + 2) { b.construct_error = "interpolation(2 points) did not add 2 sections"; return; }
                V via[3] = {pen, q1, q2};
                for (int j = 0; j < 2; j++) {
                    const SubPath& sp = p.subpath_array[before + j];
                    if (sp.type != SubPathType::Bezier3) { b.construct_error = "interpolation section is not a cubic"; return; }
                    OSec s = OSec::bezier({V{sp.p0.x, sp.p0.y}, V{sp.p1.x, sp.p1.y}, V{sp.p2.x, sp.p2.y}, V{sp.p3.x, sp.p3.y}});
                    double t0 = (j == 0 && chain_approx) ? 2e-3 : 1e-9;  // the start is the path's current end point
                    double t3 = (rel && chain_approx) ? 2e-3 : 1e-9;     // relative points move with it
                    if (len(s.ctrl[0] - via[j]) > t0 || len(s.ctrl[3] - via[j + 1]) > t3) b.construct_error = "interpolation does not pass through the given points";
                    added.push_back(s);
                }
                V d0 = added[0].der(0), d1 = added[0].der(1), d2 = added[1].der(0);
                if (fabs(cross(d0, V{cos(h), sin(h)})) > 1e-9 * len(d0) || dot(d0, V{cos(h), sin(h)}) <= 0) b.construct_error = "interpolation ignores the initial angle constraint";
                if (fabs(cross(d1, d2)) > 1e-9 * len(d1) * len(d2) || dot(d1, d2) <= 0) b.construct_error = "interpolation is not tangent-continuous at the interior point";
                if (!b.construct_error.empty()) return;
            } break;
            case K_PARG: case K_PARN: {
                b.circ.push_back(CircData{5, h, rel ? 0.0 : pen.x, rel ? 0.0 : pen.y});
                p.parametric(circ_f, &b.circ.back(), k == K_PARG ? circ_g : NULL, k == K_PARG ? &b.circ.back() : NULL, W, O, rel);
                added.push_back(OSec::circle(pen, 5, h));
            } break;
        }
        for (auto& s : added) {
            s.kind = k;
            s.numeric_grad = k == K_PARN;
            if (prev_numeric && forced_smooth(k)) chain_approx = true;  // built from a numerically differentiated tangent;
            s.approx = chain_approx;                                    // every later section starts from its (shifted) end point
            b.secs.push_back(s);
            for (int e = 0; e < c.nel; e++) { b.wim[e].push_back(wm[e]); b.oim[e].push_back(om[e]); }
        }
        const OSec& last = b.secs.back();
        pen = last.eval(1);
        prevder = last.der(1);
        heading = atan2(prevder.y, prevder.x);
        have_prev = true;
        prev_numeric = k == K_PARN;
    }
    // transform state, applied to the finished path BEFORE outlining; harness-side map derived independently
    switch (c.tr) {
        case 0: b.T = Xf::identity(); break;
        case 1: p.rotate(0.6, Vec2{1, 1}); b.T = Xf::rotation(0.6, V{1, 1}); break;
        case 2: p.mirror(Vec2{0, 1}, Vec2{2, 2}); b.T = Xf::reflection(V{0, 1}, V{2, 2}); break;
        case 3: p.scale(2, Vec2{1, 0}); b.T = Xf::scaling(2, V{1, 0}); break;
        default: p.transform(1.5, true, 0.6, Vec2{1, 2}); b.T = Xf::reference(1.5, true, 0.6, V{1, 2});
    }
}

// non-degeneracy predicate: spine curvature radius everywhere larger than the widest reach to one side
static double min_curv_radius(const Built& b) {
    double m = INFINITY;
    for (auto& s : b.secs)
        for (int i = 0; i <= 200; i++) {
            double u = i / 200.0;
            V d = s.der(u), dd = (s.der(u + 1e-5) - s.der(u - 1e-5)) * (1 / 2e-5);
            double k = fabs(cross(d, dd)) / pow(len(d), 3);
            if (k > 0) m = std::min(m, 1 / k);
        }
    return m;
}

// ------------------------------------------------------------------ the checks of one case
struct Viol { std::string sub, cls, detail; int el, kind; JFields extra; };
static void report(const Case& c, const Viol& v) {
    JFields t = tags_of(c, v.el, v.kind);
    for (auto& e : v.extra) t.push_back(e);
    // per root-cause counters (the emitted violation lines are capped per class; the counters are not)
    std::string sig;
    for (auto& e : v.extra) {
        if (e.first == "offset_slope_jump_at_tangent_joint" && e.second == "true") sig += "J";
        if (e.first == "nograd_section_with_offset_slope_at_end" && e.second == "true") sig += "N";
        if (e.first == "taper_at_angled_joint" && e.second == "true") sig += "T";
    }
    if (v.sub.rfind("outline", 0) == 0 || v.cls == "centre_line") {
        R->count("cause[" + (sig.empty() ? std::string("none") : sig) + "]:" + v.sub + "/" + v.cls + fmt(":tol=%g", TOLS[c.tol]));
        if (sig.empty()) { static int shown = 0; if (shown++ < 40) fprintf(stderr, "UNCAUSED %s/%s %s | %s\n", v.sub.c_str(), v.cls.c_str(), replay_of(c).c_str(), v.detail.c_str()); }
    }
    R->violation(v.sub, v.cls, t, case_json(c), v.detail, replay_of(c));
    if (VERBOSE) fprintf(stderr, "VIOLATION %s/%s el=%d: %s\n", v.sub.c_str(), v.cls.c_str(), v.el, v.detail.c_str());
}

static void model_locate(double u, bool from_below, int n, int& idx, double& fr) {
    if (u >= n) u = n;
    if (u < 0) u = 0;
    if (u == n) { idx = n - 1; fr = 1; return; }
    idx = (int)floor(u);
    fr = u - idx;
    if (from_below && fr == 0 && idx > 0) { idx--; fr = 1; }
}

static void check_queries(const Case& c, Built& b) {
    const int n = (int)b.secs.size();
    const double sm = b.T.mag;
    std::vector<double> us = {0, 0.25, 0.5, 1, 1.5, (double)n};
    for (int k = 2; k < n; k++) us.push_back(k);  // every section boundary
    // continuity: the spine has no gap at a section boundary
    for (int k = 1; k < n; k++) {
        Vec2 a = b.path.position(k, true), c2 = b.path.position(k, false);
        if (!(len(V{a.x - c2.x, a.y - c2.y}) <= 1e-9 * sm * (1 + fabs(a.x) + fabs(a.y))))
            report(c, {"query.continuity", "gap", fmt("position(%d) from below (%.12g, %.12g) and from above (%.12g, %.12g) differ: section %d (%s) does not start where section %d (%s) ends",
                                                     k, a.x, a.y, c2.x, c2.y, k, KNAME[b.secs[k].kind], k - 1, KNAME[b.secs[k - 1].kind]), 0, b.secs[k - 1].kind, {{"u", jnum(k)}}});
    }
    for (double u : us)
        for (int fb = 0; fb < 2; fb++) {
            int idx; double fr;
            model_locate(u, fb, n, idx, fr);
            const OSec& s = b.secs[idx];
            V pe = b.T.apply(s.eval(fr));
            const double h = 1e-5;
            V ge = (b.T.apply(s.eval(fr + h)) - b.T.apply(s.eval(fr - h))) * (1 / (2 * h));
            Vec2 pg = b.path.position(u, fb), gg = b.path.gradient(u, fb);
            double ptol = (s.approx ? 1e-3 : 1e-9) * sm * (1 + len(pe));
            // gradient: 1e-6 relative; sections the user asked gdstk to differentiate numerically (no gradient function)
            // are one-sided at their ends (error h|s''|/2 with h = 1/(10 max_evals)): 2e-4 there.
            double gtol = len(ge) * (s.approx ? 1e-3 : (s.numeric_grad && (fr == 0 || fr == 1)) ? 2e-4 : 1e-6);
            std::string at = fmt("u=%g from_below=%d -> section %d (%s) at %g", u, fb, idx, KNAME[s.kind], fr);
            if (!(len(V{pg.x, pg.y} - pe) <= ptol))
                report(c, {"query.position", "mismatch", fmt("%s: position (%.12g, %.12g), analytic (%.12g, %.12g)", at.c_str(), pg.x, pg.y, pe.x, pe.y), 0, s.kind, {{"u", jnum(u)}, {"from_below", jbool(fb)}}});
            if (!(len(V{gg.x, gg.y} - ge) <= gtol))
                report(c, {"query.gradient", "mismatch", fmt("%s: gradient (%.12g, %.12g), central difference of the analytic curve (%.12g, %.12g)", at.c_str(), gg.x, gg.y, ge.x, ge.y), 0, s.kind, {{"u", jnum(u)}, {"from_below", jbool(fb)}}});
            double wr[2] = {NAN, NAN}, orr[2] = {NAN, NAN};
            b.path.width(u, fb, wr);
            b.path.offset(u, fb, orr);
            for (int e = 0; e < c.nel; e++) {
                double we = im_eval(b.wim[e][idx], fr) * sm;                                // scale_width = true
                double oe = im_eval(b.oim[e][idx], fr) * sm * (b.T.reflect ? -1 : 1);      // signed: left of the transformed direction of travel
                if (!(fabs(wr[e] - we) <= 1e-9 * (1 + fabs(we))))
                    report(c, {"query.width", "mismatch", fmt("%s: width %.12g, expected %.12g", at.c_str(), wr[e], we), e, s.kind, {{"u", jnum(u)}, {"from_below", jbool(fb)}}});
                if (!(fabs(orr[e] - oe) <= 1e-9 * (1 + fabs(oe))))
                    report(c, {"query.offset", "mismatch", fmt("%s: offset %.12g, expected %.12g", at.c_str(), orr[e], oe), e, s.kind, {{"u", jnum(u)}, {"from_below", jbool(fb)}}});
            }
            R->count("query_points");
        }
}

// spine(): first/last point, every point within tolerance of T.s(u), parameters in order
static void check_spine(const Case& c, Built& b) {
    Array<Vec2> sp = {};
    ErrorCode ec = b.path.spine(sp);
    if (ec != ErrorCode::NoError) R->count("warn_spine_error_code");
    std::vector<V> S;  // dense polyline of the transformed spine
    const int M = 1000;
    for (auto& s : b.secs)
        for (int i = 0; i <= M; i++) S.push_back(b.T.apply(s.eval((double)i / M)));
    const double tol = TOLS[c.tol];
    bool approx = false;
    for (auto& s : b.secs) approx |= s.approx;
    const double slack = tol + (approx ? 1e-3 * b.T.mag : 0);
    std::string bad;
    if (sp.count < 2) bad = fmt("spine() returned %llu points", (unsigned long long)sp.count);
    else {
        if (len(V{sp[0].x, sp[0].y} - S.front()) > slack) bad = "first spine point is not the start of the spine";
        if (len(V{sp[sp.count - 1].x, sp[sp.count - 1].y} - S.back()) > slack) bad = "last spine point is not the end of the spine";
        size_t last = 0;
        for (uint64_t i = 0; i < sp.count && bad.empty(); i++) {
            V q = {sp[i].x, sp[i].y};
            if (!(std::isfinite(q.x) && std::isfinite(q.y))) { bad = "non-finite spine point"; break; }
            size_t k = last > 2 ? last - 2 : 0;
            bool found = false;
            for (; k + 1 < S.size(); k++)
                if (dist_seg(q, S[k], S[k + 1]) <= slack) { found = true; break; }
            if (!found) { bad = fmt("spine point %llu (%.9g, %.9g) is not within tolerance of the analytic spine at or after the previous point's parameter", (unsigned long long)i, q.x, q.y); break; }
            // walk to the local minimum
            double d = dist_seg(q, S[k], S[k + 1]);
            while (k + 2 < S.size() && dist_seg(q, S[k + 1], S[k + 2]) < d) { k++; d = dist_seg(q, S[k], S[k + 1]); }
            last = k;
        }
    }
    if (!bad.empty()) report(c, {"spine", "mismatch", bad, 0, -1, {}});
    sp.clear();
}

struct Reread { std::vector<V> pts; double width = NAN; int end_type = -1; double ext_u = NAN, ext_v = NAN; };
// Hook: an independent PATH decoder can replace this function (same signature); today the files are
// re-read with gdstk's own readers.
static bool reread_paths(const std::string& file, bool oas, double tol, std::vector<Reread>& out) {
    ErrorCode ec = ErrorCode::NoError;
    Library lib = oas ? read_oas(file.c_str(), 0, tol, &ec) : read_gds(file.c_str(), 0, tol, NULL, &ec);
    bool ok = lib.cell_array.count == 1;
    if (ok) {
        Cell* cell = lib.cell_array[0];
        for (uint64_t i = 0; i < cell->flexpath_array.count; i++) {
            FlexPath* fp = cell->flexpath_array[i];
            Reread r;
            for (uint64_t j = 0; j < fp->spine.point_array.count; j++) r.pts.push_back(V{fp->spine.point_array[j].x, fp->spine.point_array[j].y});
            if (fp->num_elements == 1 && fp->elements[0].half_width_and_offset.count > 0) r.width = 2 * fp->elements[0].half_width_and_offset[0].x;
            if (fp->num_elements == 1) { r.end_type = (int)fp->elements[0].end_type; r.ext_u = fp->elements[0].end_extensions.u; r.ext_v = fp->elements[0].end_extensions.v; }
            out.push_back(r);
        }
        if (cell->polygon_array.count) ok = false;
    }
    lib.free_all();
    return ok;
}

static void check_path_record(const Case& c, Built& b, std::vector<ElemOracle>& eo) {
    b.path.simple_path = true;
    Library lib = {};
    lib.init("L", 1e-6, 1e-12);  // 1e-6 user units per database unit: rounding far below the tolerance
    Cell cell = {};
    cell.name = copy_string("C", NULL);
    cell.robustpath_array.append(&b.path);
    lib.cell_array.append(&cell);
    tm ts = {};
    ts.tm_year = 100; ts.tm_mon = 0; ts.tm_mday = 1;
    const double tol = TOLS[c.tol];
    bool approx = false;
    for (auto& sc : b.secs) approx |= sc.approx;
    const double aslack = approx ? 1e-3 * b.T.mag : 0;  // sections built from a numerically differentiated tangent
    for (int oas = 0; oas < 2; oas++) {
        std::string fn = R->scratch + fmt("/p%d.%s", (int)getpid(), oas ? "oas" : "gds");
        double tw_ = now();
        ErrorCode ec = oas ? lib.write_oas(fn.c_str(), 1e-3, 0, 0) : lib.write_gds(fn.c_str(), 0, &ts);
        (void)ec;
        prof("us_path_write", tw_);
        std::vector<Reread> rr;
        const char* F = oas ? "oas" : "gds";
        std::string sub = std::string("path.") + F;
        double trd = now();
        bool ok = reread_paths(fn, oas, tol, rr);
        prof("us_path_read", trd);
        if (!ok || (int)rr.size() != c.nel) {
            report(c, {sub, "records", fmt("expected %d PATH records in one cell, re-read %zu paths (ok=%d)", c.nel, rr.size(), ok), 0, -1, {{"format", jstr(F)}}});
            continue;
        }
        for (int e = 0; e < c.nel; e++) {
            double w_expect = im_eval(b.wim[e][0], 0) * b.T.mag;
            if (!(fabs(rr[e].width - w_expect) <= 4e-6)) {
                double ratio = rr[e].width / w_expect;
                report(c, {sub, "width", fmt("re-read PATH width %.9g, the element's width w(0) is %.9g (ratio %.6g)", rr[e].width, w_expect, ratio), e, -1,
                           {{"format", jstr(F)}, {"ratio", jnum(fabs(ratio - 2) < 1e-6 ? 2.0 : fabs(ratio - 0.5) < 1e-6 ? 0.5 : ratio)}}});
            }
            std::string why = eo[e].check_centre_line(rr[e].pts, tol + 2e-6 + aslack, 4 * tol + 2e-6 + aslack);
            if (!why.empty()) report(c, {sub, "centre_line", why, e, -1, {{"format", jstr(F)}, {"offset_slope_jump_at_tangent_joint", jbool(eo[e].offset_slope_jump)}, {"nograd_section_with_offset_slope_at_end", jbool(eo[e].nograd_offset_slope)}, {"taper_at_angled_joint", jbool(eo[e].taper_at_angled_joint)}}});
            R->outcome(sub, fmt("end %s -> %d", ENAME[c.end], rr[e].end_type));
            // the record's end specification denotes the same effective (start, end) extensions as the element's
            EndType want = ETYPE[c.end], got = (EndType)rr[e].end_type;
            if (want == EndType::Round) {
                if (!oas && got != EndType::Round) report(c, {sub, "end_type", fmt("round end re-read as end type %d", rr[e].end_type), e, -1, {{"format", jstr(F)}}});
            } else {  // OASIS has no round ends (written flush by design): not compared above
                double hwT = 0.5 * w_expect, wu, wv, gu = NAN, gv = NAN;
                if (want == EndType::Flush) wu = wv = 0;
                else if (want == EndType::HalfWidth) wu = wv = hwT;
                else { wu = b.extu[e] * b.T.mag; wv = b.extv[e] * b.T.mag; }
                if (got == EndType::Flush) gu = gv = 0;
                else if (got == EndType::HalfWidth) gu = gv = 0.5 * rr[e].width;
                else if (got == EndType::Extended) { gu = rr[e].ext_u; gv = rr[e].ext_v; }
                if (!(fabs(gu - wu) <= 2e-6 && fabs(gv - wv) <= 2e-6))
                    report(c, {sub, "extension", fmt("the element's end extensions are (start %.9g, end %.9g) [end type %s, half width %.9g]; the re-read PATH has end type %d, i.e. effective extensions (start %.9g, end %.9g)",
                                                     wu, wv, ENAME[c.end], hwT, rr[e].end_type, gu, gv), e, -1, {{"format", jstr(F)}, {"reread_end_type", jint(rr[e].end_type)}}});
                R->count("path_extension_pairs_compared");
            }
        }
        R->count(oas ? "path_records_oas" : "path_records_gds", c.nel);
    }
    cell.robustpath_array.clear();
    lib.cell_array.clear();
    free_allocation(cell.name);
    free_allocation(lib.name);
    b.path.simple_path = false;
}

static bool is_nontrivial(const Case& c) {
    if (c.eu >= 0) return c.eu != 2 || c.ev != 2;  // an extension that is zero, exactly the half width, or negative
    bool anycurved = false, smoothcont = false;
    for (size_t i = 0; i < c.seq.size(); i++) {
        anycurved |= curved(c.seq[i].kind);
        if (i > 0 && (c.seq[i].kind == K_QSM || c.seq[i].kind == K_CSM)) smoothcont = true;
    }
    return (c.wk == 3 && c.ok != 0 && anycurved) || smoothcont || c.tr != 0;
}

static void run_case(const Case& c) {
    Built b;
    build(c, b);
    if (!b.construct_error.empty()) {
        report(c, {"construct", "interpolation", b.construct_error, 0, K_INTERP, {}});
        return;
    }
    // non-degeneracy: |offset| + half width <= 2.5 (x magnification) must stay below the curvature radius
    double rmin = min_curv_radius(b);
    if (VERBOSE) fprintf(stderr, "min curvature radius of the spine: %.4g\n", rmin);
    if (rmin < 3.5) { R->count("dropped_degenerate"); R->outcome("dropped", seq_names(c.seq)); { static int noted = 0; if (noted++ < 1) R->note(fmt("dropped as degenerate (spine curvature radius %.3g < 3.5): %s", rmin, seq_names(c.seq).c_str())); } return; }
    if (getenv("C08_ONLY_PREDICATE")) return;
    R->count("cases");
    if (is_nontrivial(c)) R->count("nontrivial");
    if (c.wk == 3 && c.ok != 0) R->count("nt_parametric_width_with_offset");
    if (c.tr != 0) R->count("nt_transformed");
    const double tol = TOLS[c.tol], g = 4 * tol;

    double tq = now();
    if (c.eu < 0) {
        check_queries(c, b);
        check_spine(c, b);
    }
    prof("us_queries_spine", tq);

    if (VERBOSE) {  // what the joint searches of to_polygons return (private members; diagnostics only)
        for (int e = 0; e < c.nel; e++)
            for (uint64_t j = 0; j + 1 < b.path.subpath_array.count; j++) {
                RobustPathElement& el = b.path.elements[e];
                double u1 = 1, u2 = 0, v1 = 1, v2 = 0;
                ErrorCode el_ = b.path.left_intersection(b.path.subpath_array[j], el.offset_array[j], el.width_array[j], b.path.subpath_array[j + 1], el.offset_array[j + 1], el.width_array[j + 1], u1, u2);
                ErrorCode er_ = b.path.right_intersection(b.path.subpath_array[j], el.offset_array[j], el.width_array[j], b.path.subpath_array[j + 1], el.offset_array[j + 1], el.width_array[j + 1], v1, v2);
                fprintf(stderr, "element %d joint %llu: left_intersection -> u(prev)=%.9g u(next)=%.9g code %d; right_intersection -> u(prev)=%.9g u(next)=%.9g code %d\n", e, (unsigned long long)j, u1, u2, (int)el_, v1, v2, (int)er_);
            }
    }
    Array<Polygon*> polys = {};
    double tp = now();
    ErrorCode ec = b.path.to_polygons(false, 0, polys);
    prof("us_to_polygons", tp);
    if (ec != ErrorCode::NoError) { R->count("warn_to_polygons_error_code"); R->outcome("outline", fmt("error code %d", (int)ec)); }
    if ((int)polys.count != c.nel) {
        report(c, {"outline", "polygon_count", fmt("%llu polygons for %d elements", (unsigned long long)polys.count, c.nel), 0, -1, {}});
    }
    std::vector<ElemOracle> eo(c.nel);
    for (int e = 0; e < c.nel && e < (int)polys.count; e++) {
        ElemOracle& o = eo[e];
        double ti = now();
        o.init(b.secs, b.wim[e], b.oim[e], b.T, NS, g, (int)ETYPE[c.end] == (int)EndType::Flush ? 0 : (int)ETYPE[c.end] == (int)EndType::HalfWidth ? 1 : (int)ETYPE[c.end] == (int)EndType::Extended ? 2 : 3,
               b.extu[e] * b.T.mag, b.extv[e] * b.T.mag);
        prof("us_oracle_init", ti);
        if (!o.error.empty()) { R->internal_error("oracle: " + o.error + " in " + replay_of(c)); continue; }
        if (!o.degenerate.empty()) { R->count("elements_skipped_degenerate_joint"); R->outcome("dropped", o.degenerate + ": " + seq_names(c.seq)); { static int noted = 0; if (noted++ < 2) R->note(fmt("element %d skipped as degenerate (%s) in %s", e, o.degenerate.c_str(), replay_of(c).c_str())); } continue; }
        R->count("joints_trimmed", o.trimmed_joints); R->count("joints_extended", o.extended_joints);
        std::vector<V> pts;
        bool finite = true;
        for (uint64_t i = 0; i < polys[e]->point_array.count; i++) {
            Vec2 q = polys[e]->point_array[i];
            if (!(std::isfinite(q.x) && std::isfinite(q.y))) finite = false;
            pts.push_back(V{q.x, q.y});
        }
        if (!finite || pts.size() < 3) {
            report(c, {"outline", "malformed", fmt("polygon with %zu vertices, finite=%d", pts.size(), finite), e, -1, {}});
            continue;
        }
        if (polys[e]->tag != b.path.elements[e].tag) report(c, {"outline", "tag", "polygon tag differs from the element's", e, -1, {}});
        if (VERBOSE && getenv("C08_DUMP")) {
            fprintf(stderr, "element %d outline (%zu vertices):\n", e, pts.size());
            for (size_t i = 0; i < pts.size(); i++) fprintf(stderr, "  P %zu %.9g %.9g\n", i, pts[i].x, pts[i].y);
            for (size_t si = 0; si < o.S.size(); si++) for (int k = 0; k <= NS; k += 100) fprintf(stderr, "  C %zu %d %.9g %.9g hw %.6g n %.6g %.6g\n", si, k, o.S[si].C[k].x, o.S[si].C[k].y, o.S[si].hw[k], o.S[si].Nn[k].x, o.S[si].Nn[k].y);
        }
        if (c.eu >= 0) {
            // PATH-extension stage: the outline itself is only asked where its end planes are (farthest vertex
            // along the outward end tangent, for extensions >= 0); the body is the other stages' subject
            for (int which = 0; which < 2; which++) {
                double ext = (which ? b.extv[e] : b.extu[e]) * b.T.mag;
                if (ext < 0) { R->count("ext_outline_plane_not_measured_negative"); continue; }
                const auto& sc = which ? o.S.back() : o.S.front();
                int k = which ? o.N : 0;
                V ce = sc.C[k], t = which ? sc.Tt[k] : sc.Tt[k] * -1.0;
                double hw = sc.hw[k], reach = sqrt(hw * hw + ext * ext) + 0.1 * hw, far = -INFINITY;
                for (auto& q : pts) if (len(q - ce) <= reach) far = std::max(far, dot(q - ce, t));
                // another part of the same element passing near this end (looping 2-section paths) puts foreign
                // vertices into the neighbourhood: the plane cannot be read off there
                bool foreign = false;
                for (size_t si = 0; si < o.S.size() && !foreign; si++)
                    for (int kk = 0; kk <= o.N; kk += 10) {
                        bool end_section = which ? si + 1 == o.S.size() : si == 0;
                        if (!end_section && len(o.S[si].C[kk] - ce) <= reach + o.S[si].hw[kk] + 0.1 * hw) { foreign = true; break; }
                    }
                {   // ... or the cap at the other end of the path
                    const auto& so = which ? o.S.front() : o.S.back();
                    int ko = which ? 0 : o.N;
                    double exo = std::max(0.0, (which ? b.extu[e] : b.extv[e]) * b.T.mag), ro = sqrt(so.hw[ko] * so.hw[ko] + exo * exo) + 0.1 * so.hw[ko];
                    if (len(so.C[ko] - ce) <= reach + ro) foreign = true;
                }
                if (foreign) { R->count("ext_outline_plane_not_measured_other_part_nearby"); continue; }
                if (!(fabs(far - ext) <= 1e-3 * b.T.mag))
                    report(c, {"outline", "extension", fmt("%s end: the outline reaches %.9g beyond the end of the centre curve, the element's extension is %.9g", which ? "final" : "initial", far, ext), e, sc.C.empty() ? -1 : b.secs[which ? b.secs.size() - 1 : 0].kind, {}});
                R->count("ext_outline_planes_measured");
            }
            continue;
        }
        PolyIndex pi(pts);
        R->count("outline_vertices", (int64_t)pts.size());
        JFields cause = {{"offset_slope_jump_at_tangent_joint", jbool(o.offset_slope_jump)}, {"nograd_section_with_offset_slope_at_end", jbool(o.nograd_offset_slope)},
                         {"taper_at_angled_joint", jbool(o.taper_at_angled_joint)}, {"warning_returned", jbool(ec != ErrorCode::NoError)}};
        // must-cover
        double tm_ = now();
        Miss m = o.must_cover(pi, QUICK_TRIM ? 2 : 1);
        prof("us_must_cover", tm_);
        R->count("must_cover_points", m.tested);
        if (m.count) {
            int kind = b.secs[m.sec].kind;
            JFields ex = cause;
            ex.push_back({"where", jstr(m.where)});
            ex.push_back({"excess_in_tolerances", jnum(floor(m.excess / tol * 10) / 10)});
            ex.push_back({"fraction_missed", jnum(floor(1000.0 * m.count / m.tested) / 1000)});
            std::string cls = m.where + (m.excess > 4 * tol ? "" : "-marginal");
            report(c, {"outline.must_cover", cls, fmt("%lld of %lld points within w/2-g of the centre curve are not covered; worst: section %d (%s) u=%.6g r=%.6g of half width %.6g at (%.9g, %.9g), %.3g outside the outline (g=%.3g)",
                                                       (long long)m.count, (long long)m.tested, m.sec, KNAME[kind], m.u, m.r, m.hw, m.q.x, m.q.y, m.excess, g),
                       e, kind, ex});
        }
        if (VERBOSE && m.count) {
            fprintf(stderr, "outline vertices within 0.3 of the first miss (%.9g, %.9g):\n", m.q.x, m.q.y);
            for (size_t i = 0; i < pts.size(); i++) if (len(pts[i] - m.q) < 0.3) fprintf(stderr, "   #%zu (%.9g, %.9g)\n", i, pts[i].x, pts[i].y);
            const auto& sc = o.S[m.sec];
            int k = (int)lround(m.u * NS);
            fprintf(stderr, "oracle at the miss: c=(%.9g, %.9g) n=(%.9g, %.9g) hw=%.9g\n", sc.C[k].x, sc.C[k].y, sc.Nn[k].x, sc.Nn[k].y, sc.hw[k]);
        }
        // must-not-cover
        double tn = now();
        Miss x = o.must_not_cover(pi);
        prof("us_must_not_cover", tn);
        R->count("grid_points", x.tested);
        R->count("grid_points_covered", x.covered);
        if (x.count) {
            int kind = x.sec >= 0 ? b.secs[x.sec].kind : -1;
            report(c, {"outline.must_not_cover", "beyond", fmt("%lld covered grid points lie farther than w/2+g from the centre curve, the caps and the joint reach; first (%.9g, %.9g): %.6g from the centre curve (nearest section %d u=%.4g, half width there %.4g), %.3g inside the outline",
                                                               (long long)x.count, x.q.x, x.q.y, x.r, x.sec, x.u, x.hw, pi.dist_boundary(x.q)),
                       e, kind, cause});
        }
    }
    // PATH record: every constant-width case; quick tier, 2-section paths: offsets {1.5, linear} only (file I/O budget)
    if (c.wk == 0 && (int)polys.count == c.nel && (QUICK_TRIM == 0 || c.seq.size() < 2 || c.ok == 1 || c.ok == 2)) {
        bool okk = true;
        for (auto& o : eo) okk &= o.error.empty() && o.degenerate.empty();
        double tr_ = now();
        if (okk) check_path_record(c, b, eo);
        prof("us_path_record", tr_);
    }
    for (uint64_t i = 0; i < polys.count; i++) { polys[i]->clear(); free_allocation(polys[i]); }
    polys.clear();
    if (R->samples_emitted["outline"] < 1 && c.seq.size() >= 2 && c.wk == 3) R->sample("outline", case_json(c));
}

// ------------------------------------------------------------------ enumeration
static std::vector<std::vector<Step>> sequences(int n) {
    std::vector<std::vector<Step>> out;
    std::vector<Step> firsts, nexts;
    for (int k = 0; k < NKINDS; k++) {
        if (k != K_QSM && k != K_CSM) firsts.push_back({k, 0});  // a smooth continuation needs a predecessor (zero start tangent otherwise)
        for (int j = 0; j < 3; j++) if (j == 0 || !forced_smooth(k)) nexts.push_back({k, j});
    }
    std::vector<std::vector<Step>> cur;
    for (auto& f : firsts) cur.push_back({f});
    for (int len_ = 1; len_ < n; len_++) {
        std::vector<std::vector<Step>> nx;
        for (auto& s : cur) for (auto& t : nexts) { auto v = s; v.push_back(t); nx.push_back(v); }
        cur.swap(nx);
    }
    return cur;
}
struct Group { int nel, end, tol, tr; };
static std::vector<Group> full_groups() {
    std::vector<Group> g;
    for (int tr = 0; tr < NTR; tr++) for (int tol = 0; tol < 2; tol++) for (int end = 0; end < 4; end++) for (int nel = 1; nel <= 2; nel++) g.push_back({nel, end, tol, tr});
    return g;
}
static std::vector<Group> quick_groups() {  // quick tier, 2-section paths (mirror() itself: full product of the 1-section stage)
    return {{1, 0, 0, 0}, {2, 1, 1, 1}, {2, 3, 1, 3}, {1, 2, 0, 4}};
}
static const char* QUICK_DESC = "{(1 el,flush,1e-2,identity),(2,halfwidth,1e-3,rotate),(2,round,1e-3,scale2),(1,extended,1e-2,transform)}";

typedef std::vector<std::pair<int, int>> WO;
static WO all_wo() { WO v; for (int wk = 0; wk < 4; wk++) for (int ok = 0; ok < 4; ok++) v.push_back({wk, ok}); return v; }
static WO diag_wo() { return {{0, 0}, {1, 2}, {2, 3}, {3, 1}}; }
static bool stage(const std::string& sub, int nsec, const std::vector<Group>& groups, const std::string& gdesc, const WO& wo = all_wo()) {
    auto seqs = sequences(nsec);
    int64_t n = (int64_t)seqs.size() * (int64_t)groups.size();
    auto mk = [&](int64_t i, int wk, int ok) {
        Case c;
        c.seq = seqs[i / groups.size()];
        const Group& g = groups[i % groups.size()];
        c.nel = g.nel; c.end = g.end; c.tol = g.tol; c.tr = g.tr; c.wk = wk; c.ok = ok;
        return c;
    };
    auto body = [&](int64_t i) {
        for (auto& p : wo) run_case(mk(i, p.first, p.second));
    };
    PFOptions opt;
    opt.case_timeout_s = R->thorough() ? 10 : 8;  // x20 when re-run alone; a group is 4..16 paths of ~5 ms each
    opt.sub = sub;
    bool ok = parallel_for(*R, n, body, [&](int64_t i) { return case_json(mk(i, 0, 0)); }, [&](int64_t i) { return replay_of(mk(i, 0, 0)) + (wo.size() == 16 ? " all_wo=1" : " all_wo=2"); }, opt);
    R->bound(sub, fmt("every sequence of %d section(s) from 15 kinds x joints {tangent,+45,-90} (%zu sequences) x %s x %s", nsec, seqs.size(), wo.size() == 16 ? "width{const,linear,smooth,parametric} x offset{0,1.5,linear,smooth}" : "(width,offset) in {(const,0),(linear,linear),(smooth,smooth),(parametric,1.5)}", gdesc.c_str()), ok, n * (int64_t)wo.size());
    return ok;
}

// PATH-record extension stage: simple paths, constant width, Extended ends with start x end over
// {0, half width exactly, 0.75 half width, -0.25 half width} (per element), offsets {0, 1.5}, 1|2 elements,
// transforms that scale the extensions {identity, scale 2, transform(1.5, x_reflection, ...)}
static bool stage_ext(const std::string& sub, int nsec) {
    auto seqs = sequences(nsec);
    const int trs[3] = {0, 3, 4};
    int64_t n = (int64_t)seqs.size() * 6;
    auto mk = [&](int64_t i, int j) {
        Case c;
        c.seq = seqs[i / 6];
        c.nel = 1 + (int)(i % 6) / 3; c.tr = trs[i % 3]; c.end = 2; c.tol = 0; c.wk = 0;
        c.ok = j / 16; c.eu = (j % 16) / 4; c.ev = j % 4;
        return c;
    };
    auto body = [&](int64_t i) { for (int j = 0; j < 32; j++) run_case(mk(i, j)); };
    PFOptions opt;
    opt.case_timeout_s = R->thorough() ? 10 : 8;
    opt.sub = sub;
    bool ok = parallel_for(*R, n, body, [&](int64_t i) { return case_json(mk(i, 0)); }, [&](int64_t i) { return replay_of(mk(i, 0)) + " all_ext=1"; }, opt);
    R->bound(sub, fmt("PATH records (GDSII and OASIS) of every constant-width simple path of %d section(s) (%zu sequences) x extended ends start x end over {0, half width, 0.75 half width, -0.25 half width} (16 pairs) x offset{0,1.5} x elements{1,2} x transform{identity,scale2,transform()}", nsec, seqs.size()), ok, n * 32);
    return ok;
}

static Case parse_case(const Run& run) {
    Case c;
    std::string s = run.rarg("seq");
    size_t p = 0;
    while (p < s.size()) {
        size_t e = s.find(',', p);
        if (e == std::string::npos) e = s.size();
        std::string it = s.substr(p, e - p);
        size_t d = it.find('.');
        c.seq.push_back({atoi(it.substr(0, d).c_str()), d == std::string::npos ? 0 : atoi(it.substr(d + 1).c_str())});
        p = e + 1;
    }
    c.wk = atoi(run.rarg("wk").c_str()); c.ok = atoi(run.rarg("ok").c_str()); c.nel = atoi(run.rarg("nel").c_str());
    c.end = atoi(run.rarg("end").c_str()); c.tol = atoi(run.rarg("tol").c_str()); c.tr = atoi(run.rarg("tr").c_str());
    if (c.nel < 1) c.nel = 1;
    if (!run.rarg("eu").empty()) { c.eu = atoi(run.rarg("eu").c_str()); c.ev = atoi(run.rarg("ev").c_str()); }
    return c;
}

int main(int argc, char** argv) {
    Run run("C08", argc, argv);
    R = &run;
    error_logger = NULL;
    PROFILE = getenv("C08_PROFILE") != NULL;
    if (!run.thorough()) { NS = 2000; QUICK_TRIM = 1; }  // also for replays of quick-tier cases
    if (run.replaying() && !run.rarg("long").empty()) {
        setenv("C08_VERBOSE", "1", 1);
        c08long::LongCase lc = {atoi(run.rarg("long").c_str()), atoi(run.rarg("target").c_str()), std::max(1, atoi(run.rarg("nel").c_str())), atoi(run.rarg("ok").c_str())};
        fprintf(stderr, "replaying %s\n  %s\n", c08long::lc_replay(lc).c_str(), c08long::lc_json(lc).c_str());
        c08long::run_long(&run, lc);
        return run.finish();
    }
    if (run.replaying()) {
        VERBOSE = true;
        Case c = parse_case(run);
        if (run.rarg("all_wo") == "1" || run.rarg("all_wo") == "2") { for (auto& p : (run.rarg("all_wo") == "1" ? all_wo() : diag_wo())) { c.wk = p.first; c.ok = p.second; run_case(c); } }
        else if (run.rarg("all_ext") == "1") { for (int j = 0; j < 32; j++) { c.ok = j / 16; c.eu = (j % 16) / 4; c.ev = j % 4; run_case(c); } }
        else { fprintf(stderr, "replaying %s\n  %s\n", replay_of(c).c_str(), case_json(c).c_str()); run_case(c); }
        return run.finish();
    }
    if (getenv("C08_ONLY_EXT")) {  // development aid: the PATH-extension stages alone
        stage_ext("pathext1", 1);
        if (run.thorough()) stage_ext("pathext2", 2);
        return run.finish();
    }
    const std::string full = "elements{1,2} x end{flush,halfwidth,extended,round} x tolerance{1e-2,1e-3} x transform{identity,rotate,mirror,scale2,transform()}";
    run.note("oracle: centre curve T(s(u)+o(u)n(u)) from own section formulas at 4000 (quick tier: 2000) parameters per section; g = 4 x tolerance; max_evals 1000; scale_width = true; interpolation(): Hobby control points read back (checked for interpolation, start angle and G1), widths/offsets constant across it");
    if (!run.thorough()) {
        std::vector<Group> half;
        for (auto& g : full_groups()) if ((g.nel == 1) == (g.tol == 0)) half.push_back(g);
        stage("seq1", 1, half, "(elements,tolerance){(1,1e-2),(2,1e-3)} x end{flush,halfwidth,extended,round} x transform{identity,rotate,mirror,scale2,transform()}");
    } else stage("seq1", 1, full_groups(), full);
    stage_ext("pathext1", 1);
    c08long::stage_long(&run);
    if (!run.thorough()) {
        stage("seq2", 2, quick_groups(), QUICK_DESC);
    } else {
        stage("seq2", 2, full_groups(), full);
        if (!run.out_of_time()) stage_ext("pathext2", 2);
        if (!run.out_of_time()) stage("seq3", 3, quick_groups(), QUICK_DESC, diag_wo());
    }
    return run.finish();
}
