// C20 — containers, property lists and sorting behave as their abstract models.
// E1 (bfs over histories, lock-step reference model) for Map/Set/TagMap/StyleMap, property lists
// and Array; E2 (exhaustive enumeration) for sort/intro_sort/heap_sort.   DESIGN.md section 2/C20.
#include <gdstk/gdstk.hpp>
#include <gdstk/sort.hpp>
#include <gdstk/tagmap.hpp>

#include <map>
#include <memory>

#include "vf.hpp"

using namespace gdstk;
using namespace vf;

static Run* R;

// =============================================================== hash tables
// Key alphabet computed from the real hash function so that keys collide and wrap (slot cap-1 and 0).
// First probe position ("home slot") of a key in a table of a given capacity, asked from the table type itself: an EMPTY table of
// that capacity answers get_slot(key) with the home slot.  Nothing here assumes which hash function a table type uses.
template <class Tbl>
static const Tbl& empty_table(uint64_t cap) {
    static std::map<uint64_t, Tbl*> cache;
    auto it = cache.find(cap);
    if (it != cache.end()) return *it->second;
    Tbl* t = new Tbl();
    memset((void*)t, 0, sizeof(Tbl));
    t->resize(cap);
    cache[cap] = t;
    return *t;
}
template <class Tbl, class K>
static uint64_t home_of(uint64_t cap, K key) {
    const Tbl& e = empty_table<Tbl>(cap);
    return (uint64_t)(e.get_slot(key) - e.items);
}
struct KeySearch {
    std::vector<std::string> skeys;  // string keys (Map)
    std::vector<Tag> tk[3];          // tag keys per table type: 0 Set<Tag>, 1 TagMap, 2 StyleMap (each searched with ITS home function)
};
template <class Tbl>
static std::vector<Tag> find_tag_keys(int want, const int* plan) {
    std::vector<Tag> tcand, out;
    for (uint32_t t = 0; t < 8; t++)
        for (uint32_t l = 0; l < 256; l++) tcand.push_back(make_tag(l, t));
    std::vector<bool> tused(tcand.size());
    for (int i = 0; i < want; i++) {
        bool found = false;
        for (size_t c = 0; c < tcand.size() && !found; c++)
            if (!tused[c] && tcand[c] != 0 && (int)home_of<Tbl>(8, tcand[c]) == plan[i]) { tused[c] = true; out.push_back(tcand[c]); found = true; }
        for (size_t c = 0; c < tcand.size() && !found; c++)   // no candidate with the planned home slot: any unused one
            if (!tused[c] && tcand[c] != 0) { tused[c] = true; out.push_back(tcand[c]); found = true; }
    }
    // the numerically zero tag (layer 0, type 0) is a legal key of every table; it is the value an unused slot holds, so it
    // is always part of the alphabet (as the last key, whatever its home slot)
    if (!out.empty() && std::find(out.begin(), out.end(), (Tag)0) == out.end()) out.back() = 0;
    return out;
}
static KeySearch find_keys(int want) {
    KeySearch ks;
    // wanted home slots modulo 8, in order: three at 7 (wrap), two at 0, two at 6, then any at 7 mod 16
    static const int plan[] = {7, 7, 0, 7, 0, 6, 6, 7, 0, 5, 7, 0};
    std::vector<std::string> cand;
    for (char a = 'a'; a <= 'z'; a++) cand.push_back(std::string(1, a));
    for (char a = 'a'; a <= 'z'; a++)
        for (char b = 'a'; b <= 'z'; b++) cand.push_back(std::string(1, a) + b);
    std::vector<bool> sused(cand.size());
    auto sh = [&](const std::string& k, uint64_t cap) { return (int)home_of<Map<uint64_t>>(cap, k.c_str()); };
    for (int i = 0; i < want; i++) {
        // keys 1 and 4 are EXTENSIONS of keys 0 and 2 (same home slot): a look-up that compares only a prefix, or only up to the
        // length of one of the two strings, confuses them exactly when they share a probe chain
        bool extended = false;
        if ((i == 1 || i == 4) && (int)ks.skeys.size() > (i == 1 ? 0 : 2)) {
            const std::string& base = ks.skeys[i == 1 ? 0 : 2];
            for (int pass = 0; pass < 2 && !extended; pass++)   // prefer an extension that collides modulo 16 as well
                for (size_t c = 0; c < cand.size() && !extended; c++)
                    if (!sused[c] && cand[c].size() > base.size() && cand[c].compare(0, base.size(), base) == 0 && sh(cand[c], 8) == plan[i] &&
                        (pass == 1 || sh(cand[c], 16) == sh(base, 16))) { sused[c] = true; ks.skeys.push_back(cand[c]); extended = true; }
        }
        for (size_t c = 0; c < cand.size() && !extended; c++)
            if (!sused[c] && sh(cand[c], 8) == plan[i]) { sused[c] = true; ks.skeys.push_back(cand[c]); extended = true; }
        for (size_t c = 0; c < cand.size() && !extended; c++)
            if (!sused[c]) { sused[c] = true; ks.skeys.push_back(cand[c]); extended = true; }
    }
    ks.tk[0] = find_tag_keys<Set<Tag>>(want, plan);
    ks.tk[1] = find_tag_keys<TagMap>(want, plan);
    ks.tk[2] = find_tag_keys<StyleMap>(want, plan);
    return ks;
}
static KeySearch KS;
static std::string tagstr(Tag t) { return fmt("%u/%u", get_layer(t), get_type(t)); }

// Each adapter exposes one real table through key/value *indices* (value index 0 = absent).
struct MapAd {
    typedef Map<uint64_t> T;
    static const char* name() { return "map"; }
    static uint64_t val(int vi) { return 100 + vi; }
    static void set(T& t, int k, int vi) { t.set(KS.skeys[k].c_str(), val(vi)); }
    static bool del(T& t, int k) { return t.del(KS.skeys[k].c_str()); }
    static int lookup(const T& t, int k, std::string& err) {
        bool h = t.has_key(KS.skeys[k].c_str());
        uint64_t v = t.get(KS.skeys[k].c_str());
        if (!h) { if (v != 0) err = "get of absent key != T{}"; return 0; }
        if (v != 101 && v != 102) { err = "get returned foreign value"; return -1; }
        return (int)(v - 100);
    }
    static int key_index(const char* k) { for (size_t i = 0; i < KS.skeys.size(); i++) if (KS.skeys[i] == k) return (int)i; return -1; }
    static void iterate(const T& t, std::vector<std::pair<int, int>>& out, std::vector<int>& arr) {
        for (MapItem<uint64_t>* it = t.next(NULL); it; it = t.next(it)) out.push_back({key_index(it->key), (int)(it->value - 100)});
        // to_array APPENDS to the caller's array: two entries are already there and must survive in place
        Array<uint64_t> a = {};
        a.append(7); a.append(9);
        t.to_array(a);
        if (a.count < 2 || a[0] != 7 || a[1] != 9 || a.count != 2 + t.count) arr.push_back(-99);
        for (uint64_t i = 2; i < a.count; i++) arr.push_back((int)(a[i] - 100));
        a.clear();
    }
    static bool occupied(const T& t, uint64_t s) { return t.items[s].key != NULL; }
    static uint64_t home(const T& t, uint64_t s) { return home_of<T>(t.capacity, (const char*)t.items[s].key); }
    static std::string slot(const T& t, uint64_t s) { return std::string(t.items[s].key) + "=" + std::to_string(t.items[s].value - 100); }
    static bool same_key(const T& t, uint64_t a, uint64_t b) { return strcmp(t.items[a].key, t.items[b].key) == 0; }
};
struct SetAd {
    typedef Set<Tag> T;
    static const char* name() { return "set"; }
    static void set(T& t, int k, int) { t.add(KS.tk[0][k]); }
    static bool del(T& t, int k) { return t.del(KS.tk[0][k]); }
    static int lookup(const T& t, int k, std::string&) { return t.has_value(KS.tk[0][k]) ? 1 : 0; }
    static int key_index(Tag k) { for (size_t i = 0; i < KS.tk[0].size(); i++) if (KS.tk[0][i] == k) return (int)i; return -1; }
    static void iterate(const T& t, std::vector<std::pair<int, int>>& out, std::vector<int>& arr) {
        for (SetItem<Tag>* it = t.next(NULL); it; it = t.next(it)) out.push_back({key_index(it->value), 1});
        Array<Tag> a = {};
        const Tag s0 = make_tag(4000, 1), s1 = make_tag(4001, 2);   // entries already in the caller's array: to_array appends
        a.append(s0); a.append(s1);
        t.to_array(a);
        if (a.count < 2 || a[0] != s0 || a[1] != s1 || a.count != 2 + t.count) arr.push_back(-99);
        for (uint64_t i = 2; i < a.count; i++) arr.push_back(key_index(a[i]) >= 0 ? 1 : -1);
        a.clear();
    }
    static bool occupied(const T& t, uint64_t s) { return t.items[s].valid; }
    static uint64_t home(const T& t, uint64_t s) { return home_of<T>(t.capacity, t.items[s].value); }
    static std::string slot(const T& t, uint64_t s) { return tagstr(t.items[s].value); }
    static bool same_key(const T& t, uint64_t a, uint64_t b) { return t.items[a].value == t.items[b].value; }
};
static Tag tm_val(int vi) { return vi == 1 ? make_tag(1000, 1) : make_tag(1001, 2); }
struct TagMapAd {
    typedef TagMap T;
    static const char* name() { return "tagmap"; }
    static void set(T& t, int k, int vi) { t.set(KS.tk[1][k], tm_val(vi)); }
    static bool del(T& t, int k) { return t.del(KS.tk[1][k]); }
    static int lookup(const T& t, int k, std::string& err) {
        bool h = t.has_key(KS.tk[1][k]);
        Tag v = t.get(KS.tk[1][k]);
        if (!h) { if (v != KS.tk[1][k]) err = "get of absent key != key"; return 0; }
        if (v == tm_val(1)) return 1;
        if (v == tm_val(2)) return 2;
        err = "get returned foreign value";
        return -1;
    }
    static int key_index(Tag k) { for (size_t i = 0; i < KS.tk[1].size(); i++) if (KS.tk[1][i] == k) return (int)i; return -1; }
    static void iterate(const T& t, std::vector<std::pair<int, int>>& out, std::vector<int>& arr) {
        for (TagMapItem* it = t.next(NULL); it; it = t.next(it)) {
            int vi = it->value == tm_val(1) ? 1 : it->value == tm_val(2) ? 2 : -1;
            out.push_back({key_index(it->key), vi});
            arr.push_back(vi);
        }
    }
    static bool occupied(const T& t, uint64_t s) { return t.items[s].key != t.items[s].value; }
    static uint64_t home(const T& t, uint64_t s) { return home_of<T>(t.capacity, t.items[s].key); }
    static std::string slot(const T& t, uint64_t s) { return tagstr(t.items[s].key) + "=" + (t.items[s].value == tm_val(1) ? "1" : t.items[s].value == tm_val(2) ? "2" : "?"); }
    static bool same_key(const T& t, uint64_t a, uint64_t b) { return t.items[a].key == t.items[b].key; }
};
struct StyleAd {
    typedef StyleMap T;
    static const char* name() { return "stylemap"; }
    static const char* val(int vi) { return vi == 1 ? "s1" : "style-two"; }
    static void set(T& t, int k, int vi) { t.set(KS.tk[2][k], val(vi)); }
    static bool del(T& t, int k) { return t.del(KS.tk[2][k]); }
    static int vidx(const char* v) { return !v ? 0 : !strcmp(v, val(1)) ? 1 : !strcmp(v, val(2)) ? 2 : -1; }
    static int lookup(const T& t, int k, std::string& err) {
        int v = vidx(t.get(KS.tk[2][k]));
        if (v < 0) err = "get returned foreign value";
        return v;
    }
    static int key_index(Tag k) { for (size_t i = 0; i < KS.tk[2].size(); i++) if (KS.tk[2][i] == k) return (int)i; return -1; }
    static void iterate(const T& t, std::vector<std::pair<int, int>>& out, std::vector<int>& arr) {
        for (Style* it = t.next(NULL); it; it = t.next(it)) { out.push_back({key_index(it->tag), vidx(it->value)}); arr.push_back(vidx(it->value)); }
    }
    static bool occupied(const T& t, uint64_t s) { return t.items[s].value != NULL; }
    static uint64_t home(const T& t, uint64_t s) { return home_of<T>(t.capacity, t.items[s].tag); }
    static std::string slot(const T& t, uint64_t s) { return tagstr(t.items[s].tag) + "=" + std::to_string(vidx(t.items[s].value)); }
    static bool same_key(const T& t, uint64_t a, uint64_t b) { return t.items[a].tag == t.items[b].tag; }
};

template <class Ad>
struct TableSys {
    typedef typename Ad::T T;
    struct Obj { T t; std::vector<int> model; bool bad = false; bool relocated = false, wrapped = false, grew_after_del = false, deleted = false; };
    int nkeys, nvals;
    bool is_set, is_tagmap;
    std::string sub;
    TableSys(int nk) : nkeys(nk) {
        is_set = !strcmp(Ad::name(), "set");
        is_tagmap = !strcmp(Ad::name(), "tagmap");
        nvals = is_set ? 1 : 2;
        sub = std::string("table.") + Ad::name();
    }
    // ops: [0, nkeys*nvals) set ; then nkeys del ; then copy, clear, resize8, resize16, resize2x, (tagmap) nkeys set(k,k)
    int nops() { return nkeys * nvals + nkeys + 5 + (is_tagmap ? nkeys : 0); }
    std::string op_name(int op) {
        if (op < nkeys * nvals) return fmt("set(k%d,v%d)", op / nvals, op % nvals + 1);
        op -= nkeys * nvals;
        if (op < nkeys) return fmt("del(k%d)", op);
        op -= nkeys;
        const char* n[] = {"copy_from->explore copy", "clear", "resize(8)", "resize(16)", "resize(2*count)"};
        if (op < 5) return n[op];
        return fmt("set(k%d,k%d) [documented delete]", op - 5, op - 5);
    }
    Obj* make() { Obj* o = new Obj(); memset(&o->t, 0, sizeof(T)); o->model.assign(nkeys, 0); return o; }
    void destroy(Obj* o) { o->t.clear(); delete o; }
    bool poisoned(Obj& o) { return o.bad; }
    std::string canon(Obj& o) {
        std::string s = fmt("cap=%llu n=%llu [", (unsigned long long)o.t.capacity, (unsigned long long)o.t.count);
        for (uint64_t i = 0; i < o.t.capacity; i++) s += (i ? " " : "") + (Ad::occupied(o.t, i) ? Ad::slot(o.t, i) : std::string("-"));
        return s + "]";
    }
    std::vector<uint64_t> layout(const T& t) {  // slot of each occupied entry keyed by hash-home (for relocation detection)
        std::vector<uint64_t> v;
        for (uint64_t i = 0; i < t.capacity; i++) v.push_back(Ad::occupied(t, i) ? 1 : 0);
        return v;
    }
    void fail(Obj& o, const std::vector<int>& hist, int op, const std::string& cls, const std::string& detail) {
        o.bad = true;
        std::vector<int> h = hist;
        h.push_back(op);
        R->violation(sub, cls, {{"op", jstr(op_name(op))}}, jobj({{"history", describe_hist(*this, h)}, {"state", jstr(canon(o))}}), detail,
                     "sub=" + sub + " nkeys=" + std::to_string(nkeys) + " hist=" + hist_str(h));
    }
    bool apply(Obj& o, int op, const std::vector<int>& hist, bool check) {
        T& t = o.t;
        int code = op;
        bool expect_ret = false, got_ret = false, has_ret = false;
        uint64_t cap_before = t.capacity;
        if (code < nkeys * nvals) {
            int k = code / nvals, vi = code % nvals + 1;
            Ad::set(t, k, vi);
            o.model[k] = vi;
            if (o.deleted && t.capacity > cap_before && cap_before > 0) o.grew_after_del = true;
        } else if ((code -= nkeys * nvals) < nkeys) {
            has_ret = true;
            expect_ret = o.model[code] != 0;
            // relocation detection: number of occupied slots that change position
            std::vector<std::string> before;
            for (uint64_t i = 0; i < t.capacity; i++) before.push_back(Ad::occupied(t, i) ? Ad::slot(t, i) : "");
            got_ret = Ad::del(t, code);
            o.model[code] = 0;
            int moved = 0;
            for (uint64_t i = 0; i < t.capacity && i < before.size(); i++)
                if (Ad::occupied(t, i) && before[i] != Ad::slot(t, i)) moved++;
            if (moved) o.relocated = true;
            if (got_ret) o.deleted = true;
        } else if ((code -= nkeys) < 5) {
            if (code == 0) {
                T c;
                memset(&c, 0, sizeof c);
                c.copy_from(t);
                t.clear();
                t = c;
            } else if (code == 1) {
                t.clear();
                o.model.assign(nkeys, 0);
            } else {
                uint64_t n = code == 2 ? 8 : code == 3 ? 16 : 2 * t.count;
                if (n <= t.count || n == 0) return false;  // resize needs room (precondition of get_slot)
                if (n == t.capacity) return false;
                t.resize(n);
            }
        } else {
            if (!is_tagmap) return false;
            int k = code - 5;
            ((TagMap&)t).set(KS.tk[1][k], KS.tk[1][k]);
            o.model[k] = 0;
        }
        if (!check) return true;
        // ---- oracle
        if (has_ret && got_ret != expect_ret) { fail(o, hist, op, "return", fmt("del returned %d, model says %d", got_ret, expect_ret)); return true; }
        uint64_t occ = 0;
        for (uint64_t i = 0; i < t.capacity; i++) if (Ad::occupied(t, i)) occ++;
        int64_t mcount = 0;
        for (int v : o.model) if (v) mcount++;
        if (occ != t.count || (int64_t)t.count != mcount) { fail(o, hist, op, "count", fmt("count=%llu occupied=%llu model=%lld", (unsigned long long)t.count, (unsigned long long)occ, (long long)mcount)); return true; }
        // open-addressing invariant: every entry reachable from its home slot without crossing an empty slot; no duplicates
        for (uint64_t s = 0; s < t.capacity; s++) {
            if (!Ad::occupied(t, s)) continue;
            uint64_t h = Ad::home(t, s);
            if (h > s) o.wrapped = true;
            for (uint64_t p = h; p != s; p = (p + 1) % t.capacity)
                if (!Ad::occupied(t, p)) { fail(o, hist, op, "probe-chain", fmt("entry in slot %llu (home %llu) is cut off by empty slot %llu", (unsigned long long)s, (unsigned long long)h, (unsigned long long)p)); return true; }
            for (uint64_t q = s + 1; q < t.capacity; q++)
                if (Ad::occupied(t, q) && Ad::same_key(t, s, q)) { fail(o, hist, op, "duplicate", "same key stored twice"); return true; }
        }
        for (int k = 0; k < nkeys; k++) {
            std::string err;
            int v = Ad::lookup(t, k, err);
            if (!err.empty() || v != o.model[k]) { fail(o, hist, op, "lookup", fmt("key k%d: table says %d, model %d %s", k, v, o.model[k], err.c_str())); return true; }
        }
        std::vector<std::pair<int, int>> it;
        std::vector<int> arr;
        Ad::iterate(t, it, arr);
        std::sort(it.begin(), it.end());
        std::vector<std::pair<int, int>> want;
        std::vector<int> wantarr;
        for (int k = 0; k < nkeys; k++) if (o.model[k]) { want.push_back({k, o.model[k]}); wantarr.push_back(o.model[k]); }
        std::sort(arr.begin(), arr.end());
        std::sort(wantarr.begin(), wantarr.end());
        if (it != want) { fail(o, hist, op, "iteration", "next() iteration does not yield the model's entries"); return true; }
        if (arr != wantarr) { fail(o, hist, op, "to_array", "to_array does not append exactly the model's values to the caller's array (entries already there must stay)"); return true; }
        R->count("cases");
        if (o.relocated || o.wrapped || o.grew_after_del) R->count("nontrivial");
        if (o.relocated) R->count("tbl_hist_with_relocating_delete");
        if (o.wrapped) R->count("tbl_hist_with_wraparound");
        if (o.grew_after_del) R->count("tbl_hist_growth_after_delete");
        return true;
    }
};

template <class Ad>
static void run_table(int nkeys, int depth) {
    TableSys<Ad> sys(nkeys);
    bfs(*R, sys, sys.sub, depth);
}

// =============================================================== property lists
struct PVal {
    int type;  // 0 uint 1 int 2 real 3 string
    uint64_t u; int64_t i; double r; std::string s;
    bool operator==(const PVal& o) const { return type == o.type && (type == 0 ? u == o.u : type == 1 ? i == o.i : type == 2 ? r == o.r : s == o.s); }
    std::string str() const {
        if (type == 0) return "u" + std::to_string(u);
        if (type == 1) return "i" + std::to_string(i);
        if (type == 2) return fmt("r%g", r);
        std::string o = "s'";
        for (unsigned char c : s) o += (c >= 0x20 && c < 0x7f) ? std::string(1, c) : fmt("\\x%02x", c);
        return o + "'";
    }
};
struct PEntry { std::string name; std::vector<PVal> vals; };
static const char* GDSN = "S_GDS_PROPERTY";
struct PropSys {
    struct Obj { Property* p = NULL; std::vector<PEntry> m; bool bad = false; bool rm_first = false, rm_last = false, rm_only = false, rm_all = false; };
    std::string sub = "proplist";
    const char* names[3] = {"a", "b", GDSN};
    // value alphabet
    static PVal value(int k) {
        PVal v{};
        switch (k) {
            case 0: v.type = 0; v.u = 1; break;
            case 1: v.type = 1; v.i = -1; break;
            case 2: v.type = 2; v.r = 0.5; break;
            case 3: v.type = 3; v.s = "s"; break;
            case 5: v.type = 0; v.u = 65537; break;
            case 6: v.type = 1; v.i = 1; break;      // a SIGNED 1 under the GDS property name: [Integer 1, String] is not a GDS property  // = 1 (mod 2^16): a GDS-shaped entry made through the generic calls whose attribute is not a uint16
            default: v.type = 3; v.s = std::string("\0\xff", 2); break;
        }
        return v;
    }
    // op table
    struct Op { int kind, a, b, c; };
    std::vector<Op> ops;
    PropSys() {
        for (int n = 0; n < 3; n++)
            for (int v = 0; v < 7; v++) {
                if (n > 0 && (v == 1 || v == 2)) continue;  // full value alphabet on name "a" only
                if (v >= 5 && n != 2) continue;             // the wide attribute and the signed 1 only under the GDS property name
                for (int cn = 0; cn < 2; cn++) ops.push_back({0, n, v, cn});
            }
        for (int at = 1; at <= 2; at++) for (int s = 0; s < 2; s++) ops.push_back({1, at, s, 0});
        for (int n = 0; n < 3; n++) for (int all = 0; all < 2; all++) ops.push_back({2, n, all, 0});
        for (int at = 1; at <= 2; at++) ops.push_back({3, at, 0, 0});
        ops.push_back({4, 0, 0, 0});
        ops.push_back({5, 0, 0, 0});
    }
    int nops() { return (int)ops.size(); }
    std::string op_name(int i) {
        Op o = ops[i];
        switch (o.kind) {
            case 0: return fmt("set_property(%s,%s,create_new=%d)", names[o.a], value(o.b).str().c_str(), o.c);
            case 1: return fmt("set_gds_property(%d,%s)", o.a, o.b ? "yy" : "x");
            case 2: return fmt("remove_property(%s,all=%d)", names[o.a], o.b);
            case 3: return fmt("remove_gds_property(%d)", o.a);
            case 4: return "properties_copy->explore copy";
            default: return "properties_clear";
        }
    }
    Obj* make() { return new Obj(); }
    void destroy(Obj* o) { properties_clear(o->p); delete o; }
    bool poisoned(Obj& o) { return o.bad; }
    static std::vector<PEntry> dump(Property* p) {
        std::vector<PEntry> out;
        for (; p; p = p->next) {
            PEntry e;
            e.name = p->name;
            for (PropertyValue* v = p->value; v; v = v->next) {
                PVal x{};
                x.type = (int)v->type;
                if (v->type == PropertyType::UnsignedInteger) x.u = v->unsigned_integer;
                else if (v->type == PropertyType::Integer) x.i = v->integer;
                else if (v->type == PropertyType::Real) x.r = v->real;
                else x.s.assign((const char*)v->bytes, v->count);
                e.vals.push_back(x);
            }
            out.push_back(e);
        }
        return out;
    }
    static std::string render(const std::vector<PEntry>& m) {
        std::string s;
        for (auto& e : m) {
            s += e.name + ":";
            for (auto& v : e.vals) s += v.str() + ",";
            s += ";";
        }
        return s;
    }
    std::string canon(Obj& o) { return render(dump(o.p)); }
    static bool is_gds(const PEntry& e) { return e.name == GDSN && e.vals.size() >= 2 && e.vals[0].type == 0 && e.vals[1].type == 3; }
    void fail(Obj& o, const std::vector<int>& hist, int op, const std::string& cls, const std::string& detail) {
        o.bad = true;
        std::vector<int> h = hist;
        h.push_back(op);
        R->violation(sub, cls, {{"op", jstr(op_name(op))}}, jobj({{"history", describe_hist(*this, h)}, {"impl", jstr(canon(o))}, {"model", jstr(render(o.m))}}), detail,
                     "sub=" + sub + " hist=" + hist_str(h));
    }
    static bool vals_equal(PropertyValue* v, const std::vector<PVal>* want) {
        if (!want) return v == NULL;
        std::vector<PVal> got;
        Property tmp = {(char*)"", v, NULL};
        got = dump(&tmp)[0].vals;
        return got == *want;
    }
    bool apply(Obj& o, int opi, const std::vector<int>& hist, bool check) {
        Op op = ops[opi];
        auto& m = o.m;
        int64_t ret_impl = -1, ret_model = -1;
        switch (op.kind) {
            case 0: {
                PVal v = value(op.b);
                const char* n = names[op.a];
                bool cn = op.c;
                if (v.type == 0) set_property(o.p, n, v.u, cn);
                else if (v.type == 1) set_property(o.p, n, v.i, cn);
                else if (v.type == 2) set_property(o.p, n, v.r, cn);
                else if (op.b == 3) set_property(o.p, n, v.s.c_str(), cn);
                else set_property(o.p, n, (const uint8_t*)v.s.data(), (uint64_t)v.s.size(), cn);
                size_t i = 0;
                if (!cn) for (; i < m.size() && m[i].name != n; i++) {}
                if (cn || i == m.size()) m.insert(m.begin(), PEntry{n, {v}});
                else m[i].vals.insert(m[i].vals.begin(), v);
            } break;
            case 1: {
                const char* s = op.b ? "yy" : "x";
                set_gds_property(o.p, (uint16_t)op.a, s);
                PVal sv{}; sv.type = 3; sv.s = std::string(s) + std::string(1, '\0');
                size_t i = 0;
                for (; i < m.size() && !(is_gds(m[i]) && m[i].vals[0].u == (uint64_t)op.a); i++) {}
                if (i < m.size()) m[i].vals[1] = sv;
                else { PVal a{}; a.type = 0; a.u = op.a; m.insert(m.begin(), PEntry{GDSN, {a, sv}}); }
            } break;
            case 2: {
                const char* n = names[op.a];
                size_t matching = 0, first = m.size(), last = 0;
                for (size_t i = 0; i < m.size(); i++) if (m[i].name == n) { matching++; if (first == m.size()) first = i; last = i; }
                if (matching) {
                    if (first == 0) o.rm_first = true;
                    if ((op.b ? last : first) == m.size() - 1) o.rm_last = true;
                    if (m.size() == 1) o.rm_only = true;
                    if (op.b && matching == m.size()) o.rm_all = true;
                }
                ret_impl = (int64_t)remove_property(o.p, n, op.b);
                ret_model = 0;
                for (size_t i = 0; i < m.size();) {
                    if (m[i].name == n && (op.b || ret_model == 0)) { m.erase(m.begin() + i); ret_model++; }
                    else i++;
                }
            } break;
            case 3: {
                ret_impl = remove_gds_property(o.p, (uint16_t)op.a);
                ret_model = 0;
                for (size_t i = 0; i < m.size(); i++)
                    if (is_gds(m[i]) && m[i].vals[0].u == (uint64_t)op.a) { m.erase(m.begin() + i); ret_model = 1; break; }
            } break;
            case 4: {
                Property* c = properties_copy(o.p);
                if (check) {  // independence: no node shared
                    for (Property *a = o.p, *b = c; a && b; a = a->next, b = b->next) {
                        if (a == b || a->name == b->name) { fail(o, hist, opi, "copy-shares", "copy shares a node or name buffer with its source"); break; }
                        for (PropertyValue *x = a->value, *y = b->value; x && y; x = x->next, y = y->next)
                            if (x == y || (x->type == PropertyType::String && x->count && x->bytes == y->bytes)) { fail(o, hist, opi, "copy-shares", "copy shares a value with its source"); break; }
                    }
                }
                properties_clear(o.p);
                o.p = c;
            } break;
            default:
                properties_clear(o.p);
                m.clear();
        }
        if (!check || o.bad) return true;
        if (ret_impl != ret_model) { fail(o, hist, opi, "return", fmt("returned %lld, model %lld", (long long)ret_impl, (long long)ret_model)); return true; }
        if (!(render(dump(o.p)) == render(m))) { fail(o, hist, opi, "list", "list differs from the ordered-multimap model"); return true; }
        for (int n = 0; n < 3; n++) {
            const std::vector<PVal>* want = NULL;
            for (auto& e : m) if (e.name == names[n]) { want = &e.vals; break; }
            if (!vals_equal(get_property(o.p, names[n]), want)) { fail(o, hist, opi, "get_property", fmt("get_property(%s) differs from model", names[n])); return true; }
        }
        for (int at = 1; at <= 2; at++) {
            const PVal* want = NULL;
            for (auto& e : m) if (is_gds(e) && e.vals[0].u == (uint64_t)at) { want = &e.vals[1]; break; }
            PropertyValue* g = get_gds_property(o.p, (uint16_t)at);
            bool ok = want ? (g && g->type == PropertyType::String && std::string((const char*)g->bytes, g->count) == want->s) : g == NULL;
            if (!ok) { fail(o, hist, opi, "get_gds_property", fmt("get_gds_property(%d) differs from model", at)); return true; }
        }
        R->count("cases");
        if (o.rm_first || o.rm_last || o.rm_only || o.rm_all) R->count("nontrivial");
        if (o.rm_first) R->count("prop_hist_remove_first");
        if (o.rm_last) R->count("prop_hist_remove_last");
        if (o.rm_only) R->count("prop_hist_remove_only");
        if (o.rm_all) R->count("prop_hist_remove_all");
        return true;
    }
};

// =============================================================== Array primitives
struct ArraySys {
    struct Obj { Array<int> a = {}; std::vector<int> m; bool bad = false; };
    std::string sub = "array";
    struct Op { int kind, x, y; };
    std::vector<Op> ops;
    ArraySys() {
        for (int v = 0; v < 3; v++) ops.push_back({0, v, 0});                                   // append
        for (int pos = 0; pos < 4; pos++) for (int v = 0; v < 2; v++) ops.push_back({1, pos, v});  // insert
        for (int pos = 0; pos < 3; pos++) ops.push_back({2, pos, 0});                            // remove
        for (int pos = 0; pos < 3; pos++) ops.push_back({3, pos, 0});                            // remove_unordered
        for (int v = 0; v < 3; v++) ops.push_back({4, v, 0});                                    // remove_item
        ops.push_back({5, 0, 0});  // extend [7,8]
        ops.push_back({5, 1, 0});  // extend []
        ops.push_back({6, 0, 0});  // copy_from
        ops.push_back({7, 3, 0});  // ensure_slots(3)
        ops.push_back({8, 0, 0});  // clear
    }
    int nops() { return (int)ops.size(); }
    static uint64_t position(int pos, uint64_t count) { return pos == 0 ? 0 : pos == 1 ? count / 2 : pos == 2 ? (count ? count - 1 : 0) : count + 5; }
    std::string op_name(int i) {
        Op o = ops[i];
        const char* posn[] = {"0", "count/2", "count-1", "count+5"};
        switch (o.kind) {
            case 0: return fmt("append(%d)", o.x);
            case 1: return fmt("insert(%s,%d)", posn[o.x], o.y + 3);
            case 2: return fmt("remove(%s)", posn[o.x]);
            case 3: return fmt("remove_unordered(%s)", posn[o.x]);
            case 4: return fmt("remove_item(%d)", o.x);
            case 5: return o.x ? "extend([])" : "extend([7,8])";
            case 6: return "copy_from->explore copy";
            case 7: return "ensure_slots(3)";
            default: return "clear";
        }
    }
    Obj* make() { return new Obj(); }
    void destroy(Obj* o) { o->a.clear(); delete o; }
    bool poisoned(Obj& o) { return o.bad; }
    std::string canon(Obj& o) {
        std::string s = fmt("cap=%llu [", (unsigned long long)o.a.capacity);
        for (uint64_t i = 0; i < o.a.count; i++) s += std::to_string(o.a[i]) + " ";
        return s + "]";
    }
    void fail(Obj& o, const std::vector<int>& hist, int op, const std::string& cls, const std::string& detail) {
        o.bad = true;
        std::vector<int> h = hist;
        h.push_back(op);
        R->violation(sub, cls, {{"op", jstr(op_name(op))}}, jobj({{"history", describe_hist(*this, h)}, {"impl", jstr(canon(o))}, {"model", jnums(o.m)}}), detail, "sub=" + sub + " hist=" + hist_str(h));
    }
    bool apply(Obj& o, int opi, const std::vector<int>& hist, bool check) {
        Op op = ops[opi];
        auto& a = o.a;
        auto& m = o.m;
        int ri = -1, rm = -1;
        switch (op.kind) {
            case 0: a.append(op.x); m.push_back(op.x); break;
            case 1: {
                if (op.x == 1 && (a.count / 2 == 0 || a.count / 2 == a.count - 1)) return false;  // same as another position
                if (op.x == 2 && a.count <= 1) return false;
                uint64_t p = position(op.x, a.count);
                a.insert(p, op.y + 3);
                if (p >= m.size()) m.push_back(op.y + 3); else m.insert(m.begin() + p, op.y + 3);
            } break;
            case 2: case 3: {
                if (a.count == 0) return false;
                if (op.x == 1 && (a.count / 2 == 0 || a.count / 2 == a.count - 1)) return false;
                if (op.x == 2 && a.count == 1) return false;
                uint64_t p = position(op.x, a.count);
                if (op.kind == 2) { a.remove(p); m.erase(m.begin() + p); }
                else { a.remove_unordered(p); m[p] = m.back(); m.pop_back(); }
            } break;
            case 4: {
                ri = a.remove_item(op.x);
                auto it = std::find(m.begin(), m.end(), op.x);
                rm = it != m.end();
                if (rm) m.erase(it);
            } break;
            case 5: {
                Array<int> src = {};
                if (!op.x) { src.append(7); src.append(8); m.push_back(7); m.push_back(8); }
                a.extend(src);
                src.clear();
            } break;
            case 6: {
                Array<int> c = {};
                c.copy_from(a);
                if (check && a.count && c.items == a.items) fail(o, hist, opi, "copy-shares", "copy shares storage");
                a.clear();
                a = c;
            } break;
            case 7: a.ensure_slots(3); break;
            default: a.clear(); m.clear();
        }
        if (m.size() > 7) return false;  // bound the array length (keeps the search closed)
        if (!check || o.bad) return true;
        if (ri != rm) { fail(o, hist, opi, "return", fmt("remove_item returned %d, model %d", ri, rm)); return true; }
        if (a.count != m.size() || a.capacity < a.count) { fail(o, hist, opi, "count", "count/capacity mismatch"); return true; }
        for (size_t i = 0; i < m.size(); i++) if (a[i] != m[i]) { fail(o, hist, opi, "items", fmt("item %zu differs", i)); return true; }
        if (op.kind == 7 && a.capacity < a.count + 3) { fail(o, hist, opi, "ensure_slots", "fewer free slots than requested"); return true; }
        for (int v : {0, 1, 2, 3, 4, 7, 8, 9}) {
            uint64_t wi = std::find(m.begin(), m.end(), v) - m.begin();
            if (a.index(v) != wi || a.contains(v) != (wi < m.size())) { fail(o, hist, opi, "index", fmt("index/contains(%d) differ", v)); return true; }
        }
        R->count("cases");
        if (op.kind == 1 || op.kind == 2 || op.kind == 3) R->count("nontrivial");
        return true;
    }
};

// =============================================================== sorting (E2)
struct KP { int key, payload; };
static bool kp_less(const KP& a, const KP& b) { return a.key < b.key; }
static bool kp_greater(const KP& a, const KP& b) { return a.key > b.key; }
typedef bool (*Cmp)(const KP&, const KP&);
// mode 0: sort(); mode 1: intro_sort(max_depth 0) => heap_sort for n>16; mode 2: intro_sort(max_depth 1)
static const char* check_sorted(const std::vector<int>& keys, int mode, Cmp cmp) {
    int64_t n = (int64_t)keys.size();
    std::vector<KP> a(n + 2);
    a[0] = {-777, -1};
    a[n + 1] = {-888, -1};  // canaries around the range
    for (int64_t i = 0; i < n; i++) a[i + 1] = {keys[i], (int)i};
    KP* p = a.data() + 1;
    if (mode == 0) sort(p, n, cmp);
    else intro_sort(p, n, mode - 1, cmp);
    if (a[0].key != -777 || a[n + 1].key != -888) return "wrote outside the range";
    std::vector<char> seen(n, 0);
    for (int64_t i = 0; i < n; i++) {
        if (i + 1 < n && cmp(p[i + 1], p[i])) return "not ordered";
        if (p[i].payload < 0 || p[i].payload >= n || seen[p[i].payload]) return "not a permutation (payload lost or duplicated)";
        seen[p[i].payload] = 1;
        if (keys[p[i].payload] != p[i].key) return "key/payload pair torn";
    }
    return NULL;
}
// the other public overloads: sort(T*, count) with operator<, sort(Array<T>&) and sort(Array<T>&, cmp) on an array whose
// capacity exceeds its count and whose slack holds values that order BEFORE every live element (and a canary after the slack)
static bool int_greater(const int& a, const int& b) { return a > b; }
static const char* check_sort_overloads(const std::vector<int>& keys) {
    int64_t n = (int64_t)keys.size();
    std::vector<int> want(keys);
    std::sort(want.begin(), want.end());
    {
        std::vector<int> a(n + 2, -777);
        for (int64_t i = 0; i < n; i++) a[i + 1] = keys[i];
        sort(a.data() + 1, n);
        if (a[0] != -777 || a[n + 1] != -777) return "sort(T*, count) wrote outside the range";
        for (int64_t i = 0; i < n; i++) if (a[i + 1] != want[i]) return "sort(T*, count) is not the ordered permutation";
    }
    for (int with_cmp = 0; with_cmp < 2; with_cmp++) {
        const int slack = 3;
        Array<int> arr = {};
        arr.ensure_slots(n + slack + 1);
        for (int64_t i = 0; i < n; i++) arr.append_unsafe(keys[i]);
        for (int k = 0; k < slack; k++) arr.items[n + k] = with_cmp ? 1000000 + k : -1000000 - k;   // stale values beyond count
        arr.items[n + slack] = -777;
        uint64_t cap = arr.capacity;
        if (with_cmp) sort(arr, int_greater); else sort(arr);
        const char* e = NULL;
        if (arr.count != (uint64_t)n || arr.capacity != cap) e = "sort(Array&) changed count or capacity";
        for (int64_t i = 0; i < n && !e; i++) if (arr.items[i] != (with_cmp ? want[n - 1 - i] : want[i])) e = with_cmp ? "sort(Array&, cmp) is not the ordered permutation of the first count items" : "sort(Array&) is not the ordered permutation of the first count items";
        for (int k = 0; k < slack && !e; k++) if (arr.items[n + k] != (with_cmp ? 1000000 + k : -1000000 - k)) e = "sort(Array&) touched slots beyond count";
        if (!e && arr.items[n + slack] != -777) e = "sort(Array&) touched slots beyond count";
        arr.clear();
        if (e) return e;
    }
    return NULL;
}
static void sort_fail(const std::string& sub, const std::vector<int>& keys, int mode, bool desc, const char* what, const std::string& replay) {
    std::vector<int> shown(keys.begin(), keys.begin() + std::min<size_t>(keys.size(), 64));
    R->violation(sub, what, {{"mode", jint(mode)}, {"n", jint((int64_t)keys.size())}},
                 jobj({{"keys", jnums(shown)}, {"n", jint((int64_t)keys.size())}, {"mode", jstr(mode == 0 ? "sort" : mode == 1 ? "intro_sort(max_depth=0)" : "intro_sort(max_depth=1)")}, {"descending_cmp", jbool(desc)}}),
                 what, replay);
}
static void sort_case(const std::string& sub, const std::vector<int>& keys, const std::string& replay, bool nontrivial) {
    for (int mode = 0; mode < 3; mode++)
        for (int d = 0; d < 2; d++) {
            const char* e = check_sorted(keys, mode, d ? kp_greater : kp_less);
            if (e) sort_fail(sub, keys, mode, d, e, replay);
        }
    {
        const char* e = check_sort_overloads(keys);
        if (e) sort_fail(sub, keys, 0, false, e, replay);
        R->count("sort_overload_checks");
    }
    R->count("cases");
    if (nontrivial) R->count("nontrivial");
}
// all n^n key sequences
static void sort_all_sequences(int n) {
    std::string sub = fmt("sort.all_seq.n%d", n);
    int64_t total = 1;
    for (int i = 0; i < n; i++) total *= n;
    int64_t chunk = 4096, nchunks = (total + chunk - 1) / chunk;
    auto seq = [&](int64_t idx) { std::vector<int> k(n); for (int i = 0; i < n; i++) { k[i] = (int)(idx % n); idx /= n; } return k; };
    auto body = [&](int64_t c) {
        for (int64_t idx = c * chunk; idx < std::min(total, (c + 1) * chunk); idx++) {
            std::vector<int> k = seq(idx);
            bool dup = false;
            for (int i = 0; i < n && !dup; i++) for (int j = 0; j < i; j++) if (k[i] == k[j]) { dup = true; break; }
            sort_case(sub, k, fmt("sub=sort.all_seq n=%d idx=%lld", n, (long long)idx), dup);
        }
    };
    if (R->replaying()) { sort_case(sub, seq(atoll(R->rarg("idx").c_str())), R->replay_args, true); return; }
    bool ok = parallel_for(*R, nchunks, body, [&](int64_t c) { return jobj({{"chunk_first_index", jint(c * chunk)}, {"n", jint(n)}}); },
                           [&](int64_t c) { return fmt("sub=sort.all_seq n=%d idx=%lld", n, (long long)(c * chunk)); }, PFOptions{20, sub, true});
    if (n >= 3) R->sample(sub, jobj({{"keys", jnums(seq(total / 3))}}));
    R->bound(sub, fmt("all %d^%d key sequences x {sort, heap, depth-1 intro} x {asc,desc}", n, n), ok, total);
}
// all 0/1 arrays of length n (quicksort and heap regimes, n > 16)
static void sort_binary(int n) {
    std::string sub = fmt("sort.binary.n%d", n);
    int64_t total = 1ll << n, chunk = 2048, nchunks = total / chunk;
    auto seq = [&](int64_t idx) { std::vector<int> k(n); for (int i = 0; i < n; i++) k[i] = (idx >> i) & 1; return k; };
    auto body = [&](int64_t c) {
        for (int64_t idx = c * chunk; idx < (c + 1) * chunk; idx++) sort_case(sub, seq(idx), fmt("sub=sort.binary n=%d idx=%lld", n, (long long)idx), true);
    };
    if (R->replaying()) { sort_case(sub, seq(atoll(R->rarg("idx").c_str())), R->replay_args, true); return; }
    bool ok = parallel_for(*R, nchunks, body, [&](int64_t c) { return jobj({{"chunk_first_index", jint(c * chunk)}, {"n", jint(n)}}); },
                           [&](int64_t c) { return fmt("sub=sort.binary n=%d idx=%lld", n, (long long)(c * chunk)); }, PFOptions{20, sub, true});
    R->sample(sub, jobj({{"keys", jnums(seq(total / 3))}}));
    R->bound(sub, fmt("all 2^%d binary arrays x 3 modes x 2 orders", n), ok, total);
}
// structured families at every length
static std::vector<int> family(int fam, int n, int p) {
    std::vector<int> k(n);
    for (int i = 0; i < n; i++) {
        switch (fam) {
            case 0: k[i] = i; break;                          // sorted
            case 1: k[i] = n - i; break;                      // reversed
            case 2: k[i] = 5; break;                          // constant
            case 3: k[i] = i < n / 2 ? i : n - i; break;      // organ pipe
            case 4: k[i] = i % p; break;                      // saw
            case 5: k[i] = (i % p) == 0 ? 0 : n - i; break;   // reversed with periodic minima
            default: k[i] = (int)(((uint64_t)i * 2654435761u) % (uint64_t)(p + 1));  // multiplicative scramble with p+1 distinct values
        }
    }
    return k;
}
static void sort_families(int maxn) {
    std::string sub = "sort.families";
    auto periods = [&](int n) {
        std::vector<int> ps;
        for (int p = 1; p <= std::min(n, 40); p++) ps.push_back(p);
        for (int p = 64; p < n; p *= 2) ps.push_back(p);
        if (n > 41) { ps.push_back(n / 2); ps.push_back(n - 1); }
        return ps;
    };
    auto body = [&](int64_t n) {
        for (int fam = 0; fam < 7; fam++) {
            if (fam < 4) sort_case(sub, family(fam, (int)n, 1), fmt("sub=sort.families n=%lld fam=%d p=1", (long long)n, fam), n > 16);
            else for (int p : periods((int)n)) sort_case(sub, family(fam, (int)n, p), fmt("sub=sort.families n=%lld fam=%d p=%d", (long long)n, fam, p), n > 16);
        }
    };
    if (R->replaying()) {
        sort_case(sub, family(atoi(R->rarg("fam").c_str()), atoi(R->rarg("n").c_str()), atoi(R->rarg("p").c_str())), R->replay_args, true);
        return;
    }
    bool ok = parallel_for(*R, maxn + 1, body, [&](int64_t n) { return jobj({{"length", jint(n)}}); }, [&](int64_t n) { return fmt("sub=sort.families n=%lld fam=0 p=1", (long long)n); }, PFOptions{60, sub, true});
    R->sample(sub, jobj({{"family", jstr("saw p=3")}, {"keys", jnums(family(4, 20, 3))}}));
    R->bound(sub, fmt("lengths 0..%d x 7 families x periods", maxn), ok, maxn + 1);
}
// every permutation of 8 distinct keys embedded in a 17-element array (heap + quick regimes)
static void sort_perm17() {
    std::string sub = "sort.perm8in17";
    std::vector<int> base = {0, 1, 2, 3, 4, 5, 6, 7};
    std::vector<std::vector<int>> perms;
    do perms.push_back(base); while (std::next_permutation(base.begin(), base.end()));
    auto mk = [&](int64_t i) {
        std::vector<int> k(17);
        int variant = (int)(i / (int64_t)perms.size());
        const std::vector<int>& p = perms[i % perms.size()];
        for (int j = 0; j < 17; j++) {
            if (variant == 0) k[j] = j < 8 ? p[j] * 2 : 16 - j + 20;       // perm first, descending tail above
            else if (variant == 1) k[j] = j >= 9 ? p[j - 9] * 2 : 7;      // constant head in the middle of the key range
            else k[j] = (j % 2 == 0 && j / 2 < 8) ? p[j / 2] * 2 : 7;      // interleaved with a constant
        }
        return k;
    };
    int64_t total = 3 * (int64_t)perms.size(), chunk = 512, nchunks = (total + chunk - 1) / chunk;
    if (R->replaying()) { sort_case(sub, mk(atoll(R->rarg("idx").c_str())), R->replay_args, true); return; }
    auto body = [&](int64_t c) { for (int64_t i = c * chunk; i < std::min(total, (c + 1) * chunk); i++) sort_case(sub, mk(i), fmt("sub=sort.perm8in17 idx=%lld", (long long)i), true); };
    bool ok = parallel_for(*R, nchunks, body, [&](int64_t c) { return jobj({{"chunk", jint(c)}}); }, [&](int64_t c) { return fmt("sub=sort.perm8in17 idx=%lld", (long long)(c * chunk)); }, PFOptions{20, sub, true});
    R->sample(sub, jobj({{"keys", jnums(mk(12345))}}));
    R->bound(sub, "8! permutations x 3 embeddings in 17 elements", ok, total);
}

// =============================================================== main
template <class Sys>
static void replay_bfs(Sys& sys) {
    if (!R->rarg("hist").empty()) replay_hist(*R, sys, sys.sub, parse_hist(R->rarg("hist")));
    else expand_inprocess(*R, sys, parse_hist(R->rarg("expand")));
}
int main(int argc, char** argv) {
    Run run("C20", argc, argv);
    R = &run;
    bool T = run.thorough();
    if (run.replaying()) {
        std::string sub = run.rarg("sub");
        int nk = atoi(run.rarg("nkeys").c_str());
        KS = find_keys(nk ? nk : 12);
        if (sub == "table.map") { TableSys<MapAd> s(nk); replay_bfs(s); }
        else if (sub == "table.set") { TableSys<SetAd> s(nk); replay_bfs(s); }
        else if (sub == "table.tagmap") { TableSys<TagMapAd> s(nk); replay_bfs(s); }
        else if (sub == "table.stylemap") { TableSys<StyleAd> s(nk); replay_bfs(s); }
        else if (sub == "proplist") { PropSys s; replay_bfs(s); }
        else if (sub == "array") { ArraySys s; replay_bfs(s); }
        else if (sub == "sort.all_seq") sort_all_sequences(atoi(run.rarg("n").c_str()));
        else if (sub == "sort.binary") sort_binary(atoi(run.rarg("n").c_str()));
        else if (sub == "sort.families") sort_families(0);
        else if (sub == "sort.perm8in17") sort_perm17();
        return run.finish();
    }
    int nk = T ? 9 : 6;
    KS = find_keys(nk);
    {
        std::vector<std::string> ks;
        for (int i = 0; i < nk; i++) ks.push_back(jstr(fmt("%s home8=%d home16=%d | set %s home8=%d | tagmap %s home8=%d | stylemap %s home8=%d", KS.skeys[i].c_str(), (int)home_of<Map<uint64_t>>(8, KS.skeys[i].c_str()),
                                                          (int)home_of<Map<uint64_t>>(16, KS.skeys[i].c_str()), tagstr(KS.tk[0][i]).c_str(), (int)home_of<Set<Tag>>(8, KS.tk[0][i]), tagstr(KS.tk[1][i]).c_str(),
                                                          (int)home_of<TagMap>(8, KS.tk[1][i]), tagstr(KS.tk[2][i]).c_str(), (int)home_of<StyleMap>(8, KS.tk[2][i]))));
        run.note("colliding key alphabet (home slots asked from each table type itself): " + jarr(ks));
    }
    int tdepth = T ? 14 : 10;
    run_table<MapAd>(nk, tdepth);
    run_table<SetAd>(nk, tdepth);
    run_table<TagMapAd>(nk, tdepth);
    run_table<StyleAd>(nk, tdepth);
    { PropSys s; bfs(run, s, s.sub, T ? 5 : 4); }
    { ArraySys s; bfs(run, s, s.sub, T ? 9 : 6); }
    for (int n = 0; n <= (T ? 8 : 7); n++) sort_all_sequences(n);
    for (int n = 17; n <= (T ? 22 : 19); n++) sort_binary(n);
    sort_perm17();
    sort_families(T ? 2500 : 500);
    return run.finish();
}
