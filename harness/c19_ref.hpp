// c19_ref.hpp — independent reference codecs and exact arithmetic for check C19.
// Written from DESIGN.md Appendix A (format facts), not from gdstk's code.  Everything is integer
// arithmetic in unsigned __int128; doubles are taken apart / put together through their IEEE-754
// bit fields only.
#pragma once
#include <stdint.h>
#include <string.h>

#include <string>
#include <vector>

namespace c19 {

typedef unsigned __int128 u128;
typedef __int128 i128;
typedef std::vector<uint8_t> Bytes;

// ------------------------------------------------------------------ text helpers
inline std::string hexb(const Bytes& b) {
    std::string s;
    char t[4];
    for (uint8_t c : b) { snprintf(t, sizeof t, "%02x", c); s += t; }
    return s;
}
inline std::string hex64(uint64_t v) { char t[24]; snprintf(t, sizeof t, "%016llx", (unsigned long long)v); return t; }
inline std::string hex128(u128 v) {
    char t[40];
    uint64_t hi = (uint64_t)(v >> 64), lo = (uint64_t)v;
    if (hi) snprintf(t, sizeof t, "%llx%016llx", (unsigned long long)hi, (unsigned long long)lo);
    else snprintf(t, sizeof t, "%llx", (unsigned long long)lo);
    return t;
}
inline u128 parse_hex128(const std::string& s) {
    u128 v = 0;
    for (char c : s) {
        int d = (c >= '0' && c <= '9') ? c - '0' : (c >= 'a' && c <= 'f') ? c - 'a' + 10 : (c >= 'A' && c <= 'F') ? c - 'A' + 10 : -1;
        if (d < 0) continue;
        v = (v << 4) | (u128)d;
    }
    return v;
}
inline std::string dec128(u128 v) {
    if (v == 0) return "0";
    std::string s;
    while (v) { s.insert(s.begin(), (char)('0' + (int)(v % 10))); v /= 10; }
    return s;
}
inline std::string deci128(i128 v) { return v < 0 ? "-" + dec128((u128)(-v)) : dec128((u128)v); }
inline int bitlen(u128 v) { int n = 0; while (v) { n++; v >>= 1; } return n; }

// ------------------------------------------------------------------ doubles as bit fields
inline uint64_t dbits(double v) { uint64_t b; memcpy(&b, &v, 8); return b; }
inline double dfrom(uint64_t b) { double v; memcpy(&v, &b, 8); return v; }
struct Dec {           // value = (-1)^neg * M * 2^E   (finite); M == 0 for zero
    bool neg, finite;
    uint64_t M;
    int E;
};
inline Dec decomp(double v) {
    uint64_t b = dbits(v);
    Dec d;
    d.neg = b >> 63;
    int ef = (int)((b >> 52) & 0x7ff);
    uint64_t fr = b & ((1ull << 52) - 1);
    d.finite = ef != 0x7ff;
    if (ef == 0) { d.M = fr; d.E = -1074; }
    else { d.M = fr | (1ull << 52); d.E = ef - 1075; }
    return d;
}
// build the double M * 2^E exactly (caller guarantees M < 2^53 and the result is representable)
inline double compose(bool neg, uint64_t M, int E) {
    if (M == 0) return neg ? -0.0 : 0.0;
    while (M < (1ull << 52) && E > -1074) { M <<= 1; E--; }
    while (M >= (1ull << 53)) { M >>= 1; E++; }   // only exact when the dropped bit is 0 (caller's duty)
    uint64_t b;
    if (M < (1ull << 52)) b = M;                       // subnormal (E == -1074)
    else b = ((uint64_t)(E + 1075) << 52) | (M & ((1ull << 52) - 1));
    if (neg) b |= 1ull << 63;
    return dfrom(b);
}
// | (-1)^nA A 2^EA  -  (-1)^nB B 2^EB |  <=  2^EU  ?   (exact; false if the operands are too far
// apart to be aligned in 128 bits, which implies a difference far above 2^EU)
inline bool within(u128 A, int EA, bool nA, u128 B, int EB, bool nB, int EU) {
    if (A == 0 && B == 0) return true;
    int Emin = EU;
    if (A && EA < Emin) Emin = EA;
    if (B && EB < Emin) Emin = EB;
    int sa = A ? EA - Emin : 0, sb = B ? EB - Emin : 0, su = EU - Emin;
    if (bitlen(A) + sa > 125 || bitlen(B) + sb > 125 || su > 125) return false;
    u128 a = A << sa, b = B << sb, u = (u128)1 << su, diff;
    if (nA == nB || A == 0 || B == 0) diff = a > b ? a - b : b - a;
    else diff = a + b;
    return diff <= u;
}
// correctly rounded (nearest, ties to even) double of p/q, 0 <= p < 2^64, 0 < q < 2^64
inline double exact_div(u128 p, u128 q, bool neg = false) {
    if (p == 0) return neg ? -0.0 : 0.0;
    int s = 54 + bitlen(q) - bitlen(p);
    u128 num = p, den = q;
    if (s >= 0) num <<= s; else den <<= -s;
    u128 Q = num / den, rem = num % den;      // Q in [2^53, 2^55)
    int drop = bitlen(Q) - 53;
    u128 low = Q & (((u128)1 << drop) - 1), half = (u128)1 << (drop - 1), Qr = Q >> drop;
    if (low > half || (low == half && (rem != 0 || (Qr & 1)))) Qr++;
    else if (low == half && rem == 0 && !(Qr & 1)) {}
    return compose(neg, (uint64_t)Qr, drop - s);
}
// exact double of an IEEE-754 binary32 pattern
inline double float32_value(uint32_t f) {
    bool neg = f >> 31;
    int e = (f >> 23) & 0xff;
    uint32_t m = f & 0x7fffff;
    if (e == 255) return dfrom(((uint64_t)neg << 63) | (0x7ffull << 52) | ((uint64_t)m << 29));
    if (e == 0) return compose(neg, m, -149);
    return compose(neg, m | 0x800000, e - 150);
}

// ------------------------------------------------------------------ GDSII real8 (A.1)
// value = (-1)^s * m * 2^(4(e-64)-56)
struct Gds8 { bool neg; int e; uint64_t m; int E2; };   // E2 = exponent of two of the integer mantissa
inline Gds8 gds8_fields(uint64_t r) {
    Gds8 g;
    g.neg = r >> 63;
    g.e = (int)((r >> 56) & 0x7f);
    g.m = r & 0x00FFFFFFFFFFFFFFull;
    g.E2 = 4 * (g.e - 64) - 56;
    return g;
}

// ------------------------------------------------------------------ OASIS integers (A.2)
inline void put_uint(Bytes& b, u128 v, int pad = 0) {
    for (;;) {
        uint8_t g = (uint8_t)(v & 0x7f);
        v >>= 7;
        if (v != 0) b.push_back(g | 0x80);
        else { b.push_back(pad > 0 ? (g | 0x80) : g); break; }
    }
    for (int i = 0; i < pad; i++) b.push_back(i + 1 < pad ? 0x80 : 0x00);
}
inline bool get_uint(const Bytes& b, size_t& pos, u128& v) {
    v = 0;
    int shift = 0;
    for (;;) {
        if (pos >= b.size()) return false;
        uint8_t g = b[pos++];
        if (shift <= 119) v |= (u128)(g & 0x7f) << shift;
        else if (g & 0x7f) return false;
        shift += 7;
        if (!(g & 0x80)) return true;
    }
}
static const int DX[8] = {1, 0, -1, 0, 1, -1, -1, 1};   // E N W S NE NW SW SE
static const int DY[8] = {0, 1, 0, -1, 1, 1, -1, -1};
static const char* const DIRNAME[8] = {"E", "N", "W", "S", "NE", "NW", "SW", "SE"};
inline u128 uabs(i128 v) { return v < 0 ? (u128)(-v) : (u128)v; }
inline void put_int(Bytes& b, i128 v, int pad = 0) { put_uint(b, (uabs(v) << 1) | (v < 0 ? 1 : 0), pad); }
inline bool get_int(const Bytes& b, size_t& pos, i128& v) {
    u128 u;
    if (!get_uint(b, pos, u)) return false;
    v = (u & 1) ? -(i128)(u >> 1) : (i128)(u >> 1);
    return true;
}
inline int dir_of(i128 x, i128 y) {   // -1 if not octangular; zero delta -> E
    if (y == 0) return x >= 0 ? 0 : 2;
    if (x == 0) return y > 0 ? 1 : 3;
    if (x == y) return x > 0 ? 4 : 6;
    if (x == -y) return x > 0 ? 7 : 5;
    return -1;
}
inline bool put_2delta(Bytes& b, i128 x, i128 y, int pad = 0) {
    int d = dir_of(x, y);
    if (d < 0 || d > 3) return false;
    put_uint(b, (uabs(x ? x : y) << 2) | (u128)d, pad);
    return true;
}
inline bool put_3delta(Bytes& b, i128 x, i128 y, int pad = 0) {
    int d = dir_of(x, y);
    if (d < 0) return false;
    put_uint(b, (uabs(x ? x : y) << 3) | (u128)d, pad);
    return true;
}
inline void put_gdelta(Bytes& b, i128 x, i128 y, bool force_form2 = false) {
    int d = dir_of(x, y);
    if (d >= 0 && !force_form2) { put_uint(b, (uabs(x ? x : y) << 4) | (u128)(d << 1)); return; }
    put_uint(b, (uabs(x) << 2) | (x < 0 ? 2 : 0) | 1);
    put_int(b, y);
}
inline bool get_2delta(const Bytes& b, size_t& pos, i128& x, i128& y) {
    u128 u;
    if (!get_uint(b, pos, u)) return false;
    int d = (int)(u & 3);
    i128 m = (i128)(u >> 2);
    x = m * DX[d]; y = m * DY[d];
    return true;
}
inline bool get_3delta(const Bytes& b, size_t& pos, i128& x, i128& y) {
    u128 u;
    if (!get_uint(b, pos, u)) return false;
    int d = (int)(u & 7);
    i128 m = (i128)(u >> 3);
    x = m * DX[d]; y = m * DY[d];
    return true;
}
inline bool get_gdelta(const Bytes& b, size_t& pos, i128& x, i128& y) {
    if (pos >= b.size()) return false;
    u128 u;
    if ((b[pos] & 1) == 0) {
        if (!get_uint(b, pos, u)) return false;
        int d = (int)((u >> 1) & 7);
        i128 m = (i128)(u >> 4);
        x = m * DX[d]; y = m * DY[d];
        return true;
    }
    if (!get_uint(b, pos, u)) return false;
    x = (u & 2) ? -(i128)(u >> 2) : (i128)(u >> 2);
    return get_int(b, pos, y);
}

// ------------------------------------------------------------------ OASIS reals (A.2)
// decodes one real; *exact_ok=false when the form's value needed a division whose operands are not
// exactly representable as doubles (n > 2^53): then the result is still the correctly rounded
// value of the true quotient.
inline bool get_real(const Bytes& b, size_t& pos, double& v) {
    if (pos >= b.size()) return false;
    int t = b[pos++];
    u128 p, q;
    switch (t) {
        case 0: case 1: if (!get_uint(b, pos, p) || p >> 64) return false; v = exact_div(p, 1, t == 1); return true;
        case 2: case 3: if (!get_uint(b, pos, p) || p >> 64 || p == 0) return false; v = exact_div(1, p, t == 3); return true;
        case 4: case 5:
            if (!get_uint(b, pos, p) || !get_uint(b, pos, q) || p >> 64 || q >> 64 || q == 0) return false;
            v = exact_div(p, q, t == 5);
            return true;
        case 6: {
            if (pos + 4 > b.size()) return false;
            uint32_t f = (uint32_t)b[pos] | ((uint32_t)b[pos + 1] << 8) | ((uint32_t)b[pos + 2] << 16) | ((uint32_t)b[pos + 3] << 24);
            pos += 4;
            v = float32_value(f);
            return true;
        }
        case 7: {
            if (pos + 8 > b.size()) return false;
            uint64_t d = 0;
            for (int i = 0; i < 8; i++) d |= (uint64_t)b[pos + i] << (8 * i);
            pos += 8;
            v = dfrom(d);
            return true;
        }
    }
    return false;
}

// ------------------------------------------------------------------ OASIS point lists (A.2)
struct P2 {
    int64_t x, y;
    bool operator==(const P2& o) const { return x == o.x && y == o.y; }
    bool operator!=(const P2& o) const { return !(*this == o); }
};
typedef std::vector<P2> PV;
enum { PL_FORM2 = 6 };   // pseudo type: type 4 with every g-delta in its two-integer form
// V[0] is the reference vertex (0,0); encodes V[1..].  false = this type cannot express the list.
inline bool put_plist(Bytes& b, const PV& V, bool closed, int t) {
    size_t N = V.size();
    PV d;
    for (size_t i = 1; i < N; i++) d.push_back({V[i].x - V[i - 1].x, V[i].y - V[i - 1].y});
    P2 closing = {V[0].x - V[N - 1].x, V[0].y - V[N - 1].y};
    switch (t) {
        case 0:
        case 1: {
            PV all = d;
            size_t cnt = d.size();
            if (closed) {
                if (N < 4 || N % 2) return false;
                all.push_back(closing);
                cnt = N - 2;
            }
            bool horiz = t == 0;
            for (auto& e : all) { if (horiz ? e.y != 0 : e.x != 0) return false; horiz = !horiz; }
            b.push_back((uint8_t)t);
            put_uint(b, cnt);
            horiz = t == 0;
            for (size_t i = 0; i < cnt; i++) { put_int(b, horiz ? d[i].x : d[i].y); horiz = !horiz; }
            return true;
        }
        case 2:
            for (auto& e : d) if (e.x && e.y) return false;
            b.push_back(2); put_uint(b, d.size());
            for (auto& e : d) put_2delta(b, e.x, e.y);
            return true;
        case 3:
            for (auto& e : d) if (dir_of(e.x, e.y) < 0) return false;
            b.push_back(3); put_uint(b, d.size());
            for (auto& e : d) put_3delta(b, e.x, e.y);
            return true;
        case 4:
        case PL_FORM2:
            b.push_back(4); put_uint(b, d.size());
            for (auto& e : d) put_gdelta(b, e.x, e.y, t == PL_FORM2);
            return true;
        case 5: {
            b.push_back(5); put_uint(b, d.size());
            P2 prev = {0, 0};
            for (auto& e : d) { put_gdelta(b, e.x - prev.x, e.y - prev.y); prev = e; }
            return true;
        }
    }
    return false;
}
// appends the decoded vertices (relative to the reference vertex (0,0)) to out
inline bool get_plist(const Bytes& b, size_t& pos, bool closed, PV& out, int* type_out = NULL) {
    if (pos >= b.size()) return false;
    int t = b[pos++];
    if (type_out) *type_out = t;
    u128 cnt;
    if (!get_uint(b, pos, cnt) || cnt > 1000000) return false;
    i128 cx = 0, cy = 0, x, y;
    switch (t) {
        case 0:
        case 1: {
            bool horiz = t == 0;
            for (u128 i = 0; i < cnt; i++) {
                if (!get_int(b, pos, x)) return false;
                if (horiz) cx += x; else cy += x;
                out.push_back({(int64_t)cx, (int64_t)cy});
                horiz = !horiz;
            }
            if (closed) {
                if (horiz) cx = 0; else cy = 0;
                out.push_back({(int64_t)cx, (int64_t)cy});
            }
            return true;
        }
        case 2: case 3: case 4:
            for (u128 i = 0; i < cnt; i++) {
                bool ok = t == 2 ? get_2delta(b, pos, x, y) : t == 3 ? get_3delta(b, pos, x, y) : get_gdelta(b, pos, x, y);
                if (!ok) return false;
                cx += x; cy += y;
                out.push_back({(int64_t)cx, (int64_t)cy});
            }
            return true;
        case 5: {
            i128 dx = 0, dy = 0;
            for (u128 i = 0; i < cnt; i++) {
                if (!get_gdelta(b, pos, x, y)) return false;
                dx += x; dy += y;
                cx += dx; cy += dy;
                out.push_back({(int64_t)cx, (int64_t)cy});
            }
            return true;
        }
    }
    return false;
}

}  // namespace c19
