// C01 — GDSII save/load round trip preserves the layout.
//
// Bounded exhaustive enumeration (engine E2): every single-element library over the alphabet SIGMA
// of gds_corpus.hpp, every ordered pair over the reduced alphabet SIGMA', each x max_points x a chain
// of save/load cycles executed on the real Library::write_gds / read_gds, judged by the integer-grid
// model of c01_model.hpp computed from the in-memory library *before* the first save.
//
//   source L0 --save1--> F1 --load--> L1 --save2--> F2 --load--> L2 --save3--> F3 --load--> L3
//   checks:  model(L1) matches expected(L0)   (repetitions expanded, non-simple paths as outlines,
//                                              over-long polygons as pieces covering the same region)
//            model(L2), model(L3) == model(L1)
//            F2 and F3 are byte-identical (fixed timestamp)
#include <gdstk/gdstk.hpp>

#include "c01_model.hpp"
#include "gds_corpus.hpp"
#include "vf.hpp"

using namespace vf;
using namespace gdstk;
namespace gc = gds_corpus;

static Run* R;
static int64_t file_counter = 0;

// Differences between save 2 and save 3 that do not change the layout model are counted and noted,
// not reported as violations (the property speaks about the layout, not about bytes):
//   property_order  set_gds_property prepends, so the reader reverses the PROPATTR order at every load
//   real8_ulp       UNITS/MAG/ANGLE drift by rounding of degrees<->radians or precision/unit
// Set to true to report them as violations as well.
static const bool kStrictBytes = false;

static std::string read_file(const std::string& path) {
    std::string s;
    FILE* f = fopen(path.c_str(), "rb");
    if (!f) return s;
    char buf[65536];
    size_t r;
    while ((r = fread(buf, 1, sizeof buf, f)) > 0) s.append(buf, r);
    fclose(f);
    return s;
}
static tm fixed_time() {
    tm t = {};
    t.tm_year = 101; t.tm_mon = 1; t.tm_mday = 3; t.tm_hour = 4; t.tm_min = 5; t.tm_sec = 6;
    return t;
}
static bool nontrivial(const gc::LibSpec& s, uint64_t max_points) {
    if (s.elems.size() > 1) return true;
    for (auto& e : s.elems) {
        if (e.rep != 0) return true;
        if (e.kind == gc::FLEX_OUTLINE || e.kind == gc::ROBUST_OUTLINE) return true;
        if (e.kind == gc::POLYGON && max_points > 4 && (uint64_t)e.n > max_points) return true;
        if (e.coord == gc::HALF) return true;
        if ((e.kind == gc::LABEL || e.kind == gc::REFERENCE) && (e.rot != 0 || e.mag != 0 || e.refl != 0)) return true;
        if (e.props >= 3) return true;  // two GDSII properties, or general properties mixed with GDSII ones
        if (e.xf != 0 || e.off != 0 || e.jog != 0) return true;
        if (e.kind != gc::POLYGON && e.n > 8190 / 4) return true;  // centre line split over several XY records
    }
    return false;
}
static std::string kinds_of(const gc::LibSpec& s) {
    std::string k;
    for (size_t i = 0; i < s.elems.size(); i++) k += (i ? "+" : "") + std::string(gc::kind_names[s.elems[i].kind]);
    return k;
}
// Own classification of the array lattices of a (re-loaded) library: "none" no reference carries a lattice,
// "aligned" every lattice vector is parallel (1e-12) to an axis of its reference's rotated frame,
// "misaligned" otherwise (GDSII defines AREF lattices along the rotated axes; gdstk writes such a lattice
// as single references).
static std::string lattice_state(const Library& l) {
    std::string st = "none";
    for (uint64_t i = 0; i < l.cell_array.count; i++)
        for (uint64_t k = 0; k < l.cell_array[i]->reference_array.count; k++) {
            const Reference& r = *l.cell_array[i]->reference_array[k];
            if (r.repetition.type != RepetitionType::Rectangular && r.repetition.type != RepetitionType::Regular) continue;
            Vec2 v[2] = {r.repetition.type == RepetitionType::Rectangular ? Vec2{r.repetition.spacing.x, 0} : r.repetition.v1,
                         r.repetition.type == RepetitionType::Rectangular ? Vec2{0, r.repetition.spacing.y} : r.repetition.v2};
            long double c = cosl(r.rotation), s = sinl(r.rotation);
            bool ok[2][2];  // ok[vector][axis]
            for (int a = 0; a < 2; a++) {
                long double len = hypotl(v[a].x, v[a].y);
                ok[a][0] = len == 0 || fabsl(fabsl((v[a].x * c + v[a].y * s) / len) - 1) < 1e-12L;
                ok[a][1] = len == 0 || fabsl(fabsl((-v[a].x * s + v[a].y * c) / len) - 1) < 1e-12L;
            }
            bool aligned = (ok[0][0] && ok[1][1]) || (ok[0][1] && ok[1][0]);
            if (!aligned) return "misaligned";
            st = "aligned";
        }
    return st;
}
static JFields tags_of(const gc::LibSpec& s, uint64_t max_points, const std::string& stage, const std::string& what, const std::string& lattice) {
    JFields t = {{"stage", jstr(stage)}, {"what", jstr(what)}, {"kinds", jstr(kinds_of(s))}, {"max_points", jint((int64_t)max_points)}, {"lattice_after_first_load", jstr(lattice)},
                 {"unit", jnum(gc::lib_units[s.libcfg][0])}, {"precision", jnum(gc::lib_units[s.libcfg][1])}, {"names", jstr(s.namepar ? "even" : "odd")}, {"reload_tolerance", jstr(s.readtol ? "default" : "1e-6")}};
    for (size_t i = 0; i < s.elems.size(); i++) {
        const gc::Elem& e = s.elems[i];
        std::string p = s.elems.size() > 1 ? fmt("e%zu.", i) : "";
        t.push_back({p + "repetition", jstr(e.kind == gc::REFERENCE ? gc::refrep_names[e.rep] : gc::rep_names[e.rep])});
        t.push_back({p + "properties", jstr(gc::props_names[e.props])});
        t.push_back({p + "coordinates", jstr(gc::coord_names[e.coord])});
        if (e.kind == gc::POLYGON) t.push_back({p + "vertices", jint(e.n)});
        if (e.kind == gc::FLEX_SIMPLE || e.kind == gc::ROBUST_SIMPLE) { t.push_back({p + "end", jstr(gc::end_names[e.end])}); t.push_back({p + "scale_width", jbool(e.sw)}); }
        if (e.kind >= gc::FLEX_SIMPLE && e.kind <= gc::ROBUST_OUTLINE) { t.push_back({p + "transformed_by", jstr(gc::xf_names[e.xf])}); t.push_back({p + "element_offset", jbool(e.off)}); }
        if (e.kind == gc::FLEX_SIMPLE && e.jog) { t.push_back({p + "jog", jstr(e.jog == 1 ? "along" : "across")}); t.push_back({p + "jog_length", jstr(e.jogstep == 0 ? "below_grid_step" : e.jogstep == 1 ? "grid_step" : "above_grid_step")}); t.push_back({p + "spine_tolerance", jstr(e.srctol ? "grid_step" : "1e-5")}); }
        if (e.kind == gc::LABEL || e.kind == gc::REFERENCE) { t.push_back({p + "rotation", jstr(gc::rot_names[e.rot])}); t.push_back({p + "magnification", jnum(gc::mag_value(e))}); t.push_back({p + "x_reflection", jbool(e.refl)}); }
        if (e.kind == gc::LABEL) t.push_back({p + "anchor", jint(gc::anchors[e.anchor])});
        if (e.kind == gc::REFERENCE) t.push_back({p + "target", jstr(e.target ? "absent_by_name" : "present_by_pointer")});
    }
    return t;
}

// one case: library `index` of the corpus, vertex limit, number of save/load cycles
static void run_case(const std::string& sub, int64_t index, uint64_t max_points, int cycles, bool verbose) {
    gc::LibSpec spec = gc::spec_of(index);
    std::string replay = fmt("sub=%s idx=%lld mp=%llu cycles=%d", sub.c_str(), (long long)index, (unsigned long long)max_points, cycles);
    std::string case_json = jobj({{"corpus_index", jint(index)}, {"library", gc::describe(spec)}, {"max_points", jint((int64_t)max_points)}, {"cycles", jint(cycles)}});
    R->count("cases");
    if (nontrivial(spec, max_points)) R->count("nontrivial");
    std::string lattice = "not_loaded";
    auto violation = [&](const std::string& stage, const std::string& what, const std::string& detail) {
        R->violation(sub, stage + "/" + what, tags_of(spec, max_points, stage, what, lattice), case_json, detail, replay);
        if (verbose) fprintf(stderr, "VIOLATION %s/%s: %s\n", stage.c_str(), what.c_str(), detail.c_str());
    };

    Library* src = gc::build(spec);
    c01::Ctx sctx;
    sctx.max_points = max_points;
    c01::MLib expected = c01::model_of(*src, sctx, true);
    if (!sctx.problems.empty() || sctx.out_of_range) {
        R->internal_error("corpus library outside the model/quantifier: " + (sctx.problems.empty() ? std::string("coordinate does not fit 32 bits") : sctx.problems[0]) + " " + case_json);
        gc::destroy(src);
        return;
    }
    R->count("coords_exact_half_grid", sctx.exact_ties);
    R->count("coords_rounding_differs_in_long_double", sctx.tie_sensitive);
    if (verbose) fprintf(stderr, "case %s\nEXPECTED (model of the library in memory)\n%s", case_json.c_str(), c01::str(expected).c_str());

    tm ts = fixed_time();
    std::vector<std::string> files;
    std::vector<Library> loaded;
    std::vector<c01::MLib> models;
    c01::CompareStats st;
    bool absent_ref = false;
    for (auto& e : spec.elems) if (e.kind == gc::REFERENCE && e.target == 1) absent_ref = true;
    bool stop = false;
    for (int c = 1; c <= cycles && !stop; c++) {
        std::string fn = fmt("%s/c01.%d.%lld.%d.gds", R->scratch.c_str(), (int)getpid(), (long long)file_counter++, c);
        files.push_back(fn);
        std::string stage = fmt("cycle%d", c);
        const Library* from = c == 1 ? src : &loaded.back();
        ErrorCode wrc = from->write_gds(fn.c_str(), max_points, &ts);
        ErrorCode rrc = ErrorCode::NoError;
        Library l = read_gds(fn.c_str(), 0, spec.readtol ? 0 : 1e-6, NULL, &rrc);
        loaded.push_back(l);
        if (c == 1) lattice = lattice_state(l);
        bool wok = wrc == ErrorCode::NoError || wrc == ErrorCode::UnofficialSpecification;
        bool rok = rrc == ErrorCode::NoError || (absent_ref && rrc == ErrorCode::MissingReference);
        if (!wok) violation(stage, "errorcode:write", fmt("write_gds returned error code %d", (int)wrc));
        if (!rok) violation(stage, "errorcode:read", fmt("read_gds reported error code %d", (int)rrc));
        c01::Ctx lctx;
        c01::MLib m = c01::model_of(l, lctx, false);
        models.push_back(m);
        if (verbose) fprintf(stderr, "LOADED after cycle %d (write rc=%d, read rc=%d, %lld coordinates off the grid)\n%s", c, (int)wrc, (int)rrc, (long long)lctx.off_grid, c01::str(m).c_str());
        if (lctx.off_grid) violation(stage, "coordinate:off_grid", fmt("%lld loaded coordinates are further than 1e-3 grid steps from the precision grid", (long long)lctx.off_grid));
        std::vector<c01::Diff> d = c == 1 ? c01::compare(expected, m, true, max_points, stage, st) : c01::compare(models[0], m, false, max_points, stage + " vs cycle1", st);
        for (auto& x : d) violation(stage, x.cls, x.detail);
        if (!d.empty() && c == 1) stop = true;  // later cycles would only repeat the report
        if (c == 1) {
            size_t np = 0, npa = 0, nl = 0, nr = 0;
            std::string reps;
            for (uint64_t i = 0; i < l.cell_array.count; i++) {
                Cell* cell = l.cell_array[i];
                np += cell->polygon_array.count; npa += cell->flexpath_array.count; nl += cell->label_array.count; nr += cell->reference_array.count;
                for (uint64_t k = 0; k < cell->reference_array.count; k++) reps += fmt("%d", (int)cell->reference_array[k]->repetition.type);
            }
            R->outcome(sub, fmt("w%d r%d cells%llu p%zu pa%zu l%zu r%zu reps%s region%lld", (int)wrc, (int)rrc, (unsigned long long)l.cell_array.count, np, npa, nl, nr, reps.c_str(), (long long)st.region_checks));
            if (m.name != expected.name) R->count("library_name_differs_after_load");
        }
    }
    if (!stop && cycles >= 3) {
        std::string b2 = read_file(files[1]), b3 = read_file(files[2]);
        std::string diff = c01::bytes_difference(b2, b3);
        if (diff.empty()) R->count("saves_2_and_3_byte_identical");
        else if (diff == "property_order") { R->count("saves_2_and_3_differ_only_in_property_order"); if (kStrictBytes) violation("cycle3", "bytes:property_order", "save 3 differs from save 2 only in the order of PROPATTR/PROPVALUE pairs"); }
        else if (diff == "real8_ulp") { R->count("saves_2_and_3_differ_only_in_real8_rounding"); if (kStrictBytes) violation("cycle3", "bytes:real8_ulp", "save 3 differs from save 2 only by rounding of UNITS/MAG/ANGLE"); }
        else violation("cycle3", "bytes:differ", "save 3 is not byte-identical to save 2: " + diff);
        if (verbose) fprintf(stderr, "save2 (%zu bytes) vs save3 (%zu bytes): %s\n", b2.size(), b3.size(), diff.empty() ? "identical" : diff.c_str());
    }
    R->count("region_checks", st.region_checks);
    R->count("region_checks_exact", st.region_exact);
    R->count("region_samples", st.region_samples);
    R->count("region_samples_skipped_near_boundary", st.region_skipped);
    R->count("references_with_two_admissible_forms", st.aref_alternatives);
    for (auto& l : loaded) l.free_all();
    for (auto& f : files) unlink(f.c_str());
    gc::destroy(src);
}

// a sub-search: corpus indices first .. first+n-1 (stride 1), or the explicit list `only`
struct Search { std::string sub; int64_t first, n; uint64_t max_points; int cycles; int64_t chunk; double timeout; std::string what; std::vector<int64_t> only; };

static void run_search(const Search& s0) {
    Search s = s0;
    if (!s.only.empty()) { s.n = (int64_t)s.only.size(); s.chunk = 1; }
    auto index = [&](int64_t i) { return s.only.empty() ? s.first + i : s.only[i]; };
    int64_t nchunks = (s.n + s.chunk - 1) / s.chunk;
    double t0 = now();
    auto body = [&](int64_t c) {
        for (int64_t i = c * s.chunk; i < std::min(s.n, (c + 1) * s.chunk); i++) run_case(s.sub, index(i), s.max_points, s.cycles, false);
    };
    auto describe = [&](int64_t c) {
        return jobj({{"first_corpus_index", jint(index(c * s.chunk))}, {"cases_in_chunk", jint(std::min(s.chunk, s.n - c * s.chunk))}, {"first_library", gc::describe(index(c * s.chunk))},
                     {"max_points", jint((int64_t)s.max_points)}, {"cycles", jint(s.cycles)}});
    };
    auto replay_of = [&](int64_t c) {
        return fmt("sub=%s idx=%lld n=%lld mp=%llu cycles=%d", s.sub.c_str(), (long long)index(c * s.chunk), (long long)std::min(s.chunk, s.n - c * s.chunk), (unsigned long long)s.max_points, s.cycles);
    };
    bool ok = parallel_for(*R, nchunks, body, describe, replay_of, PFOptions{s.timeout, s.sub, true});
    R->bound(s.sub, fmt("%s x max_points=%llu x %d save/load cycles", s.what.c_str(), (unsigned long long)s.max_points, s.cycles), ok, s.n, {{"wall_s", fmt("%.1f", now() - t0)}});
    R->sample(s.sub, jobj({{"corpus_index", jint(index(s.n / 3))}, {"library", gc::describe(index(s.n / 3))}, {"max_points", jint((int64_t)s.max_points)}, {"cycles", jint(s.cycles)}}));
}

int main(int argc, char** argv) {
    Run run("C01", argc, argv);
    R = &run;
    error_logger = NULL;
    if (run.replaying()) {
        std::string sub = run.rarg("sub");
        int64_t idx = atoll(run.rarg("idx").c_str());
        int64_t n = run.rarg("n").empty() ? 1 : atoll(run.rarg("n").c_str());
        uint64_t mp = strtoull(run.rarg("mp").c_str(), NULL, 10);
        int cycles = atoi(run.rarg("cycles").c_str());
        for (int64_t i = 0; i < n; i++) run_case(sub.empty() ? "single" : sub, idx + i, mp, cycles ? cycles : 3, true);
        return run.finish();
    }
    const bool T = run.thorough();
    const int64_t NL = gc::singles_light(), NH = gc::singles_heavy(), NP = gc::pairs();
    run.note(fmt("corpus: %lld single-element libraries (+%lld with 8189..8200-vertex polygons, thorough tier) and %lld ordered pairs over a reduced alphabet of %zu elements",
                 (long long)NL, (long long)NH, (long long)NP, gc::reduced().size()));
    // scaling facts the rounding oracle relies on
    for (int k = 0; k < gc::lib_count; k++) run.note(fmt("unit %.17g / precision %.17g = %.17g in double arithmetic", gc::lib_units[k][0], gc::lib_units[k][1], gc::lib_units[k][0] / gc::lib_units[k][1]));
    for (int r = 4; r < 9; r++) run.note(fmt("rotation '%s': r = %.17g, r * (180/pi) = %.17g (the stored ANGLE)", gc::rot_names[r], gc::rot_value(r), gc::rot_value(r) * (180.0 / M_PI)));
    std::vector<Search> plan;
    const int cyc = T ? 3 : 2;
    std::vector<uint64_t> mps = T ? std::vector<uint64_t>{0, 8, 5, 199} : std::vector<uint64_t>{0, 8};
    // smallest first: singles before pairs before heavy polygons; within a tier max_points 0 first
    for (uint64_t mp : mps) plan.push_back({"single", 0, NL, mp, cyc, 64, 30, "every single-element library over SIGMA", {}});
    for (uint64_t mp : mps) plan.push_back({"pair", NL + NH, NP, mp, cyc, 16, 30, fmt("every ordered pair over the reduced alphabet SIGMA' (%zu elements)", gc::reduced().size()), {}});
    if (T) {
        // Polygon::fracture of an 8200-vertex polygon down to 8 / 5 vertices takes 40-60 s per polygon in the
        // sanitized build, so small vertex limits run on a sub-family; 0 and 199 run on the whole family.
        std::vector<int64_t> small;
        for (int64_t i = 0; i < NH; i++) {
            gc::LibSpec sp = gc::spec_of(NL + i);
            const gc::Elem& e = sp.elems[0];
            if (e.n == 8200 && e.tag == 0 && (sp.libcfg == 0 || sp.libcfg == 3)) small.push_back(NL + i);
        }
        for (uint64_t mp : std::vector<uint64_t>{0, 199}) plan.push_back({"heavy", NL, NH, mp, cyc, 1, 120, "single polygons with 8189, 8190, 8191, 8200 vertices x repetition {none, 2x2} x properties {none, two} x 4 (unit, precision) x 2 tags", {}});
        for (uint64_t mp : std::vector<uint64_t>{8, 5}) plan.push_back({"heavy", NL, 0, mp, cyc, 1, 400, "single polygons with 8200 vertices x repetition {none, 2x2} x properties {none, two} x (unit, precision) in {(1e-6,1e-9),(1,1e-3)}", small});
    }
    if (!T) {
        // quick: the >8190-vertex polygons (multi-record XY) unfractured, on one (unit, precision) and tag
        std::vector<int64_t> few;
        for (int64_t i = 0; i < NH; i++) {
            gc::LibSpec sp = gc::spec_of(NL + i);
            if (sp.elems[0].tag == 0 && sp.libcfg == 0) few.push_back(NL + i);
        }
        plan.push_back({"heavy", NL, 0, 0, cyc, 1, 120, "single polygons with 8189, 8190, 8191, 8200 vertices x repetition {none, 2x2} x properties {none, two}, (unit, precision) = (1e-6, 1e-9), max_points 0", few});
    }
    const char* only = getenv("C01_ONLY");  // debugging aid: run only the sub-searches "sub:max_points" listed, e.g. "heavy:199,pair:0"
    for (auto& s : plan) {
        if (only && !strstr(only, fmt("%s:%llu", s.sub.c_str(), (unsigned long long)s.max_points).c_str())) continue;
        if (run.out_of_time()) { run.bound(s.sub, fmt("%s x max_points=%llu (not started: deadline)", s.what.c_str(), (unsigned long long)s.max_points), false, 0); continue; }
        run_search(s);
    }
    return run.finish();
}
